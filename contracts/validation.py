# Contracts for pandora/validation/validation.py (property C07).  Oracle: the property statement.

@assumed("pandora.cost_volume_confidence.cost_volume_confidence.AbstractCostVolumeConfidence.allocate_confidence_map")
def _(name_confidence_measure, confidence_map, disp, cv):
    # the form seen by CALL SITES (disparity_checking).  The function itself is under a proved contract in contracts/confidence.py
    # (option standalone: written per dataset structure); its postcondition band_as_assumed_at_call_sites is this clause verbatim.
    types(name_confidence_measure="str", confidence_map="f32[:,:]", disp="opaque", cv="opaque")
    option(returns=["disp", "cv"], fresh_vars={"disp": {"confidence_measure": "f32[:,:,:]"}})
    # the new band is the last one and holds the map that was passed
    ensures("band", result[0]["confidence_measure"].data.shape[0] == confidence_map.shape[0],
            result[0]["confidence_measure"].data.shape[1] == confidence_map.shape[1],
            result[0]["confidence_measure"].data.shape[2] >= 1,
            all(eq(result[0]["confidence_measure"].data[r, c, result[0]["confidence_measure"].data.shape[2] - 1], confidence_map[r, c])
                for r in range(confidence_map.shape[0]) for c in range(confidence_map.shape[1])))


@spec
def corr_col(dl, r, c) -> "int":
    # the correspondent of left pixel (r, c): c + round(dL(p))   (numpy.rint: half to even)
    return c + int(rint(dl[r, c]))


@spec
def lr_dist(dl, dr, r, c) -> "float":
    # |dL(p) + dR(q)|, a NaN right disparity counting as +inf
    return abs((np.inf if isnan(dr[r, corr_col(dl, r, c)]) else dr[r, corr_col(dl, r, c)]) + dl[r, c])


@spec
def other_match(dr, r, c, dmin, dmax) -> "bool":
    # some disparity d of the interval satisfies round(dR(p + d)) == -d
    return any(0 <= c + (dmin + k) and c + (dmin + k) < dr.shape[1] and eq(rint(dr[r, c + (dmin + k)]), -(dmin + k))
               for k in range(0, dmax - dmin + 1))


@spec
def cc_flag(vm, dl, dr, thr, dmin, dmax, r, c) -> "int":
    # the mask of pixel (r, c) after cross-checking: unchanged for an already invalid pixel or a consistent one, occlusion
    # (256) when the correspondent is outside the right image or no disparity of the interval explains the right map, mismatch (512)
    # when one does -- never both
    return (vm[r, c] if vm[r, c] & 0b01111000011 != 0 else
            vm[r, c] + 256 if (corr_col(dl, r, c) < 0 or corr_col(dl, r, c) >= dl.shape[1]) else
            vm[r, c] if lr_dist(dl, dr, r, c) <= thr else
            vm[r, c] + 512 if other_match(dr, r, c, dmin, dmax) else vm[r, c] + 256)


@spec
def cc_conf(vm, dl, dr, r, c) -> "float":
    # the left-right distance band: |dL(p) + dR(q)| where a correspondent exists, NaN elsewhere
    return (np.nan if vm[r, c] & 0b01111000011 != 0 or corr_col(dl, r, c) < 0 or corr_col(dl, r, c) >= dl.shape[1]
            else lr_dist(dl, dr, r, c))


@contract("pandora.validation.validation.CrossCheckingAccurate.disparity_checking", props=["C07", "C04", "C08"])
def _(self, dataset_left, dataset_right, img_left, img_right, cv):
    types(self={"@attrs": {"_threshold": "float"}},
          dataset_left={"vars": {"disparity_map": "f32[:,:]", "validity_mask": "u16[:,:]", "disparity_interval": "f32[2]"},
                        "attrs": {"offset_row_col": "int", "validation": "str"}},
          dataset_right={"vars": {"disparity_map": "f32[:,:]"}},
          img_left="none", img_right="none", cv="none")
    requires("shapes", dataset_left["validity_mask"].data.shape[0] == dataset_left["disparity_map"].data.shape[0],
             dataset_left["validity_mask"].data.shape[1] == dataset_left["disparity_map"].data.shape[1],
             dataset_right["disparity_map"].data.shape[0] == dataset_left["disparity_map"].data.shape[0],
             dataset_right["disparity_map"].data.shape[1] == dataset_left["disparity_map"].data.shape[1])
    requires("interval", isfinite(dataset_left["disparity_interval"].data[0]), isfinite(dataset_left["disparity_interval"].data[1]),
             dataset_left["disparity_interval"].data[0] <= dataset_left["disparity_interval"].data[1])
    requires("threshold", not isnan(self._threshold), self._threshold >= 0)
    # a valid left pixel carries a finite disparity (it received a sampled / refined disparity)
    requires("valid_is_finite", all(isfinite(dataset_left["disparity_map"].data[r, c])
                                    for r in range(dataset_left["disparity_map"].data.shape[0])
                                    for c in range(dataset_left["disparity_map"].data.shape[1])
                                    if dataset_left["validity_mask"].data[r, c] & 0b01111000011 == 0))
    requires("window_offset", dataset_left.attrs["offset_row_col"] >= 0,
             2 * dataset_left.attrs["offset_row_col"] <= dataset_left["disparity_map"].data.shape[0],
             2 * dataset_left.attrs["offset_row_col"] <= dataset_left["disparity_map"].data.shape[1])
    assigns(dataset_left)
    raises_never()
    option(lazy_slices=True, witness_marks=True)
    # C07: a previously valid pixel stays unflagged iff its correspondent lies in the right image and |dL(p)+dR(q)| <= threshold;
    # otherwise mismatch (bit 9) when some d of the interval has round(dR(p+d)) == -d, occlusion (bit 8) when none -- never both;
    # pixels already invalid are not re-examined
    ensures("flags", all(
        result["validity_mask"].data[r, c] == cc_flag(
            old(dataset_left["validity_mask"].data), dataset_left["disparity_map"].data, dataset_right["disparity_map"].data,
            self._threshold, int(dataset_left["disparity_interval"].data[0]), int(dataset_left["disparity_interval"].data[1]), r, c)
        for r in range(dataset_left.attrs["offset_row_col"], dataset_left["disparity_map"].data.shape[0] - dataset_left.attrs["offset_row_col"])
        for c in range(dataset_left.attrs["offset_row_col"], dataset_left["disparity_map"].data.shape[1] - dataset_left.attrs["offset_row_col"])))
    # keeps border pixels at bit 0 only
    ensures("border_bit0_only", all(
        result["validity_mask"].data[r, c] == 1
        for r in range(dataset_left["disparity_map"].data.shape[0]) for c in range(dataset_left["disparity_map"].data.shape[1])
        if dataset_left.attrs["offset_row_col"] > 0 and (
            r < dataset_left.attrs["offset_row_col"] or c < dataset_left.attrs["offset_row_col"]
            or r >= dataset_left["disparity_map"].data.shape[0] - dataset_left.attrs["offset_row_col"]
            or c >= dataset_left["disparity_map"].data.shape[1] - dataset_left.attrs["offset_row_col"])))
    # writes |dL(p)+dR(q)| into the (last) confidence band -- NaN where no correspondent was examined
    ensures("confidence_band", all(
        eq(result["confidence_measure"].data[r, c, result["confidence_measure"].data.shape[2] - 1],
           cc_conf(old(dataset_left["validity_mask"].data), dataset_left["disparity_map"].data, dataset_right["disparity_map"].data, r, c))
        for r in range(dataset_left["disparity_map"].data.shape[0]) for c in range(dataset_left["disparity_map"].data.shape[1])))
    # the step itself does not modify any disparity
    ensures("left_disparities_untouched", all(
        eq(result["disparity_map"].data[r, c], old(dataset_left["disparity_map"].data)[r, c])
        for r in range(dataset_left["disparity_map"].data.shape[0]) for c in range(dataset_left["disparity_map"].data.shape[1])))
    ensures("right_disparities_untouched", all(
        eq(dataset_right["disparity_map"].data[r, c], old(dataset_right["disparity_map"].data)[r, c])
        for r in range(dataset_left["disparity_map"].data.shape[0]) for c in range(dataset_left["disparity_map"].data.shape[1])))
    # the classification, case by case (the conjunction is cc_flag)
    invariant(1,
              all(dataset_left["validity_mask"].data[r, c] == old(dataset_left["validity_mask"].data)[r, c] for r in range(row, nb_row) for c in range(nb_col)),
              all(dataset_left["validity_mask"].data[r, c] == old(dataset_left["validity_mask"].data)[r, c] for r in range(row) for c in range(nb_col) if not (old(dataset_left["validity_mask"].data)[r, c] & 0b01111000011 == 0)),
              all(dataset_left["validity_mask"].data[r, c] == old(dataset_left["validity_mask"].data)[r, c] + 256 for r in range(row) for c in range(nb_col) if old(dataset_left["validity_mask"].data)[r, c] & 0b01111000011 == 0 and (corr_col(dataset_left["disparity_map"].data, r, c) < 0 or corr_col(dataset_left["disparity_map"].data, r, c) >= nb_col)),
              all(dataset_left["validity_mask"].data[r, c] == old(dataset_left["validity_mask"].data)[r, c] for r in range(row) for c in range(nb_col)
                  if old(dataset_left["validity_mask"].data)[r, c] & 0b01111000011 == 0 and not (corr_col(dataset_left["disparity_map"].data, r, c) < 0 or corr_col(dataset_left["disparity_map"].data, r, c) >= nb_col) and lr_dist(dataset_left["disparity_map"].data, dataset_right["disparity_map"].data, r, c) <= self._threshold),
              all(dataset_left["validity_mask"].data[r, c] == old(dataset_left["validity_mask"].data)[r, c] + 512 for r in range(row) for c in range(nb_col)
                  if old(dataset_left["validity_mask"].data)[r, c] & 0b01111000011 == 0 and not (corr_col(dataset_left["disparity_map"].data, r, c) < 0 or corr_col(dataset_left["disparity_map"].data, r, c) >= nb_col) and not (lr_dist(dataset_left["disparity_map"].data, dataset_right["disparity_map"].data, r, c) <= self._threshold) and other_match(dataset_right["disparity_map"].data, r, c, int(dataset_left["disparity_interval"].data[0]), int(dataset_left["disparity_interval"].data[1]))),
              all(dataset_left["validity_mask"].data[r, c] == old(dataset_left["validity_mask"].data)[r, c] + 256 for r in range(row) for c in range(nb_col)
                  if old(dataset_left["validity_mask"].data)[r, c] & 0b01111000011 == 0 and not (corr_col(dataset_left["disparity_map"].data, r, c) < 0 or corr_col(dataset_left["disparity_map"].data, r, c) >= nb_col) and not (lr_dist(dataset_left["disparity_map"].data, dataset_right["disparity_map"].data, r, c) <= self._threshold) and not other_match(dataset_right["disparity_map"].data, r, c, int(dataset_left["disparity_interval"].data[0]), int(dataset_left["disparity_interval"].data[1]))),
              all(eq(conf_measure[r, c], cc_conf(old(dataset_left["validity_mask"].data), dataset_left["disparity_map"].data, dataset_right["disparity_map"].data, r, c)) for r in range(row) for c in range(nb_col)),
              all(isnan(conf_measure[r, c]) for r in range(row, nb_row) for c in range(nb_col)))


@sampler("pandora.validation.validation.CrossCheckingAccurate.disparity_checking")
def _(rng):
    import xarray as xr
    from pandora.validation.validation import CrossCheckingAccurate
    shapes = [(1, 1), (1, 5), (2, 4), (3, 6), (4, 5)]
    h, w = shapes[rng.integers(0, len(shapes))]
    off = int(rng.integers(0, 2)) if min(h, w) >= 2 else 0
    dmin = int(rng.integers(-3, 2))
    dmax = dmin + int(rng.integers(0, 4))
    vals = np.arange(dmin * 2, dmax * 2 + 1) / 2.0          # halves: exercises round-half-to-even
    dl = vals[rng.integers(0, len(vals), size=(h, w))].astype(np.float32)
    dr = (-vals[rng.integers(0, len(vals), size=(h, w))]).astype(np.float32)
    dr[rng.random((h, w)) < 0.15] = np.nan
    bits = np.array([0, 0, 0, 0, 4, 8, 16, 1, 2, 64, 128], dtype=np.uint16)
    vm = bits[rng.integers(0, len(bits), size=(h, w))]
    dl[(vm & 0b01111000011) != 0] = [np.nan, -9999.0][rng.integers(0, 2)]
    left = xr.Dataset({"disparity_map": (["row", "col"], dl), "validity_mask": (["row", "col"], vm.copy()),
                       "disparity_interval": (["disparity"], np.array([dmin, dmax], dtype=np.float32))},
                      coords={"row": np.arange(h), "col": np.arange(w), "disparity": ["min", "max"]})
    left.attrs = {"offset_row_col": off, "validation": ""}
    right = xr.Dataset({"disparity_map": (["row", "col"], dr), "validity_mask": (["row", "col"], np.zeros((h, w), dtype=np.uint16))},
                       coords={"row": np.arange(h), "col": np.arange(w)})
    me = CrossCheckingAccurate.__new__(CrossCheckingAccurate)
    me._threshold = float([0.0, 0.5, 1.0, 2.0][rng.integers(0, 4)])
    return {"self": me, "dataset_left": left, "dataset_right": right, "img_left": None, "img_right": None, "cv": None}
