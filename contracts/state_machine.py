# Contracts for the orchestration in pandora/state_machine.py (properties C08, C12, C20, C05).
# "glue" mode: the step operations are uninterpreted; the contracts speak about the trace of calls and field stores.
# C08: with right products enabled, the multiset of effects on the left/right records is invariant under exchanging
#      the records (the right pass IS the left pass of the mirrored problem: argument order, interval variables, ...);
#      without, no right-record field is written or passed.

@contract("pandora.state_machine.PandoraMachine.matching_cost_prepare", props=["C08", "C01"])
def _(self, cfg, input_step):
    types(cfg="opaque", input_step="opaque")
    option(glue=True)
    raises_never()
    ensures("C08.equivariant", implies(right_enabled(), swap_closed()))
    ensures("C08.noright", implies(not right_enabled(), no_right_effect()))


@contract("pandora.state_machine.PandoraMachine.matching_cost_run", props=["C08", "C01"])
def _(self, _, __):
    types(_="opaque", __="opaque")
    option(glue=True)
    raises_never()
    ensures("C08.equivariant", implies(right_enabled(), swap_closed()))
    ensures("C08.noright", implies(not right_enabled(), no_right_effect()))
    ensures("mask_after_compute", called_before("compute_cost_volume", "cv_masked"))


@contract("pandora.state_machine.PandoraMachine.aggregation_run", props=["C08", "C01"])
def _(self, cfg, input_step):
    types(cfg="opaque", input_step="opaque")
    option(glue=True)
    raises_never()
    ensures("C08.equivariant", implies(right_enabled(), swap_closed()))
    ensures("C08.noright", implies(not right_enabled(), no_right_effect()))


@contract("pandora.state_machine.PandoraMachine.semantic_segmentation_run", props=["C08", "C01"])
def _(self, cfg, input_step):
    types(cfg="opaque", input_step="opaque")
    option(glue=True)
    raises_never()
    ensures("C08.equivariant", implies(right_enabled(), swap_closed()))


@contract("pandora.state_machine.PandoraMachine.optimization_run", props=["C08", "C01"])
def _(self, cfg, input_step):
    types(cfg="opaque", input_step="opaque")
    option(glue=True)
    raises_never()
    ensures("C08.equivariant", implies(right_enabled(), swap_closed()))


@contract("pandora.state_machine.PandoraMachine.disparity_run", props=["C08", "C01"])
def _(self, cfg, input_step):
    types(cfg="opaque", input_step="opaque")
    option(glue=True)
    raises_never()
    ensures("C08.equivariant", implies(right_enabled(), swap_closed()))
    ensures("C08.noright", implies(not right_enabled(), no_right_effect()))


@contract("pandora.state_machine.PandoraMachine.filter_run", props=["C08", "C01"])
def _(self, cfg, input_step):
    types(cfg="opaque", input_step="opaque")
    option(glue=True)
    raises_never()
    ensures("C08.equivariant", implies(right_enabled(), swap_closed()))
    ensures("C08.noright", implies(not right_enabled(), no_right_effect()))


@contract("pandora.state_machine.PandoraMachine.refinement_run", props=["C08", "C01"])
def _(self, cfg, input_step):
    types(cfg="opaque", input_step="opaque")
    option(glue=True)
    raises_never()
    ensures("C08.equivariant", implies(right_enabled(), swap_closed()))
    ensures("C08.noright", implies(not right_enabled(), no_right_effect()))


@contract("pandora.state_machine.PandoraMachine.validation_run", props=["C08", "C01"])
def _(self, cfg, input_step):
    # left is checked against right, then right against the (flag-updated) left by the same call with the records
    # exchanged; filling is applied to both.  (That checking does not alter disparities -- so that the sequential order
    # equals the simultaneous one -- is the frame clause of C07.)
    types(cfg="opaque", input_step="opaque")
    option(glue=True)
    raises_never()
    ensures("C08.equivariant", implies(right_enabled(), swap_closed()))
    # both maps are cross-checked against the RAW other map: no filling happens before the second check (otherwise the right
    # products would depend on the filled left map and the mirror symmetry is lost)
    ensures("C08.check_before_fill", not called_before("interpolated_disparity", "disparity_checking"))


@contract("pandora.state_machine.PandoraMachine.run_multiscale", props=["C08", "C01", "C15"])
def _(self, cfg, input_step):
    types(cfg="opaque", input_step="opaque")
    option(glue=True)
    raises_never()
    ensures("C08.equivariant", implies(right_enabled(), swap_closed()))


@contract("pandora.state_machine.PandoraMachine.cost_volume_confidence_run", props=["C08", "C12", "C01"])
def _(self, cfg, input_step):
    types(cfg="opaque", input_step="str")
    cases(input_step=["cost_volume_confidence", "cost_volume_confidence.amb"])
    option(glue=True)
    raises_never()
    ensures("C08.equivariant", implies(right_enabled(), swap_closed()))
    ensures("C08.noright", implies(not right_enabled(), no_right_effect()))
    # C12: the band suffix is taken from the step name ('' for the plain key, '.xxx' for 'cost_volume_confidence.xxx')
    ensures("C12.indicator", last_store("['indicator']") == repr("." + input_step.split(".")[1] if len(input_step.split(".")) == 2 else ""))
    ensures("C12.indicator_before_use", called_before("AbstractCostVolumeConfidence", "confidence_prediction"))


# ------------------------------------------------------------------------------------------------ preparation
@contract("pandora.state_machine.PandoraMachine.run_prepare", props=["C08", "C01"])
def _(self, cfg, left_img, right_img, scale_factor, num_scales):
    # C08.init: when the right interval is not given it is the mirrored left one (-max, -min), single scale or pyramid;
    # both output datasets start empty
    types(cfg="opaque", left_img="opaque", right_img="opaque", scale_factor="opaque", num_scales="opaque")
    option(glue=True)
    raises_never()
    ensures("C08.init.right_min", implies(branch("in right_img.data_vars") is not True,
                                           last_store("self.right_disp_min") == "(-" + last_store("self.disp_max") + ")"
                                           or last_store("self.right_disp_min") == "(-self.disp_max)"))
    ensures("C08.init.right_max", implies(branch("in right_img.data_vars") is not True,
                                           last_store("self.right_disp_max") == "(-" + last_store("self.disp_min") + ")"
                                           or last_store("self.right_disp_max") == "(-self.disp_min)"))
    ensures("C08.init.empty_outputs", stored_at("self.left_disparity") and stored_at("self.right_disparity"))
    ensures("images", stored_at("self.left_img") and stored_at("self.right_img"))


# ------------------------------------------------------------------------------------------------ checking callbacks
# C05: each callback stores the completed step configuration under the step's own key; the matching-cost band is
# checked against BOTH images.  C20: cumulative / non-cumulative registration under the step's full name.

@contract("pandora.state_machine.PandoraMachine.matching_cost_check_conf", props=["C05", "C20"])
def _(self, cfg, input_step):
    types(cfg="opaque", input_step="opaque")
    option(glue=True)
    ensures("C05.store", stored_at("self.pipeline_cfg['pipeline'][input_step]"))
    ensures("C05.band.left", ncalls("check_band_pipeline") == 2 and call_mentions("check_band_pipeline", 0, "self.left_img.coords['band_im']"))
    ensures("C05.band.right", call_mentions("check_band_pipeline", 1, "self.right_img.coords['band_im']"))
    ensures("C05.band.args", call_mentions("check_band_pipeline", 0, "cfg[input_step]['matching_cost_method']")
            and call_mentions("check_band_pipeline", 1, "cfg[input_step]['matching_cost_method']")
            and call_mentions("check_band_pipeline", 0, ".cfg['band']") and call_mentions("check_band_pipeline", 1, ".cfg['band']"))
    ensures("C20.cumulative", ncalls("add_cumulative") == 1 and ncalls("add_non_cumulative") == 0
            and call_mentions("add_cumulative", 0, "(input_step, <AbstractMatchingCost"))


@contract("pandora.state_machine.PandoraMachine.disparity_check_conf", props=["C05", "C20"])
def _(self, cfg, input_step):
    types(cfg="opaque", input_step="opaque")
    option(glue=True)
    ensures("C05.store", stored_at("self.pipeline_cfg['pipeline'][input_step]"))
    ensures("C20.cumulative", ncalls("add_cumulative") == 1 and ncalls("add_non_cumulative") == 0
            and call_mentions("add_cumulative", 0, "(input_step, <AbstractDisparity"))


@contract("pandora.state_machine.PandoraMachine.refinement_check_conf", props=["C05", "C20"])
def _(self, cfg, input_step):
    types(cfg="opaque", input_step="opaque")
    option(glue=True)
    ensures("C05.store", stored_at("self.pipeline_cfg['pipeline'][input_step]"))
    ensures("C20.cumulative", ncalls("add_cumulative") == 1 and ncalls("add_non_cumulative") == 0
            and call_mentions("add_cumulative", 0, "(input_step, <AbstractRefinement"))


@contract("pandora.state_machine.PandoraMachine.aggregation_check_conf", props=["C05", "C20"])
def _(self, cfg, input_step):
    types(cfg="opaque", input_step="opaque")
    option(glue=True)
    ensures("C05.store", stored_at("self.pipeline_cfg['pipeline'][input_step]"))
    ensures("C20.cumulative", ncalls("add_cumulative") == 1 and ncalls("add_non_cumulative") == 0
            and call_mentions("add_cumulative", 0, "(input_step, <AbstractAggregation"))


@contract("pandora.state_machine.PandoraMachine.filter_check_conf", props=["C05", "C20"])
def _(self, cfg, input_step):
    types(cfg="opaque", input_step="opaque")
    option(glue=True)
    ensures("C05.store", stored_at("self.pipeline_cfg['pipeline'][input_step]"))
    ensures("C05.user_cfg_not_mutated", call_mentions("AbstractFilter", 0, "cfg=deepcopy(cfg[input_step])")
            or call_mentions("AbstractFilter", 0, "cfg=copy.deepcopy(cfg[input_step])"))
    ensures("C20.non_cumulative", ncalls("add_non_cumulative") == 1 and ncalls("add_cumulative") == 0
            and call_mentions("add_non_cumulative", 0, "(input_step, <AbstractFilter"))
    ensures("C20.step", call_mentions("AbstractFilter", 0, "step=self.step"))
    # min(rows, cols, ...) of the bilateral margin is taken over the image the filter is told about: (rows, cols) of the left image
    ensures("C20.image_shape", call_mentions("AbstractFilter", 0, "image_shape=(self.left_img.sizes['row'], self.left_img.sizes['col'])"))


@contract("pandora.state_machine.PandoraMachine.optimization_check_conf", props=["C05", "C20"])
def _(self, cfg, input_step):
    types(cfg="opaque", input_step="opaque")
    option(glue=True)
    may_raise(AttributeError)
    ensures("C05.store", stored_at("self.pipeline_cfg['pipeline'][input_step]"))
    ensures("C20.cumulative", ncalls("add_cumulative") == 1 and ncalls("add_non_cumulative") == 0
            and call_mentions("add_cumulative", 0, "(input_step, <AbstractOptimization"))


@contract("pandora.state_machine.PandoraMachine.validation_check_conf", props=["C05", "C20"])
def _(self, cfg, input_step):
    types(cfg="opaque", input_step="opaque")
    option(glue=True)
    may_raise(AttributeError)
    ensures("C05.store", stored_at("self.pipeline_cfg['pipeline'][input_step]"))
    ensures("right_products_enabled", stored_at("self.right_disp_map"))
    ensures("C20.no_margin", ncalls("add_cumulative") == 0 and ncalls("add_non_cumulative") == 0)


@contract("pandora.state_machine.PandoraMachine.multiscale_check_conf", props=["C05", "C20"])
def _(self, cfg, input_step):
    types(cfg="opaque", input_step="opaque")
    option(glue=True)
    ensures("C05.store", stored_at("self.pipeline_cfg['pipeline'][input_step]"))
    ensures("C20.no_margin", ncalls("add_cumulative") == 0 and ncalls("add_non_cumulative") == 0)


@contract("pandora.state_machine.PandoraMachine.cost_volume_confidence_check_conf", props=["C05", "C20"])
def _(self, cfg, input_step):
    types(cfg="opaque", input_step="opaque")
    option(glue=True)
    ensures("C05.store", stored_at("self.pipeline_cfg['pipeline'][input_step]"))
    ensures("C20.no_margin", ncalls("add_cumulative") == 0 and ncalls("add_non_cumulative") == 0)


# ------------------------------------------------------------------------------------------------ transition tables (C01)
# the documented automaton (property C01 / docs/source/userguide/sequencing.rst)
DELTA = {
    "matching_cost": ("begin", "cost_volume"),
    "aggregation": ("cost_volume", "cost_volume"),
    "optimization": ("cost_volume", "cost_volume"),
    "semantic_segmentation": ("cost_volume", "cost_volume"),
    "cost_volume_confidence": ("cost_volume", "cost_volume"),
    "disparity": ("cost_volume", "disp_map"),
    "filter": ("disp_map", "disp_map"),
    "refinement": ("disp_map", "disp_map"),
    "validation": ("disp_map", "disp_map"),
    "multiscale": ("disp_map", "disp_map"),
}


@tables("pandora.state_machine.PandoraMachine", props=["C01"])
def _():
    ensures("check.one_row_per_kind", sorted(t["trigger"] for t in _transitions_check) == sorted("check_" + k for k in DELTA))
    ensures("check.source_dest", all((t["source"], t["dest"]) == DELTA[t["trigger"][len("check_"):]] for t in _transitions_check))
    ensures("check.callback", all(t["after"] == t["trigger"][len("check_"):] + "_check_conf" and t["after"] in methods
                                  for t in _transitions_check))
    ensures("check.no_extra_keys", all(sorted(t) == ["after", "dest", "source", "trigger"] for t in _transitions_check))
    ensures("run.one_row_per_kind", sorted(t["trigger"] for t in _transitions_run) == sorted(DELTA))
    ensures("run.source", all(t["source"] == DELTA[t["trigger"]][0] for t in _transitions_run))
    # the one documented difference: multiscale goes back to 'begin' (next scale) under the condition is_not_last_scale
    ensures("run.dest", all(t["dest"] == ("begin" if t["trigger"] == "multiscale" else DELTA[t["trigger"]][1]) for t in _transitions_run))
    ensures("run.callback", all(t["after"] == ("run_multiscale" if t["trigger"] == "multiscale" else t["trigger"] + "_run")
                                and t["after"] in methods for t in _transitions_run))
    ensures("run.conditions", all(("conditions" in t) == (t["trigger"] == "multiscale") for t in _transitions_run)
            and all(t.get("conditions", "is_not_last_scale") == "is_not_last_scale" for t in _transitions_run)
            and "is_not_last_scale" in methods)
    ensures("run.prepare", all(("prepare" in t) == (t["trigger"] == "matching_cost") for t in _transitions_run)
            and all(t.get("prepare", "matching_cost_prepare") == "matching_cost_prepare" for t in _transitions_run))
    ensures("run.no_extra_keys", all(set(t) <= {"trigger", "source", "dest", "after", "prepare", "conditions"} for t in _transitions_run))
    ensures("mirror", all(any(c["trigger"] == "check_" + r["trigger"] and c["source"] == r["source"]
                              and (c["dest"] == r["dest"] or r["trigger"] == "multiscale") for c in _transitions_check)
                          for r in _transitions_run))


# C01 ("an accepted pipeline is returned as written: steps are not reordered") and C05 ("every user-supplied key keeps its value and
# position"): check_pipeline_section merges dictionaries with update_conf(base, overlay), whose result takes its key order from the
# BASE (a deep copy of it, overlay keys written over / appended).  Trace obligations: the configuration handed to the machine is the
# user's laid over the defaults, and the returned one is the machine's checked steps laid over a base that comes from the USER's
# configuration -- not over the machine's own record, whose order is whatever earlier checks of the same machine left in it.
@contract("pandora.check_configuration.check_pipeline_section", props=["C01", "C05"])
def _(user_cfg, img_left, img_right, pandora_machine):
    types(user_cfg="opaque", img_left="opaque", img_right="opaque", pandora_machine="opaque")
    option(glue=True)
    ensures("user_over_defaults", ncalls("update_conf") == 2,
            call_arg_mentions("update_conf", 0, 0, "default_short_configuration_pipeline"),
            call_arg_mentions("update_conf", 0, 1, "user_cfg"))
    ensures("machine_checks_the_merged_user_configuration", ncalls("check_conf") == 1,
            call_arg_mentions("check_conf", 0, 0, "user_cfg"), called_before("update_conf", "check_conf"))
    ensures("user_order_kept", call_arg_mentions("update_conf", 1, 0, "user_cfg"),
            not call_arg_mentions("update_conf", 1, 0, "pandora_machine"),
            call_arg_mentions("update_conf", 1, 1, "pandora_machine.pipeline_cfg"),
            not call_arg_mentions("update_conf", 1, 1, "user_cfg"))


# C05 / C17: the public check_conf -- the input section is checked first (malformed inputs are refused before any pipeline checking),
# each image's metadata are read from ITS OWN entries of the checked input section, the pipeline is checked against (left, right) in
# this order on the caller's machine, and the result concatenates the two checked sections
@contract("pandora.check_configuration.check_conf", props=["C05", "C17"])
def _(user_cfg, pandora_machine):
    types(user_cfg="opaque", pandora_machine="opaque")
    option(glue=True)
    ensures("input_checked_first", called_before("check_input_section", "get_metadata"), called_before("check_input_section", "check_pipeline_section"),
            ncalls("check_input_section") == 1, call_arg_mentions("check_input_section", 0, 0, "get_config_input(user_cfg)"))
    ensures("metadata_of_each_image_from_its_own_entries", ncalls("get_metadata") == 2,
            all(("['left']" in t) != ("['right']" in t) for t in event_texts() if "get_metadata(" in t and "check_pipeline_section" not in t),
            call_arg_mentions("get_metadata", 0, 0, "['left']['img']"), call_arg_mentions("get_metadata", 0, 1, "['left']['disp']"),
            call_arg_mentions("get_metadata", 0, 2, "['left']['classif']"), call_arg_mentions("get_metadata", 0, 3, "['left']['segm']"),
            call_arg_mentions("get_metadata", 1, 0, "['right']['img']"), call_arg_mentions("get_metadata", 1, 1, "['right']['disp']"),
            call_arg_mentions("get_metadata", 1, 2, "['right']['classif']"), call_arg_mentions("get_metadata", 1, 3, "['right']['segm']"))
    ensures("pipeline_checked_left_then_right", ncalls("check_pipeline_section") == 1,
            call_arg_mentions("check_pipeline_section", 0, 0, "get_config_pipeline(user_cfg)"),
            call_arg_mentions("check_pipeline_section", 0, 1, "['left']"), not call_arg_mentions("check_pipeline_section", 0, 1, "['right']"),
            call_arg_mentions("check_pipeline_section", 0, 2, "['right']"), not call_arg_mentions("check_pipeline_section", 0, 2, "['left']"),
            call_arg_mentions("check_pipeline_section", 0, 3, "pandora_machine"))
    # (the CHECKED sections, completed with their defaults -- not the user's raw ones: the list opens with the checked input section,
    # followed by the checked pipeline section)
    ensures("both_checked_sections_returned", ncalls("concat_conf") == 1,
            call_arg_mentions("concat_conf", 0, 0, "[check_input_section(get_config_input(user_cfg)), check_pipeline_section(get_config_pipeline(user_cfg), "))


# (the module constant default_short_configuration_input is rendered by its VALUE in the trace: the clauses below therefore also pin
# the documented input defaults -- nodata -9999, no mask / classification / segmentation, no right disparity)
# MERGED = update_conf({'input': {'left': {'nodata': -9999, 'mask': None, 'classif': None, 'segm': None}, 'right': {'nodata': -9999, 'mask': None, 'classif': None, 'segm': None, 'disp': None}}}, user_cfg)


# C17 ("malformed inputs are refused before any matching starts") / C05: check_input_section -- the user's input section is laid
# over the defaults; the schema is chosen by the FORM of the two disparity entries of the merged configuration (left a list ->
# integer-disparity schema; else right a path -> grids/grids; else grids/none); the schema is validated on the merged configuration
# BEFORE the custom checks; each side's disparity is checked against ITS OWN image; the images are checked on the merged input
# section; the merged configuration is what comes back
@contract("pandora.check_configuration.check_input_section", props=["C17", "C05"])
def _(user_cfg):
    types(user_cfg="opaque")
    option(glue=True)
    ensures("user_over_defaults", ncalls("update_conf") == 1,
            call_arg_mentions("update_conf", 0, 0, "{'input': {'left': {'nodata': -9999, 'mask': None, 'classif': None, 'segm': None}, 'right': {'nodata': -9999, 'mask': None, 'classif': None, 'segm': None, 'disp': None}}}"),
            call_arg_mentions("update_conf", 0, 1, "user_cfg"))
    ensures("schema_by_disparity_form",
            all(("input_configuration_schema_integer_disparity" in t) == (branch("['left']['disp'], list)") is True)
                and ("input_configuration_schema_left_disparity_grids_right_grids" in t)
                == (branch("['left']['disp'], list)") is False and branch("['right']['disp'], str)") is True)
                and ("input_configuration_schema_left_disparity_grids_right_none" in t)
                == (branch("['left']['disp'], list)") is False and branch("['right']['disp'], str)") is False)
                for t in event_texts() if ".update(" in t),
            len([t for t in event_texts() if ".update(" in t]) == 2,
            any("input_configuration_schema['left'].update(" in t and "['left'])" in t for t in event_texts()),
            any("input_configuration_schema['right'].update(" in t and "['right'])" in t for t in event_texts()))
    ensures("schema_validated_on_the_merged_configuration_first", ncalls("validate") == 1,
            call_arg_mentions("validate", 0, 0, "update_conf({'input': {'left': {'nodata': -9999, 'mask': None, 'classif': None, 'segm': None}, 'right': {'nodata': -9999, 'mask': None, 'classif': None, 'segm': None, 'disp': None}}}, user_cfg)"), not call_arg_mentions("validate", 0, 0, "["),
            called_before("update", "validate"), called_before("validate", "check_disparities_from_input"),
            called_before("validate", "check_images"),
            any("Checker({'input': input_configuration_schema})" in t for t in event_texts()))
    ensures("each_disparity_against_its_own_image", ncalls("check_disparities_from_input") == 2,
            call_arg_mentions("check_disparities_from_input", 0, 0, "update_conf({'input': {'left': {'nodata': -9999, 'mask': None, 'classif': None, 'segm': None}, 'right': {'nodata': -9999, 'mask': None, 'classif': None, 'segm': None, 'disp': None}}}, user_cfg)['input']['left']['disp']"),
            call_arg_mentions("check_disparities_from_input", 0, 1, "update_conf({'input': {'left': {'nodata': -9999, 'mask': None, 'classif': None, 'segm': None}, 'right': {'nodata': -9999, 'mask': None, 'classif': None, 'segm': None, 'disp': None}}}, user_cfg)['input']['left']['img']"),
            call_arg_mentions("check_disparities_from_input", 1, 0, "update_conf({'input': {'left': {'nodata': -9999, 'mask': None, 'classif': None, 'segm': None}, 'right': {'nodata': -9999, 'mask': None, 'classif': None, 'segm': None, 'disp': None}}}, user_cfg)['input']['right']['disp']"),
            call_arg_mentions("check_disparities_from_input", 1, 1, "update_conf({'input': {'left': {'nodata': -9999, 'mask': None, 'classif': None, 'segm': None}, 'right': {'nodata': -9999, 'mask': None, 'classif': None, 'segm': None, 'disp': None}}}, user_cfg)['input']['right']['img']"))
    ensures("images_checked", ncalls("check_images") == 1,
            call_arg_mentions("check_images", 0, 0, "update_conf({'input': {'left': {'nodata': -9999, 'mask': None, 'classif': None, 'segm': None}, 'right': {'nodata': -9999, 'mask': None, 'classif': None, 'segm': None, 'disp': None}}}, user_cfg)['input']"))
    ensures("returns_the_merged_configuration", result_text() == "update_conf({'input': {'left': {'nodata': -9999, 'mask': None, 'classif': None, 'segm': None}, 'right': {'nodata': -9999, 'mask': None, 'classif': None, 'segm': None, 'disp': None}}}, user_cfg)")


# C01 ("every history of check / run calls on one machine"; "checking mirrors running"): PandoraMachine.check_conf -- the images
# are recorded, a first-round check starts from an EMPTY checked pipeline (a right/left second round completes the same one), the
# checking transitions are installed before any step is triggered and removed afterwards, every step of the user's pipeline is
# triggered in the pipeline's own order with the pipeline section and ITS OWN key (a suffixed key 'filter.1' fires the trigger
# of its head 'check_filter'), the machine comes back to 'begin', and when a right disparity map is requested the same check is run
# once more with the two images exchanged, after which the records point at (left, right) again.
# The loop over the steps is summarised by ONE generic iteration (its events stand for every iteration).
@contract("pandora.state_machine.PandoraMachine.check_conf", props=["C01", "C05"])
def _(self, cfg, img_left, img_right, right_left_img_check):
    types(cfg="opaque", img_left="opaque", img_right="opaque", right_left_img_check="opaque")
    option(glue=True)
    ensures("images_recorded", event_texts()[0] == "self.left_img = img_left", event_texts()[1] == "self.right_img = img_right")
    ensures("first_round_starts_from_an_empty_pipeline",
            stored_at("self.pipeline_cfg") == (branch("not (right_left_img_check)") is True),
            implies(stored_at("self.pipeline_cfg"), last_store("self.pipeline_cfg") == "{'pipeline': {}}"
                    and event_before("self.pipeline_cfg = ", "self.add_transitions(")
                    and len([t for t in event_texts() if "self.pipeline_cfg = " in t]) == 1))
    ensures("checking_transitions_around_the_steps", ncalls("add_transitions") == 1, ncalls("remove_transitions") == 1,
            call_arg_mentions("add_transitions", 0, 0, "self._transitions_check"),
            call_arg_mentions("remove_transitions", 0, 0, "self._transitions_check"),
            event_before("self.add_transitions(", "self.trigger("), event_before("self.trigger(", "self.remove_transitions("))
    ensures("every_step_triggered_in_pipeline_order_with_its_own_key",
            in_loop("self.trigger(", "list(cfg['pipeline'])"), ncalls("trigger") == 1,
            call_arg_mentions("trigger", 0, 1, "cfg['pipeline']"),
            call_arg_mentions("trigger", 0, 2, "<each input_step of list(cfg['pipeline'])>"),
            not call_arg_mentions("trigger", 0, 2, "split"), not call_arg_mentions("trigger", 0, 2, "check_"),
            implies(branch("split('.')) != 1") is True,
                    call_arg_mentions("trigger", 0, 0, "('check_' + <each input_step of list(cfg['pipeline'])>).split('.')[0]")),
            implies(branch("split('.')) != 1") is False,
                    call_arg_mentions("trigger", 0, 0, "('check_' + <each input_step of list(cfg['pipeline'])>)")
                    and not call_arg_mentions("trigger", 0, 0, "split")))
    ensures("back_to_begin", ncalls("set_state") == 1, call_arg_mentions("set_state", 0, 0, "'begin'"),
            event_before("self.remove_transitions(", "self.set_state("))
    ensures("second_round_with_the_images_exchanged",
            (ncalls("check_conf") == 1) == (branch("(self.right_disp_map) and (not (right_left_img_check))") is True),
            ncalls("check_conf") <= 1,
            implies(ncalls("check_conf") == 1,
                    call_arg_mentions("check_conf", 0, 0, "cfg") and call_arg_mentions("check_conf", 0, 1, "img_right")
                    and call_arg_mentions("check_conf", 0, 2, "img_left") and call_arg_mentions("check_conf", 0, 3, "True")
                    and event_before("self.set_state(", "self.check_conf(")))
    ensures("records_point_at_left_right_at_the_end", last_store("self.left_img") == "img_left", last_store("self.right_img") == "img_right",
            implies(ncalls("check_conf") == 1, event_before("self.check_conf(", "self.left_img = img_left") is False
                    and len([t for t in event_texts() if t == "self.left_img = img_left"]) == 2
                    and event_texts()[-1] == "self.right_img = img_right" and event_texts()[-2] == "self.left_img = img_left"))


# C01 ("each configured step takes effect, in the order written"): pandora.run -- the scale parameters are read from the
# configuration, the machine is prepared ONCE with (cfg, left, right, scale_factor, num_scales) before any step, every step of
# the pipeline is handed to the machine in the pipeline's own order (generic iteration of the loop over list(cfg['pipeline']),
# itself inside the loop over the scales) together with the whole configuration, the machine is reset once after the loops, and
# the machine's own left / right disparity datasets are returned, left first.
@contract("pandora.run", props=["C01", "C08", "C15"])
def _(pandora_machine, img_left, img_right, cfg):
    types(pandora_machine="opaque", img_left="opaque", img_right="opaque", cfg="opaque")
    option(glue=True)
    ensures("prepared_once_before_any_step", ncalls("run_prepare") == 1, ncalls("read_multiscale_params") == 1,
            call_arg_mentions("read_multiscale_params", 0, 0, "cfg"),
            call_arg_mentions("run_prepare", 0, 0, "cfg"), call_arg_mentions("run_prepare", 0, 1, "img_left"),
            call_arg_mentions("run_prepare", 0, 2, "img_right"),
            # read_multiscale_params returns (num_scales, scale_factor); run_prepare takes (..., scale_factor, num_scales)
            call_arg_mentions("run_prepare", 0, 3, "read_multiscale_params(cfg)[1]"),
            call_arg_mentions("run_prepare", 0, 4, "read_multiscale_params(cfg)[0]"),
            event_before("run_prepare(", "pandora_machine.run("))
    ensures("every_step_in_pipeline_order_at_every_scale", ncalls("run") == 1,
            in_loop("pandora_machine.run(", "list(cfg['pipeline'])"), in_loop("pandora_machine.run(", "range(pandora_machine.num_scales)"),
            call_arg_mentions("run", 0, 0, "<each elem of list(cfg['pipeline'])>"), call_arg_mentions("run", 0, 1, "cfg"),
            not call_arg_mentions("run", 0, 1, "["))
    ensures("a_scale_ends_early_only_when_the_machine_is_back_at_begin",
            break_guard() is None or break_guard() == "pandora_machine.state == 'begin'")
    ensures("reset_once_after_the_steps", ncalls("run_exit") == 1, event_before("pandora_machine.run(", "run_exit("),
            not in_loop("run_exit(", "range(pandora_machine.num_scales)"))
    ensures("returns_the_machines_left_then_right_disparity",
            result_text() == "(pandora_machine.left_disparity, pandora_machine.right_disparity)")


# C01: PandoraMachine.run -- a step fires the trigger of its head ('filter.1' -> 'filter') with the whole configuration and ITS OWN
# key; PandoraMachine.run_exit removes the run transitions and puts the machine back to 'begin' (a machine can be reused).
@contract("pandora.state_machine.PandoraMachine.run", props=["C01"])
def _(self, input_step, cfg):
    types(input_step="opaque", cfg="opaque")
    option(glue=True)
    ensures("head_trigger_own_key", ncalls("trigger") == 1, call_arg_mentions("trigger", 0, 0, "input_step.split('.')[0]"),
            call_arg_mentions("trigger", 0, 1, "cfg"), not call_arg_mentions("trigger", 0, 1, "["),
            call_arg_mentions("trigger", 0, 2, "input_step"), not call_arg_mentions("trigger", 0, 2, "split"))


@contract("pandora.state_machine.PandoraMachine.run_exit", props=["C01", "C18"])
def _(self):
    option(glue=True)
    ensures("run_transitions_removed_then_begin", ncalls("remove_transitions") == 1,
            call_arg_mentions("remove_transitions", 0, 0, "self._transitions_run"), ncalls("set_state") == 1,
            call_arg_mentions("set_state", 0, 0, "'begin'"), event_before("remove_transitions(", "set_state("))


# C15 (scale schedule): the multiscale transition goes back to 'begin' (one more scale) exactly while the current scale is not the
# last one, scale 0 -- the condition callback of the 'multiscale' run transition (its presence in the table is a C01 table obligation)
@contract("pandora.state_machine.PandoraMachine.is_not_last_scale", props=["C15", "C01"])
def _(self, _, __):
    types(_="opaque", __="opaque")
    option(glue=True)
    ensures("another_scale_iff_current_scale_is_not_zero", branch("self.current_scale == 0") is not None,
            result_text() == ("False" if branch("self.current_scale == 0") else "True"), ncalls("trigger") == 0)
