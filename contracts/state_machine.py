# Contracts for the orchestration in pandora/state_machine.py (properties C08, C12, C20, C05).
# "glue" mode: the step operations are uninterpreted; the contracts speak about the trace of calls and field stores.
# C08: with right products enabled, the multiset of effects on the left/right records is invariant under exchanging
#      the records (the right pass IS the left pass of the mirrored problem: argument order, interval variables, ...);
#      without, no right-record field is written or passed.

@contract("pandora.state_machine.PandoraMachine.matching_cost_prepare", props=["C08"])
def _(self, cfg, input_step):
    types(cfg="opaque", input_step="opaque")
    option(glue=True)
    raises_never()
    ensures("C08.equivariant", implies(right_enabled(), swap_closed()))
    ensures("C08.noright", implies(not right_enabled(), no_right_effect()))


@contract("pandora.state_machine.PandoraMachine.matching_cost_run", props=["C08"])
def _(self, _, __):
    types(_="opaque", __="opaque")
    option(glue=True)
    raises_never()
    ensures("C08.equivariant", implies(right_enabled(), swap_closed()))
    ensures("C08.noright", implies(not right_enabled(), no_right_effect()))
    ensures("mask_after_compute", called_before("compute_cost_volume", "cv_masked"))


@contract("pandora.state_machine.PandoraMachine.aggregation_run", props=["C08"])
def _(self, cfg, input_step):
    types(cfg="opaque", input_step="opaque")
    option(glue=True)
    raises_never()
    ensures("C08.equivariant", implies(right_enabled(), swap_closed()))
    ensures("C08.noright", implies(not right_enabled(), no_right_effect()))


@contract("pandora.state_machine.PandoraMachine.semantic_segmentation_run", props=["C08"])
def _(self, cfg, input_step):
    types(cfg="opaque", input_step="opaque")
    option(glue=True)
    raises_never()
    ensures("C08.equivariant", implies(right_enabled(), swap_closed()))


@contract("pandora.state_machine.PandoraMachine.optimization_run", props=["C08"])
def _(self, cfg, input_step):
    types(cfg="opaque", input_step="opaque")
    option(glue=True)
    raises_never()
    ensures("C08.equivariant", implies(right_enabled(), swap_closed()))


@contract("pandora.state_machine.PandoraMachine.disparity_run", props=["C08"])
def _(self, cfg, input_step):
    types(cfg="opaque", input_step="opaque")
    option(glue=True)
    raises_never()
    ensures("C08.equivariant", implies(right_enabled(), swap_closed()))
    ensures("C08.noright", implies(not right_enabled(), no_right_effect()))


@contract("pandora.state_machine.PandoraMachine.filter_run", props=["C08"])
def _(self, cfg, input_step):
    types(cfg="opaque", input_step="opaque")
    option(glue=True)
    raises_never()
    ensures("C08.equivariant", implies(right_enabled(), swap_closed()))
    ensures("C08.noright", implies(not right_enabled(), no_right_effect()))


@contract("pandora.state_machine.PandoraMachine.refinement_run", props=["C08"])
def _(self, cfg, input_step):
    types(cfg="opaque", input_step="opaque")
    option(glue=True)
    raises_never()
    ensures("C08.equivariant", implies(right_enabled(), swap_closed()))
    ensures("C08.noright", implies(not right_enabled(), no_right_effect()))


@contract("pandora.state_machine.PandoraMachine.validation_run", props=["C08"])
def _(self, cfg, input_step):
    # left is checked against right, then right against the (flag-updated) left by the same call with the records
    # exchanged; filling is applied to both.  (That checking does not alter disparities -- so that the sequential order
    # equals the simultaneous one -- is the frame clause of C07.)
    types(cfg="opaque", input_step="opaque")
    option(glue=True)
    raises_never()
    ensures("C08.equivariant", implies(right_enabled(), swap_closed()))


@contract("pandora.state_machine.PandoraMachine.run_multiscale", props=["C08"])
def _(self, cfg, input_step):
    types(cfg="opaque", input_step="opaque")
    option(glue=True)
    raises_never()
    ensures("C08.equivariant", implies(right_enabled(), swap_closed()))


@contract("pandora.state_machine.PandoraMachine.cost_volume_confidence_run", props=["C08", "C12"])
def _(self, cfg, input_step):
    types(cfg="opaque", input_step="str")
    cases(input_step=["cost_volume_confidence", "cost_volume_confidence.amb"])
    option(glue=True)
    raises_never()
    ensures("C08.equivariant", implies(right_enabled(), swap_closed()))
    ensures("C08.noright", implies(not right_enabled(), no_right_effect()))
    # C12: the band suffix is taken from the step name ('' for the plain key, '.xxx' for 'cost_volume_confidence.xxx')
    ensures("C12.indicator", last_store("['indicator']") == repr("." + input_step.split(".")[1] if len(input_step.split(".")) == 2 else ""))
    ensures("C12.indicator_before_use", called_before("AbstractCostVolumeConfidence", "confidence_prediction"))
