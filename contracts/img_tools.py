# Contracts for pandora/img_tools.py (properties C16, C14, C02).

@spec
def clip_lo(first, margin) -> "int":
    return max(first - margin, 0)


@contract("pandora.img_tools.get_window", props=["C16"])
def _(roi, width, height):
    # roi = {"col": {"first", "last"}, "row": {"first", "last"}, "margins": [left, up, right, down]}
    types(roi={"col": {"first": "int", "last": "int"}, "row": {"first": "int", "last": "int"},
               "margins": ["int", "int", "int", "int"]}, width="int", height="int")
    requires("image", width >= 1, height >= 1)
    requires("roi", roi["col"]["first"] <= roi["col"]["last"], roi["row"]["first"] <= roi["row"]["last"],
             roi["margins"][0] >= 0, roi["margins"][1] >= 0, roi["margins"][2] >= 0, roi["margins"][3] >= 0)
    # property C16: reading with a ROI = rows/columns [first - margin, last + margin] clipped to the image;
    # a ROI entirely outside the image is refused
    raises_iff(ValueError, roi["col"]["first"] - roi["margins"][0] >= width or roi["col"]["last"] + roi["margins"][2] < 0
               or roi["row"]["first"] - roi["margins"][1] >= height or roi["row"]["last"] + roi["margins"][3] < 0)
    ensures("col_off", result[1] == max(roi["col"]["first"] - roi["margins"][0], 0))
    ensures("row_off", result[2] == max(roi["row"]["first"] - roi["margins"][1], 0))
    ensures("col_end", result[1] + result[3] == min(roi["col"]["last"] + roi["margins"][2] + 1, width))
    ensures("row_end", result[2] + result[4] == min(roi["row"]["last"] + roi["margins"][3] + 1, height))
    ensures("non_empty", result[3] >= 1 and result[4] >= 1)


# ------------------------------------------------------------------------------------------------ find_valid_neighbors
@spec
def walk(disp, valid, r, c, dr, dc) -> "float":
    # disparity of the first pixel without an invalid flag met from (c, r) along (dc, dr); NaN when the image is left first
    return np.nan if (c < 0 or c >= disp.shape[0] or r < 0 or r >= disp.shape[1]) else (
        disp[c, r] if (valid[c, r] & 963) == 0 else walk(disp, valid, r + dr, c + dc, dr, dc))


@contract("pandora.img_tools.find_valid_neighbors", props=["C14", "C09"])
def _(dirs, disp, valid, row, col):
    types(dirs="i64[:,:]", disp="f32[:,:]", valid="u16[:,:]", row="int", col="int", result="f32[:]")
    # the 8 scan directions used by both sgm kernels
    cases(dirs=[[[0, 1], [-1, 1], [-1, 0], [-1, -1], [0, -1], [1, -1], [1, 0], [1, 1]]])
    requires("shapes", valid.shape[0] == disp.shape[0], valid.shape[1] == disp.shape[1])
    requires("inside", 0 <= col, col < disp.shape[0], 0 <= row, row < disp.shape[1])
    assigns()
    raises_never()
    unroll(1)
    ensures("shape", result.shape[0] == 8)
    ensures("first_valid", all(eq(result[d], walk(disp, valid, row + dirs[d][0], col + dirs[d][1], dirs[d][0], dirs[d][1]))
                               for d in [0, 1, 2, 3, 4, 5, 6, 7]))
    invariant(2, 0 <= i, tmp_row == row + i * dirs[direction][0], tmp_col == col + i * dirs[direction][1],
              i == 0 or (0 <= tmp_col and tmp_col < ncol and 0 <= tmp_row and tmp_row < nrow),
              eq(walk(disp, valid, row + dirs[direction][0], col + dirs[direction][1], dirs[direction][0], dirs[direction][1]),
                 walk(disp, valid, tmp_row + dirs[direction][0], tmp_col + dirs[direction][1], dirs[direction][0], dirs[direction][1])))
    after(2, eq(valid_neighbors[direction],
                walk(disp, valid, row + dirs[direction][0], col + dirs[direction][1], dirs[direction][0], dirs[direction][1])))


@sampler("pandora.img_tools.find_valid_neighbors")
def _(rng):
    h, w = int(rng.integers(1, 5)), int(rng.integers(1, 5))
    return {"dirs": np.array([[0, 1], [-1, 1], [-1, 0], [-1, -1], [0, -1], [1, -1], [1, 0], [1, 1]]),
            "disp": rng.integers(-2, 3, size=(h, w)).astype(np.float32),
            "valid": np.array([0, 0, 4, 1, 64, 256, 512, 8], dtype=np.uint16)[rng.integers(0, 8, size=(h, w))],
            "row": int(rng.integers(0, w)), "col": int(rng.integers(0, h))}
