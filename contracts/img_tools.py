# Contracts for pandora/img_tools.py (properties C16, C14, C02).

@spec
def clip_lo(first, margin) -> "int":
    return max(first - margin, 0)


@contract("pandora.img_tools.get_window", props=["C16"])
def _(roi, width, height):
    # roi = {"col": {"first", "last"}, "row": {"first", "last"}, "margins": [left, up, right, down]}
    types(roi={"col": {"first": "int", "last": "int"}, "row": {"first": "int", "last": "int"},
               "margins": ["int", "int", "int", "int"]}, width="int", height="int")
    requires("image", width >= 1, height >= 1)
    requires("roi", roi["col"]["first"] <= roi["col"]["last"], roi["row"]["first"] <= roi["row"]["last"],
             roi["margins"][0] >= 0, roi["margins"][1] >= 0, roi["margins"][2] >= 0, roi["margins"][3] >= 0)
    # property C16: reading with a ROI = rows/columns [first - margin, last + margin] clipped to the image;
    # a ROI entirely outside the image is refused
    raises_iff(ValueError, roi["col"]["first"] - roi["margins"][0] >= width or roi["col"]["last"] + roi["margins"][2] < 0
               or roi["row"]["first"] - roi["margins"][1] >= height or roi["row"]["last"] + roi["margins"][3] < 0)
    ensures("col_off", result[1] == max(roi["col"]["first"] - roi["margins"][0], 0))
    ensures("row_off", result[2] == max(roi["row"]["first"] - roi["margins"][1], 0))
    ensures("col_end", result[1] + result[3] == min(roi["col"]["last"] + roi["margins"][2] + 1, width))
    ensures("row_end", result[2] + result[4] == min(roi["row"]["last"] + roi["margins"][3] + 1, height))
    ensures("non_empty", result[3] >= 1 and result[4] >= 1)
