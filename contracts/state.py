# C18: "no result depends on leftovers of the previous run, or on which other pipelines and step classes were checked or run before
# on other machine objects in the same process".  State that outlives a call lives in objects (the machine: reset by run_prepare /
# run_exit, C01) or in module- / class-level variables.  Repository-wide finite data obligation: NO function body of the package
# writes a module-level or class-level variable, except the plug-in registration decorators (executed at import time, once per class)
# and the idempotent completion of the input schema by constants in check_input_section.

ALLOWED_STATE_WRITES = [
    # (file, function): why it is harmless
    ("pandora/check_configuration.py", "check_input_section"),   # schema['left'/'right'].update(<module-level constant>): idempotent
]


@scan("pandora", props=["C18"])
def _():
    ensures("no_global_statement", [w for w in writes if w["kind"] == "global"] == [])
    ensures("no_mutable_default_argument", [w for w in writes if w["kind"] == "mutable-default"] == [])
    ensures("class_and_module_state_written_only_at_registration",
            all(w["function"] in ("register_subclass", "decorator") or (w["file"], w["function"]) in [tuple(a) for a in ALLOWED_STATE_WRITES]
                for w in writes if w["kind"] in ("store", "inplace-call")))
    ensures("registration_writes_only_the_registry",
            all(w["text"].startswith("cls.") and "_avail[" in w["text"] for w in writes
                if w["function"] in ("register_subclass", "decorator")))
