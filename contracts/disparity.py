# Contracts for pandora/disparity/disparity.py (property C03).  Oracle: property statement.

@contract("pandora.disparity.disparity.WinnerTakesAll.argmin_split", props=["C03", "C13"])
def _(cost_volume):
    types(cost_volume={"vars": {"cost_volume": "f32[:,:,:]"}, "coords": {"disp": "f64[:]"}},
          result="f32[:,:]")
    requires("shapes", cost_volume.coords["disp"].data.shape[0] == cost_volume["cost_volume"].data.shape[2],
             cost_volume["cost_volume"].data.shape[2] >= 1)
    # to_disp replaces NaN costs by +inf before calling (all-NaN pixels are dealt with afterwards)
    requires("no_nan", all(not isnan(cost_volume["cost_volume"].data[y, x, k])
                           for y in range(cost_volume["cost_volume"].data.shape[0])
                           for x in range(cost_volume["cost_volume"].data.shape[1])
                           for k in range(cost_volume["cost_volume"].data.shape[2])))
    assigns()
    raises_never()
    ensures("shape", result.shape[0] == cost_volume["cost_volume"].data.shape[0]
            and result.shape[1] == cost_volume["cost_volume"].data.shape[1])
    # every pixel, whatever the image size relative to the 100-pixel blocks: the disparity of the FIRST minimum
    ensures("winner", all(eq(result[y, x], cost_volume.coords["disp"].data[np.argmin(cost_volume["cost_volume"].data[y, x, :])])
                          for y in range(cost_volume["cost_volume"].data.shape[0])
                          for x in range(cost_volume["cost_volume"].data.shape[1])))
    invariant(1, y_begin == (100 * col if 100 * col < ncol else ncol),
              all(eq(disp[y, x], cost_volume.coords["disp"].data[np.argmin(cost_volume["cost_volume"].data[y, x, :])])
                  for y in range(y_begin) for x in range(nrow)))
    invariant(2, x_begin == (100 * row if 100 * row < nrow else nrow),
              all(eq(disp[y, x], cost_volume.coords["disp"].data[np.argmin(cost_volume["cost_volume"].data[y, x, :])])
                  for y in range(y_begin) for x in range(nrow)),
              all(eq(disp[y, x], cost_volume.coords["disp"].data[np.argmin(cost_volume["cost_volume"].data[y, x, :])])
                  for y in range(y_begin, y_begin + cv_y.shape[0]) for x in range(x_begin)))


@contract("pandora.disparity.disparity.WinnerTakesAll.argmax_split", props=["C03", "C13"])
def _(cost_volume):
    types(cost_volume={"vars": {"cost_volume": "f32[:,:,:]"}, "coords": {"disp": "f64[:]"}},
          result="f32[:,:]")
    requires("shapes", cost_volume.coords["disp"].data.shape[0] == cost_volume["cost_volume"].data.shape[2],
             cost_volume["cost_volume"].data.shape[2] >= 1)
    # to_disp replaces NaN costs by -inf before calling (all-NaN pixels are dealt with afterwards)
    requires("no_nan", all(not isnan(cost_volume["cost_volume"].data[y, x, k])
                           for y in range(cost_volume["cost_volume"].data.shape[0])
                           for x in range(cost_volume["cost_volume"].data.shape[1])
                           for k in range(cost_volume["cost_volume"].data.shape[2])))
    assigns()
    raises_never()
    ensures("shape", result.shape[0] == cost_volume["cost_volume"].data.shape[0]
            and result.shape[1] == cost_volume["cost_volume"].data.shape[1])
    # every pixel, whatever the image size relative to the 100-pixel blocks: the disparity of the FIRST maximum
    ensures("winner", all(eq(result[y, x], cost_volume.coords["disp"].data[np.argmax(cost_volume["cost_volume"].data[y, x, :])])
                          for y in range(cost_volume["cost_volume"].data.shape[0])
                          for x in range(cost_volume["cost_volume"].data.shape[1])))
    invariant(1, col_begin == (100 * col if 100 * col < ncol else ncol),
              all(eq(disp[y, x], cost_volume.coords["disp"].data[np.argmax(cost_volume["cost_volume"].data[y, x, :])])
                  for y in range(col_begin) for x in range(nrow)))
    invariant(2, row_begin == (100 * row if 100 * row < nrow else nrow),
              all(eq(disp[y, x], cost_volume.coords["disp"].data[np.argmax(cost_volume["cost_volume"].data[y, x, :])])
                  for y in range(col_begin) for x in range(nrow)),
              all(eq(disp[y, x], cost_volume.coords["disp"].data[np.argmax(cost_volume["cost_volume"].data[y, x, :])])
                  for y in range(col_begin, col_begin + cv_y.shape[0]) for x in range(row_begin)))


@sampler("pandora.disparity.disparity.WinnerTakesAll.argmin_split")
def _(rng):
    import xarray as xr
    shapes = [(1, 1), (2, 3), (3, 101), (101, 2), (100, 100), (99, 201), (5, 7)]
    h, w = shapes[rng.integers(0, len(shapes))]
    nd = int([1, 2, 5, 9, 257, 300][rng.integers(0, 6)]) if h * w < 400 else int([1, 2, 5][rng.integers(0, 3)])
    cv = rng.integers(0, 4, size=(h, w, nd)).astype(np.float32)
    cv[rng.random((h, w, nd)) < 0.1] = np.inf
    if nd > 100:  # make high sample indices win
        cv[..., : nd - 3] += 5
    d0 = int(rng.integers(-4, 3))
    ds = xr.Dataset({"cost_volume": (["row", "col", "disp"], cv)},
                    coords={"row": np.arange(h), "col": np.arange(w), "disp": np.arange(d0, d0 + nd).astype(np.float64)})
    return {"cost_volume": ds}


@sampler("pandora.disparity.disparity.WinnerTakesAll.argmax_split")
def _(rng):
    import xarray as xr
    shapes = [(1, 1), (2, 3), (3, 101), (101, 2), (100, 100), (99, 201), (5, 7)]
    h, w = shapes[rng.integers(0, len(shapes))]
    nd = int([1, 2, 5, 9, 257, 300][rng.integers(0, 6)]) if h * w < 400 else int([1, 2, 5][rng.integers(0, 3)])
    cv = rng.integers(0, 4, size=(h, w, nd)).astype(np.float32)
    cv[rng.random((h, w, nd)) < 0.1] = -np.inf
    if nd > 100:
        cv[..., nd - 3:] += 5
    d0 = int(rng.integers(-4, 3))
    ds = xr.Dataset({"cost_volume": (["row", "col", "disp"], cv)},
                    coords={"row": np.arange(h), "col": np.arange(w), "disp": np.arange(d0, d0 + nd).astype(np.float64)})
    return {"cost_volume": ds}


@spec
def first_min(cost, y, x, r) -> "bool":
    # r is the FIRST index whose cost is the minimum of the pixel's computable (non-NaN) costs
    return (not isnan(cost[y, x, r])
            and all(isnan(cost[y, x, k]) or cost[y, x, r] <= cost[y, x, k] for k in range(cost.shape[2]))
            and all(isnan(cost[y, x, k]) or cost[y, x, k] > cost[y, x, r] for k in range(r)))


@spec
def first_max(cost, y, x, r) -> "bool":
    return (not isnan(cost[y, x, r])
            and all(isnan(cost[y, x, k]) or cost[y, x, r] >= cost[y, x, k] for k in range(cost.shape[2]))
            and all(isnan(cost[y, x, k]) or cost[y, x, k] < cost[y, x, r] for k in range(r)))


@contract("pandora.disparity.disparity.WinnerTakesAll.to_disp", props=["C03", "C09"])
def _(self, cv, img_left, img_right):
    types(self={"@attrs": {"_invalid_disparity": "float"}},
          cv={"vars": {"cost_volume": "f32[:,:,:]", "validity_mask": "u16[:,:]", "confidence_measure": "f32[:,:,:]"},
              "coords": {"disp": "f64[:]", "row": "i64[:]", "col": "i64[:]"},
              "attrs": {"type_measure": "str", "offset_row_col": "int"}},
          img_left="opaque", img_right="opaque")
    requires("shapes", cv.coords["disp"].data.shape[0] == cv["cost_volume"].data.shape[2], cv["cost_volume"].data.shape[2] >= 1,
             cv["validity_mask"].data.shape[0] == cv["cost_volume"].data.shape[0],
             cv["validity_mask"].data.shape[1] == cv["cost_volume"].data.shape[1])
    requires("finite_or_nan", all(not isinf(cv["cost_volume"].data[y, x, k]) for y in range(cv["cost_volume"].data.shape[0])
                                  for x in range(cv["cost_volume"].data.shape[1]) for k in range(cv["cost_volume"].data.shape[2])))
    requires("measure", cv.attrs["type_measure"] == "min" or cv.attrs["type_measure"] == "max")
    # the first and last samples bound the disparity axis (grid_estimation builds it increasing, with np.arange)
    requires("axis_bounds", all(cv.coords["disp"].data[0] <= cv.coords["disp"].data[k]
                                and cv.coords["disp"].data[k] <= cv.coords["disp"].data[cv.coords["disp"].data.shape[0] - 1]
                                for k in range(cv.coords["disp"].data.shape[0])))
    assigns(cv)
    raises_never()
    option(budget=4)   # the 'winner' clause depends on the solver's random seed (2-8 s for the lucky ones): long seed sweeps keep the verdict stable under load
    # C03: a pixel with no computable cost receives exactly invalid_disparity
    ensures("invalid_when_no_cost", all(
        eq(result["disparity_map"].data[y, x], self._invalid_disparity)
        for y in range(cv["cost_volume"].data.shape[0]) for x in range(cv["cost_volume"].data.shape[1])
        if all(isnan(cv["cost_volume"].data[y, x, k]) for k in range(cv["cost_volume"].data.shape[2]))))
    # C03: every other pixel receives the sampled disparity at the FIRST minimum (maximum for similarity measures) of its costs, a
    # non-computable (NaN) cost being read as +inf (-inf): np.argmin / np.argmax of the pixel's line of the ghost volume below --
    # by np.argmin's contract the first index whose cost is <= every other and < every earlier one; as the pixel has a computable
    # (finite) cost that index is a computable cost too
    ensures("winner", all(
        eq(result["disparity_map"].data[y, x],
           cv.coords["disp"].data[
               (np.argmax(array_of(lambda yy, xx, kk: (-np.inf if isnan(cv["cost_volume"].data[yy, xx, kk]) else cv["cost_volume"].data[yy, xx, kk]),
                                   cv["cost_volume"].data.shape[0], cv["cost_volume"].data.shape[1], cv["cost_volume"].data.shape[2])[y, x, :])
                if cv.attrs["type_measure"] == "max" else
                np.argmin(array_of(lambda yy, xx, kk: (np.inf if isnan(cv["cost_volume"].data[yy, xx, kk]) else cv["cost_volume"].data[yy, xx, kk]),
                                   cv["cost_volume"].data.shape[0], cv["cost_volume"].data.shape[1], cv["cost_volume"].data.shape[2])[y, x, :]))])
        for y in range(cv["cost_volume"].data.shape[0]) for x in range(cv["cost_volume"].data.shape[1])
        if not all(isnan(cv["cost_volume"].data[y, x, k]) for k in range(cv["cost_volume"].data.shape[2]))))
    # C09: right after the disparity step a pixel with a computable cost lies inside the sampled interval
    ensures("within_interval", all(
        cv.coords["disp"].data[0] <= result["disparity_map"].data[y, x]
        and result["disparity_map"].data[y, x] <= cv.coords["disp"].data[cv.coords["disp"].data.shape[0] - 1]
        for y in range(cv["cost_volume"].data.shape[0]) for x in range(cv["cost_volume"].data.shape[1])
        if not all(isnan(cv["cost_volume"].data[y, x, k]) for k in range(cv["cost_volume"].data.shape[2]))))
    # the step leaves the cost volume values unchanged (NaN substituted then restored)
    ensures("cost_volume_unchanged", all(eq(cv["cost_volume"].data[y, x, k], old(cv["cost_volume"].data)[y, x, k])
                                         for y in range(cv["cost_volume"].data.shape[0]) for x in range(cv["cost_volume"].data.shape[1])
                                         for k in range(cv["cost_volume"].data.shape[2])))
    # validity flags and confidence bands are carried over unaltered
    ensures("validity_mask_carried", all(result["validity_mask"].data[y, x] == old(cv["validity_mask"].data)[y, x]
                                         for y in range(cv["cost_volume"].data.shape[0]) for x in range(cv["cost_volume"].data.shape[1])))
    ensures("confidence_carried", all(eq(result["confidence_measure"].data[y, x, b], old(cv["confidence_measure"].data)[y, x, b])
                                      for y in range(cv["confidence_measure"].data.shape[0])
                                      for x in range(cv["confidence_measure"].data.shape[1])
                                      for b in range(cv["confidence_measure"].data.shape[2])))
    ensures("interval", eq(result["disparity_interval"].data[0], cv.coords["disp"].data[0])
            and eq(result["disparity_interval"].data[1], cv.coords["disp"].data[cv.coords["disp"].data.shape[0] - 1]))


@sampler("pandora.disparity.disparity.WinnerTakesAll.to_disp")
def _(rng):
    import xarray as xr
    from pandora.disparity.disparity import WinnerTakesAll
    shapes = [(1, 1), (2, 3), (3, 101), (5, 7), (4, 4)]
    h, w = shapes[rng.integers(0, len(shapes))]
    nd = int([1, 2, 5, 9][rng.integers(0, 4)])
    cost = rng.integers(0, 4, size=(h, w, nd)).astype(np.float32)
    cost[rng.random((h, w, nd)) < 0.3] = np.nan
    cost[rng.random((h, w)) < 0.2] = np.nan
    d0 = int(rng.integers(-4, 3))
    measure = ["min", "max"][rng.integers(0, 2)]
    ds = xr.Dataset({"cost_volume": (["row", "col", "disp"], cost),
                     "validity_mask": (["row", "col"], rng.integers(0, 2048, size=(h, w)).astype(np.uint16)),
                     "confidence_measure": (["row", "col", "indicator"], rng.random((h, w, 2)).astype(np.float32))},
                    coords={"row": np.arange(h), "col": np.arange(w), "disp": np.arange(d0, d0 + nd).astype(np.float64),
                            "indicator": ["a", "b"]},
                    attrs={"type_measure": measure, "offset_row_col": int(rng.integers(0, 3)), "window_size": 3, "subpixel": 1,
                           "band_correl": None, "cmax": 10, "crs": None, "transform": None})
    inv = [np.nan, -9999.0, 0.0][rng.integers(0, 3)]
    me = WinnerTakesAll.__new__(WinnerTakesAll)
    me._invalid_disparity = inv
    return {"self": me, "cv": ds, "img_left": None, "img_right": None}
