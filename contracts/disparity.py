# Contracts for pandora/disparity/disparity.py (property C03).  Oracle: property statement.

@contract("pandora.disparity.disparity.WinnerTakesAll.argmin_split", props=["C03"])
def _(cost_volume):
    types(cost_volume={"vars": {"cost_volume": "f32[:,:,:]"}, "coords": {"disp": "f64[:]"}},
          result="f32[:,:]")
    requires("shapes", cost_volume.coords["disp"].data.shape[0] == cost_volume["cost_volume"].data.shape[2],
             cost_volume["cost_volume"].data.shape[2] >= 1)
    # to_disp replaces NaN costs by +inf before calling (all-NaN pixels are dealt with afterwards)
    requires("no_nan", all(not isnan(cost_volume["cost_volume"].data[y, x, k])
                           for y in range(cost_volume["cost_volume"].data.shape[0])
                           for x in range(cost_volume["cost_volume"].data.shape[1])
                           for k in range(cost_volume["cost_volume"].data.shape[2])))
    assigns()
    raises_never()
    ensures("shape", result.shape[0] == cost_volume["cost_volume"].data.shape[0]
            and result.shape[1] == cost_volume["cost_volume"].data.shape[1])
    # every pixel, whatever the image size relative to the 100-pixel blocks: the disparity of the FIRST minimum
    ensures("winner", all(eq(result[y, x], cost_volume.coords["disp"].data[np.argmin(cost_volume["cost_volume"].data[y, x, :])])
                          for y in range(cost_volume["cost_volume"].data.shape[0])
                          for x in range(cost_volume["cost_volume"].data.shape[1])))
    invariant(1, y_begin == (100 * col if 100 * col < ncol else ncol),
              all(eq(disp[y, x], cost_volume.coords["disp"].data[np.argmin(cost_volume["cost_volume"].data[y, x, :])])
                  for y in range(y_begin) for x in range(nrow)))
    invariant(2, x_begin == (100 * row if 100 * row < nrow else nrow),
              all(eq(disp[y, x], cost_volume.coords["disp"].data[np.argmin(cost_volume["cost_volume"].data[y, x, :])])
                  for y in range(y_begin) for x in range(nrow)),
              all(eq(disp[y, x], cost_volume.coords["disp"].data[np.argmin(cost_volume["cost_volume"].data[y, x, :])])
                  for y in range(y_begin, y_begin + cv_y.shape[0]) for x in range(x_begin)))


@contract("pandora.disparity.disparity.WinnerTakesAll.argmax_split", props=["C03"])
def _(cost_volume):
    types(cost_volume={"vars": {"cost_volume": "f32[:,:,:]"}, "coords": {"disp": "f64[:]"}},
          result="f32[:,:]")
    requires("shapes", cost_volume.coords["disp"].data.shape[0] == cost_volume["cost_volume"].data.shape[2],
             cost_volume["cost_volume"].data.shape[2] >= 1)
    # to_disp replaces NaN costs by -inf before calling (all-NaN pixels are dealt with afterwards)
    requires("no_nan", all(not isnan(cost_volume["cost_volume"].data[y, x, k])
                           for y in range(cost_volume["cost_volume"].data.shape[0])
                           for x in range(cost_volume["cost_volume"].data.shape[1])
                           for k in range(cost_volume["cost_volume"].data.shape[2])))
    assigns()
    raises_never()
    ensures("shape", result.shape[0] == cost_volume["cost_volume"].data.shape[0]
            and result.shape[1] == cost_volume["cost_volume"].data.shape[1])
    # every pixel, whatever the image size relative to the 100-pixel blocks: the disparity of the FIRST maximum
    ensures("winner", all(eq(result[y, x], cost_volume.coords["disp"].data[np.argmax(cost_volume["cost_volume"].data[y, x, :])])
                          for y in range(cost_volume["cost_volume"].data.shape[0])
                          for x in range(cost_volume["cost_volume"].data.shape[1])))
    invariant(1, col_begin == (100 * col if 100 * col < ncol else ncol),
              all(eq(disp[y, x], cost_volume.coords["disp"].data[np.argmax(cost_volume["cost_volume"].data[y, x, :])])
                  for y in range(col_begin) for x in range(nrow)))
    invariant(2, row_begin == (100 * row if 100 * row < nrow else nrow),
              all(eq(disp[y, x], cost_volume.coords["disp"].data[np.argmax(cost_volume["cost_volume"].data[y, x, :])])
                  for y in range(col_begin) for x in range(nrow)),
              all(eq(disp[y, x], cost_volume.coords["disp"].data[np.argmax(cost_volume["cost_volume"].data[y, x, :])])
                  for y in range(col_begin, col_begin + cv_y.shape[0]) for x in range(row_begin)))


@sampler("pandora.disparity.disparity.WinnerTakesAll.argmin_split")
def _(rng):
    import xarray as xr
    shapes = [(1, 1), (2, 3), (3, 101), (101, 2), (100, 100), (99, 201), (5, 7)]
    h, w = shapes[rng.integers(0, len(shapes))]
    nd = int([1, 2, 5, 9, 257, 300][rng.integers(0, 6)]) if h * w < 400 else int([1, 2, 5][rng.integers(0, 3)])
    cv = rng.integers(0, 4, size=(h, w, nd)).astype(np.float32)
    cv[rng.random((h, w, nd)) < 0.1] = np.inf
    if nd > 100:  # make high sample indices win
        cv[..., : nd - 3] += 5
    d0 = int(rng.integers(-4, 3))
    ds = xr.Dataset({"cost_volume": (["row", "col", "disp"], cv)},
                    coords={"row": np.arange(h), "col": np.arange(w), "disp": np.arange(d0, d0 + nd).astype(np.float64)})
    return {"cost_volume": ds}


@sampler("pandora.disparity.disparity.WinnerTakesAll.argmax_split")
def _(rng):
    import xarray as xr
    shapes = [(1, 1), (2, 3), (3, 101), (101, 2), (100, 100), (99, 201), (5, 7)]
    h, w = shapes[rng.integers(0, len(shapes))]
    nd = int([1, 2, 5, 9, 257, 300][rng.integers(0, 6)]) if h * w < 400 else int([1, 2, 5][rng.integers(0, 3)])
    cv = rng.integers(0, 4, size=(h, w, nd)).astype(np.float32)
    cv[rng.random((h, w, nd)) < 0.1] = -np.inf
    if nd > 100:
        cv[..., nd - 3:] += 5
    d0 = int(rng.integers(-4, 3))
    ds = xr.Dataset({"cost_volume": (["row", "col", "disp"], cv)},
                    coords={"row": np.arange(h), "col": np.arange(w), "disp": np.arange(d0, d0 + nd).astype(np.float64)})
    return {"cost_volume": ds}
