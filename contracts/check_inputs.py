# Contracts for the input checks of pandora/check_configuration.py (property C17: "malformed inputs are refused up front,
# well-formed ones never").  Raster files are opaque: rasterio_open(path) is an assumed pure reader whose count / width / height
# and bands are functions of the path; the obligations say WHICH comparisons of those decide refusal.

@contract("pandora.check_configuration.check_disparities_from_input", props=["C17"])
def _(disparity, img_left):
    types(disparity="opaque", img_left="str")
    type_cases(disparity=[None, "str", "i64[1]", "i64[2]", "i64[3]"])
    option(no_fuzz=True)
    # a [min, max] list: exactly two values, min <= max.  A grid file: 2 bands, of the image size, min band <= max band everywhere.
    raises_iff(ValueError,
               (isinstance(disparity, list) and (len(disparity) != 2 or disparity[1] < disparity[0]))
               or (isinstance(disparity, str) and rasterio_open(disparity).count == 2
                   and rasterio_open(disparity).width == rasterio_open(img_left).width
                   and rasterio_open(disparity).height == rasterio_open(img_left).height
                   and any(rasterio_open(disparity).read(1)[y, x] > rasterio_open(disparity).read(2)[y, x]
                           for y in range(rasterio_open(disparity).read(1).shape[0])
                           for x in range(rasterio_open(disparity).read(1).shape[1]))))
    raises_iff(AttributeError,
               isinstance(disparity, str) and (rasterio_open(disparity).count != 2
                                               or rasterio_open(disparity).width != rasterio_open(img_left).width
                                               or rasterio_open(disparity).height != rasterio_open(img_left).height))


@contract("pandora.check_configuration.check_image_dimension", props=["C17"])
def _(img1, img2):
    types(img1={"@attrs": {"width": "int", "height": "int"}}, img2={"@attrs": {"width": "int", "height": "int"}})
    option(no_fuzz=True)
    raises_iff(AttributeError, img1.width != img2.width or img1.height != img2.height)


@spec
def dataset_refused(dataset) -> "bool":
    # the statement of C17 for ONE dataset: refused iff it has no image, or band names that are not strings, or an image that is
    # entirely NaN, or a variable off the image's row/column grid, or a mandatory attribute missing, or a disparity variable
    # without min and max bands or with min > max somewhere
    return (
        "im" not in dataset
        or ("disparity" in dataset
            and ("band_disp" not in dataset.coords
                 or not any(dataset.coords["band_disp"].data[i] == "min" for i in range(dataset.coords["band_disp"].data.shape[0]))
                 or not any(dataset.coords["band_disp"].data[i] == "max" for i in range(dataset.coords["band_disp"].data.shape[0]))
                 or any(dataset.coords["band_disp"].data[i] == "min" and dataset.coords["band_disp"].data[j] == "max"
                        and dataset["disparity"].data[i, y, x] > dataset["disparity"].data[j, y, x]
                        for i in range(dataset["disparity"].data.shape[0]) for j in range(dataset["disparity"].data.shape[0])
                        for y in range(dataset["disparity"].data.shape[1]) for x in range(dataset["disparity"].data.shape[2]))))
        or ("band_im" in dataset.coords and dataset.coords["band_im"].data.shape[0] > 0
            and not isinstance(dataset.coords["band_im"].data[0], str))
        or (all(isnan(dataset["im"].data[y, x]) for y in range(dataset["im"].data.shape[0]) for x in range(dataset["im"].data.shape[1]))
            if "im" in dataset and dataset["im"].data.ndim == 2 else
            all(isnan(dataset["im"].data[b, y, x]) for b in range(dataset["im"].data.shape[0])
                for y in range(dataset["im"].data.shape[1]) for x in range(dataset["im"].data.shape[2]))
            if "im" in dataset else False)
        or any(dataset[v].data.shape[-2:] != dataset["im"].data.shape[-2:] for v in dataset.data_vars if v != "im")
        or any(a not in dataset.attrs for a in ["no_data_img", "valid_pixels", "no_data_mask", "crs", "transform"]))


# check_dataset, once per STRUCTURE of the dataset (which variables / coordinates / attributes it has), for every size and content.
# "accepted iff it has an image that is not entirely NaN, string band names, every other variable on the image's row/column grid,
# the five mandatory attributes, and -- when it has a disparity variable -- min and max bands with min <= max everywhere".
@contract("pandora.check_configuration.check_dataset", props=["C17"])
def _(dataset):
    types(dataset="opaque")
    type_cases(dataset=[
        # T0: image only
        {"vars": {"im": "f32[:,:]"}, "coords": {"row": "i64[:]", "col": "i64[:]"}, "dims": {"im": ["row", "col"]},
         "attrs": {"no_data_img": "int", "valid_pixels": "int", "no_data_mask": "int", "crs": "opaque", "transform": "opaque"}},
        # T1: image + mask
        {"vars": {"im": "f32[:,:]", "msk": "i16[:,:]"}, "coords": {"row": "i64[:]", "col": "i64[:]"},
         "dims": {"im": ["row", "col"], "msk": ["row", "col"]},
         "attrs": {"no_data_img": "int", "valid_pixels": "int", "no_data_mask": "int", "crs": "opaque", "transform": "opaque"}},
        # T2: multiband image with string band names + mask + classification (3-D) + segmentation
        {"vars": {"im": "f32[:,:,:]", "msk": "i16[:,:]", "classif": "i16[:,:,:]", "segm": "i16[:,:]"},
         "coords": {"band_im": "str[:]", "row": "i64[:]", "col": "i64[:]"},
         "dims": {"im": ["band_im", "row", "col"], "msk": ["row", "col"], "classif": ["band_classif", "row", "col"], "segm": ["row", "col"]},
         "attrs": {"no_data_img": "int", "valid_pixels": "int", "no_data_mask": "int", "crs": "opaque", "transform": "opaque"}},
        # T3: multiband image whose band names are numbers
        {"vars": {"im": "f32[:,:,:]"}, "coords": {"band_im": "i64[:]", "row": "i64[:]", "col": "i64[:]"},
         "dims": {"im": ["band_im", "row", "col"]},
         "attrs": {"no_data_img": "int", "valid_pixels": "int", "no_data_mask": "int", "crs": "opaque", "transform": "opaque"}},
        # T4: no image
        {"vars": {"msk": "i16[:,:]"}, "coords": {"row": "i64[:]", "col": "i64[:]"}, "dims": {"msk": ["row", "col"]},
         "attrs": {"no_data_img": "int", "valid_pixels": "int", "no_data_mask": "int", "crs": "opaque", "transform": "opaque"}},
        # (index 5) image + disparity grids (band_disp, row, col) with string band labels
        {"vars": {"im": "f32[:,:]", "disparity": "f32[:,:,:]"}, "coords": {"band_disp": "str[:]", "row": "i64[:]", "col": "i64[:]"},
         "dims": {"im": ["row", "col"], "disparity": ["band_disp", "row", "col"]},
         "attrs": {"no_data_img": "int", "valid_pixels": "int", "no_data_mask": "int", "crs": "opaque", "transform": "opaque"}},
        # (index 6) a disparity variable without a band_disp coordinate
        {"vars": {"im": "f32[:,:]", "disparity": "f32[:,:,:]"}, "coords": {"row": "i64[:]", "col": "i64[:]"},
         "dims": {"im": ["row", "col"], "disparity": ["band_disp", "row", "col"]},
         "attrs": {"no_data_img": "int", "valid_pixels": "int", "no_data_mask": "int", "crs": "opaque", "transform": "opaque"}},
        # (index 7) a mandatory attribute missing
        {"vars": {"im": "f32[:,:]"}, "coords": {"row": "i64[:]", "col": "i64[:]"}, "dims": {"im": ["row", "col"]},
         "attrs": {"no_data_img": "int", "valid_pixels": "int", "no_data_mask": "int", "transform": "opaque"}}])
    option(no_fuzz=True, always_refused=["dataset=T6", "dataset=T7"])
    # the disparity variable has one plane per label (xarray's invariant), and a label names one plane
    requires("disparity_planes", (dataset["disparity"].data.shape[0] == dataset.coords["band_disp"].data.shape[0]
                                  and all(dataset.coords["band_disp"].data[i] != dataset.coords["band_disp"].data[j]
                                          for i in range(dataset.coords["band_disp"].data.shape[0]) for j in range(i)))
             if "disparity" in dataset and "band_disp" in dataset.coords else True)
    raises_iff(Exception, dataset_refused(dataset))


# the pair: both datasets accepted, a disparity variable on the left, images of the same size
@contract("pandora.check_configuration.check_datasets", props=["C17"])
def _(left, right):
    types(left="opaque", right="opaque")
    type_cases(left=[
        {"vars": {"im": "f32[:,:]", "disparity": "f32[:,:,:]"}, "coords": {"band_disp": "str[:]", "row": "i64[:]", "col": "i64[:]"},
         "dims": {"im": ["row", "col"], "disparity": ["band_disp", "row", "col"]},
         "attrs": {"no_data_img": "int", "valid_pixels": "int", "no_data_mask": "int", "crs": "opaque", "transform": "opaque"}},
        {"vars": {"im": "f32[:,:]", "msk": "i16[:,:]"}, "coords": {"row": "i64[:]", "col": "i64[:]"},
         "dims": {"im": ["row", "col"], "msk": ["row", "col"]},
         "attrs": {"no_data_img": "int", "valid_pixels": "int", "no_data_mask": "int", "crs": "opaque", "transform": "opaque"}},
        {"vars": {"im": "f32[:,:,:]", "disparity": "f32[:,:,:]"},
         "coords": {"band_im": "str[:]", "band_disp": "str[:]", "row": "i64[:]", "col": "i64[:]"},
         "dims": {"im": ["band_im", "row", "col"], "disparity": ["band_disp", "row", "col"]},
         "attrs": {"no_data_img": "int", "valid_pixels": "int", "no_data_mask": "int", "crs": "opaque", "transform": "opaque"}}],
        right=[
        {"vars": {"im": "f32[:,:]"}, "coords": {"row": "i64[:]", "col": "i64[:]"}, "dims": {"im": ["row", "col"]},
         "attrs": {"no_data_img": "int", "valid_pixels": "int", "no_data_mask": "int", "crs": "opaque", "transform": "opaque"}},
        {"vars": {"im": "f32[:,:,:]", "msk": "i16[:,:]"}, "coords": {"band_im": "str[:]", "row": "i64[:]", "col": "i64[:]"},
         "dims": {"im": ["band_im", "row", "col"], "msk": ["row", "col"]},
         "attrs": {"no_data_img": "int", "valid_pixels": "int", "no_data_mask": "int", "crs": "opaque", "transform": "opaque"}},
        {"vars": {"im": "f32[:,:]"}, "coords": {"row": "i64[:]", "col": "i64[:]"}, "dims": {"im": ["row", "col"]},
         "attrs": {"no_data_img": "int", "valid_pixels": "int", "no_data_mask": "int", "transform": "opaque"}},
        {"vars": {"im": "f32[:,:]", "disparity": "f32[:,:,:]"}, "coords": {"band_disp": "str[:]", "row": "i64[:]", "col": "i64[:]"},
         "dims": {"im": ["row", "col"], "disparity": ["band_disp", "row", "col"]},
         "attrs": {"no_data_img": "int", "valid_pixels": "int", "no_data_mask": "int", "crs": "opaque", "transform": "opaque"}}])
    option(no_fuzz=True, always_refused=["left=T1", "right=T2"])
    requires("disparity_planes_right", (right["disparity"].data.shape[0] == right.coords["band_disp"].data.shape[0]
                                        and all(right.coords["band_disp"].data[i] != right.coords["band_disp"].data[j]
                                                for i in range(right.coords["band_disp"].data.shape[0]) for j in range(i)))
             if "disparity" in right else True)
    requires("disparity_planes", (left["disparity"].data.shape[0] == left.coords["band_disp"].data.shape[0]
                                  and all(left.coords["band_disp"].data[i] != left.coords["band_disp"].data[j]
                                          for i in range(left.coords["band_disp"].data.shape[0]) for j in range(i)))
             if "disparity" in left else True)
    raises_iff(Exception, dataset_refused(left) or dataset_refused(right) or "disparity" not in left
               or left["im"].data.shape[-2:] != right["im"].data.shape[-2:])


# the files of the input section: both images of the same size, and every optional raster that is given (not None) of ITS image's size
@contract("pandora.check_configuration.check_images", props=["C17"])
def _(user_cfg):
    types(user_cfg="opaque")
    type_cases(user_cfg=[
        {"left": {"img": "str"}, "right": {"img": "str"}},
        {"left": {"img": "str", "mask": "str"}, "right": {"img": "str", "mask": "none"}},
        {"left": {"img": "str", "mask": "none", "classif": "str"}, "right": {"img": "str", "mask": "str", "segm": "str"}},
        {"left": {"img": "str", "mask": "str", "classif": "str", "segm": "str"},
         "right": {"img": "str", "mask": "str", "classif": "str", "segm": "str"}},
        {"left": {"img": "str"}, "right": {"img": "str", "classif": "str"}}])
    option(no_fuzz=True)
    raises_iff(AttributeError,
               rasterio_open(user_cfg["left"]["img"]).width != rasterio_open(user_cfg["right"]["img"]).width
               or rasterio_open(user_cfg["left"]["img"]).height != rasterio_open(user_cfg["right"]["img"]).height
               or any(k in user_cfg[side] and user_cfg[side][k] is not None
                      and (rasterio_open(user_cfg[side][k]).width != rasterio_open(user_cfg[side]["img"]).width
                           or rasterio_open(user_cfg[side][k]).height != rasterio_open(user_cfg[side]["img"]).height)
                      for side in ["left", "right"] for k in ["mask", "classif", "segm"]))


# C15 "when the pipeline contains a multiscale step ...": where the number of scales comes from.  read_multiscale_params, per
# structure of the configuration: the parameters of the FIRST step whose name is multiscale or multiscale.<suffix>, else (1, 1).
@contract("pandora.check_configuration.read_multiscale_params", props=["C15"])
def _(cfg):
    types(cfg="opaque", result="tuple")
    type_cases(cfg=[
        {"pipeline": {"matching_cost": {"window_size": "int"}, "disparity": {"invalid_disparity": "int"}}},
        {"pipeline": {"matching_cost": {"window_size": "int"}, "disparity": {"invalid_disparity": "int"},
                      "multiscale": {"multiscale_method": "str", "num_scales": "int", "scale_factor": "int", "marge": "int"}}},
        {"pipeline": {"matching_cost": {"window_size": "int"}, "disparity": {"invalid_disparity": "int"},
                      "filter": {"filter_size": "int"},
                      "multiscale.coarse": {"multiscale_method": "str", "num_scales": "int", "scale_factor": "int", "marge": "int"}}},
        {"input": {"left": {"img": "str"}}}])
    option(no_fuzz=True)
    raises_never()
    ensures("no_multiscale_one_scale", (result[0] == 1 and result[1] == 1)
            if not any(k.split(".")[0] == "multiscale" for k in cfg.get("pipeline", {})) else True)
    ensures("plain_key", (result[0] == cfg["pipeline"]["multiscale"]["num_scales"]
                          and result[1] == cfg["pipeline"]["multiscale"]["scale_factor"])
            if "multiscale" in cfg.get("pipeline", {}) else True)
    ensures("suffixed_key", (result[0] == cfg["pipeline"]["multiscale.coarse"]["num_scales"]
                             and result[1] == cfg["pipeline"]["multiscale.coarse"]["scale_factor"])
            if "multiscale.coarse" in cfg.get("pipeline", {}) else True)
