# C05: "every omitted optional parameter appears with its documented default (window_size 5, subpix 1, cbca 30.0/5,
# invalid_disparity -9999, filter_size 3, sigma 2.0/6.0, eta 0.7/0.01, cross_checking_threshold 1.0, num_scales 2, scale_factor 2,
# marge 1 ...)".  Finite data obligations over the class bodies (re-read on every run): the class constant has the documented
# value AND check_conf stores exactly that constant under the key when the key is absent (top-level `if "k" not in cfg:
# cfg["k"] = self._K`, no other unconditional store of the key).

@tables("pandora.matching_cost.matching_cost.AbstractMatchingCost", props=["C05"])
def _():
    ensures("window_size", _WINDOW_SIZE == 5 and applies_default("check_conf", "window_size", "_WINDOW_SIZE"))
    ensures("subpix", _SUBPIX == 1 and applies_default("check_conf", "subpix", "_SUBPIX"))
    ensures("band", _BAND is None and applies_default("check_conf", "band", "_BAND"))
    ensures("step", _STEP_COL == 1 and applies_default("check_conf", "step", "_STEP_COL"))


@tables("pandora.aggregation.cbca.CrossBasedCostAggregation", props=["C05"])
def _():
    ensures("cbca_intensity", _CBCA_INTENSITY == 30.0 and isinstance(_CBCA_INTENSITY, float)
            and applies_default("check_conf", "cbca_intensity", "_CBCA_INTENSITY"))
    ensures("cbca_distance", _CBCA_DISTANCE == 5 and isinstance(_CBCA_DISTANCE, int)
            and applies_default("check_conf", "cbca_distance", "_CBCA_DISTANCE"))


@tables("pandora.disparity.disparity.WinnerTakesAll", props=["C05"])
def _():
    ensures("invalid_disparity", _INVALID_DISPARITY == -9999 and applies_default("check_conf", "invalid_disparity", "_INVALID_DISPARITY"))


@tables("pandora.filter.median.MedianFilter", props=["C05"])
def _():
    ensures("filter_size", _FILTER_SIZE == 3 and applies_default("check_conf", "filter_size", "_FILTER_SIZE"))


@tables("pandora.filter.median_for_intervals.MedianForIntervalsFilter", props=["C05"])
def _():
    ensures("filter_size", _FILTER_SIZE == 3 and applies_default("check_conf", "filter_size", "_FILTER_SIZE"))


@tables("pandora.filter.bilateral.BilateralFilter", props=["C05"])
def _():
    ensures("sigma_color", _SIGMA_COLOR == 2.0 and isinstance(_SIGMA_COLOR, float) and applies_default("check_conf", "sigma_color", "_SIGMA_COLOR"))
    ensures("sigma_space", _SIGMA_SPACE == 6.0 and isinstance(_SIGMA_SPACE, float) and applies_default("check_conf", "sigma_space", "_SIGMA_SPACE"))


@tables("pandora.cost_volume_confidence.ambiguity.Ambiguity", props=["C05"])
def _():
    ensures("eta_max", _ETA_MAX == 0.7 and applies_default("check_conf", "eta_max", "_ETA_MAX"))
    ensures("eta_step", _ETA_STEP == 0.01 and applies_default("check_conf", "eta_step", "_ETA_STEP"))


@tables("pandora.cost_volume_confidence.risk.Risk", props=["C05"])
def _():
    ensures("eta_max", _ETA_MAX == 0.7 and applies_default("check_conf", "eta_max", "_ETA_MAX"))
    ensures("eta_step", _ETA_STEP == 0.01 and applies_default("check_conf", "eta_step", "_ETA_STEP"))


@tables("pandora.validation.validation.CrossCheckingAccurate", props=["C05"])
def _():
    ensures("cross_checking_threshold", _THRESHOLD == 1.0
            and applies_default("check_conf", "cross_checking_threshold", "_THRESHOLD"))


@tables("pandora.multiscale.fixed_zoom_pyramid.FixedZoomPyramid", props=["C05"])
def _():
    ensures("num_scales", _PYRAMID_NUM_SCALES == 2 and applies_default("check_conf", "num_scales", "_PYRAMID_NUM_SCALES"))
    ensures("scale_factor", _PYRAMID_SCALE_FACTOR == 2 and applies_default("check_conf", "scale_factor", "_PYRAMID_SCALE_FACTOR"))
    ensures("marge", _PYRAMID_MARGE == 1 and applies_default("check_conf", "marge", "_PYRAMID_MARGE"))


# ---------------------------------------------------------------------------------------------------------------------
# C05, second sentence: "A parameter value outside its documented domain (even window or filter size, census window not 3/5,
# subpix not 1 or even, non-positive cbca/sigma/eta, scales < 2 ...) is rejected ..., and every value inside the domain is accepted."
# Each check_conf validates its parameters with a json_checker schema entry And(<type>, <lambda>).  Obligation per parameter, for
# EVERY value of the type (integers are mathematical, floats include NaN and the infinities): the predicate of the real schema
# entry (re-read from the class on every run, evaluated with Python semantics) holds exactly on the domain written here from the
# property statement.  json_checker itself is assumed (And(T, f) accepts x iff isinstance(x, T) and bool(f(x))); that check_conf
# applies the schema is exercised by the bounded stand-in.

@tables("pandora.matching_cost.matching_cost.AbstractMatchingCost", props=["C05"])
def _():
    domain("subpix", "int", lambda x: x == 1 or (x > 0 and x % 2 == 0))


@tables("pandora.matching_cost.sad_ssd.SadSsd", props=["C05"])
def _():
    domain("window_size", "int", lambda x: x > 0 and x % 2 == 1)


@tables("pandora.matching_cost.zncc.Zncc", props=["C05"])
def _():
    domain("window_size", "int", lambda x: x > 0 and x % 2 == 1)


@tables("pandora.matching_cost.census.Census", props=["C05"])
def _():
    domain("window_size", "int", lambda x: x == 3 or x == 5)


@tables("pandora.aggregation.cbca.CrossBasedCostAggregation", props=["C05"])
def _():
    domain("cbca_intensity", "float", lambda x: x > 0)
    domain("cbca_distance", "int", lambda x: x > 0)


@tables("pandora.filter.median.MedianFilter", props=["C05"])
def _():
    domain("filter_size", "int", lambda x: x >= 1 and x % 2 == 1)


@tables("pandora.filter.median_for_intervals.MedianForIntervalsFilter", props=["C05"])
def _():
    domain("filter_size", "int", lambda x: x >= 1 and x % 2 == 1)


@tables("pandora.filter.bilateral.BilateralFilter", props=["C05"])
def _():
    domain("sigma_color", "float", lambda x: x > 0)
    domain("sigma_space", "float", lambda x: x > 0)


@tables("pandora.cost_volume_confidence.ambiguity.Ambiguity", props=["C05"])
def _():
    domain("eta_max", "float", lambda x: 0 < x and x < 1)
    domain("eta_step", "float", lambda x: 0 < x and x < 1)


@tables("pandora.cost_volume_confidence.risk.Risk", props=["C05"])
def _():
    domain("eta_max", "float", lambda x: 0 < x and x < 1)
    domain("eta_step", "float", lambda x: 0 < x and x < 1)


@tables("pandora.multiscale.fixed_zoom_pyramid.FixedZoomPyramid", props=["C05"])
def _():
    domain("num_scales", "int", lambda x: x >= 2)
    domain("scale_factor", "int", lambda x: x >= 2)
    domain("marge", "int", lambda x: x >= 0)


# C05 "... band absent from the image ... is rejected ... and every value inside the domain is accepted": check_band_pipeline, for every
# list of band names of the image, once per FORM of the step's band parameter (none, one name, a dictionary of names, a list of names)
@contract("pandora.state_machine.PandoraMachine.check_band_pipeline", props=["C05"])
def _(band_list, step, band_used):
    types(band_list="str[:]", step="str", band_used="opaque")
    type_cases(band_used=[None, "str", {"R": "str", "G": "str", "B": "str"}, ["str", "str"]])
    option(no_fuzz=True)
    # no band given: the image must be monoband; a band (or each of several) given: it must be one of the image's band names.
    # (one name is compared as a whole -- the defect 1944eb0 repaired compared it character by character)
    raises_iff(AttributeError,
               (band_list.shape[0] != 1 if band_used is None else
                ((band_list.shape[0] != 1 if band_used == "" else not any(band_list[i] == band_used for i in range(band_list.shape[0])))
                 if isinstance(band_used, str) else
                 (any(not any(band_list[i] == band_used[k] for i in range(band_list.shape[0])) for k in ["R", "G", "B"])
                  if isinstance(band_used, dict) else
                  any(not any(band_list[i] == b for i in range(band_list.shape[0])) for b in band_used)))))
