# Contracts for the disparity filters (property C10).  Oracle: property statement.
# "leaves pixels closer to the image edge than the filter radius untouched.  Every other valid pixel becomes the median of the
#  valid disparities in its filter_size window ... The result is independent of how the image is split into internal
#  processing blocks"

@contract("pandora.filter.median.MedianFilter.median_filter", props=["C10", "C13"])
def _(self, data):
    types(self={"@attrs": {"_filter_size": "int"}}, data="f32[:,:]", result="f32[:,:]")
    # filter_size is odd (check_conf rejects even sizes, C05) and not larger than the image
    requires("size", self._filter_size >= 1, self._filter_size % 2 == 1,
             data.shape[0] >= self._filter_size, data.shape[1] >= self._filter_size)
    assigns()
    raises_never()
    ensures("shape", result.shape[0] == data.shape[0] and result.shape[1] == data.shape[1])
    # invalid (NaN) pixels stay NaN
    ensures("invalid_untouched", all(isnan(result[y, x]) for y in range(data.shape[0]) for x in range(data.shape[1])
                                     if isnan(data[y, x])))
    # valid pixels closer to an edge than the radius keep their value
    ensures("edges_untouched", all(eq(result[y, x], data[y, x]) for y in range(data.shape[0]) for x in range(data.shape[1])
                                   if not isnan(data[y, x]) and (y < self._filter_size // 2 or y >= data.shape[0] - self._filter_size // 2
                                                                 or x < self._filter_size // 2 or x >= data.shape[1] - self._filter_size // 2)))
    # every other valid pixel: the NaN-ignoring median of ITS OWN filter_size window, whatever the 100-pixel blocks
    ensures("median_of_window", all(
        eq(result[y, x], np.nanmedian(data[y - self._filter_size // 2: y + self._filter_size // 2 + 1,
                                           x - self._filter_size // 2: x + self._filter_size // 2 + 1]))
        for y in range(self._filter_size // 2, data.shape[0] - self._filter_size // 2)
        for x in range(self._filter_size // 2, data.shape[1] - self._filter_size // 2) if not isnan(data[y, x])))
    invariant(1, y_begin == radius + (100 * col if 100 * col < ny_ - self._filter_size + 1 else ny_ - self._filter_size + 1),
              all(eq(data_median[y, x], np.nanmedian(data[y - radius: y + radius + 1, x - radius: x + radius + 1]))
                  for y in range(radius, y_begin) for x in range(radius, nx_ - radius)),
              all(eq(data_median[y, x], data[y, x]) for y in range(ny_) for x in range(nx_)
                  if y < radius or y >= y_begin or x < radius or x >= nx_ - radius))
    invariant(2, x_begin == radius + (100 * rox if 100 * rox < nx_ - self._filter_size + 1 else nx_ - self._filter_size + 1),
              all(eq(data_median[y, x], np.nanmedian(data[y - radius: y + radius + 1, x - radius: x + radius + 1]))
                  for y in range(radius, y_begin) for x in range(radius, nx_ - radius)),
              all(eq(data_median[y, x], np.nanmedian(data[y - radius: y + radius + 1, x - radius: x + radius + 1]))
                  for y in range(y_begin, y_begin + disp_y.shape[0]) for x in range(radius, x_begin)),
              all(eq(data_median[y, x], data[y, x]) for y in range(ny_) for x in range(nx_)
                  if y < radius or y >= y_begin + disp_y.shape[0] or x < radius or x >= nx_ - radius
                  or (y >= y_begin and x >= x_begin)))


@sampler("pandora.filter.median.MedianFilter.median_filter")
def _(rng):
    from pandora.filter.median import MedianFilter
    fs = int([1, 3, 5][rng.integers(0, 3)])
    shapes = [(fs, fs), (fs + 1, fs + 3), (7, 9), (101, 8), (6, 103), (100, 100), (12, 201)]
    h, w = shapes[rng.integers(0, len(shapes))]
    h, w = max(h, fs), max(w, fs)
    data = rng.integers(-5, 6, size=(h, w)).astype(np.float32)
    data[rng.random((h, w)) < 0.2] = np.nan
    me = MedianFilter.__new__(MedianFilter)
    me._filter_size = fs
    return {"self": me, "data": data}


@contract("pandora.filter.bilateral.BilateralFilter.filter_bilateral", props=["C10", "C13"])
def _(self, data, sigma_space, sigma_color):
    types(self="obj", data="f32[:,:]", sigma_space="float", sigma_color="float", result="f32[:,:]")
    # bilateral_kernel(windows, kernel, sigma_color, offset)[i, j] depends on windows[i, j, :, :] and the scalar arguments only
    # (assumption; its values are covered by the bounded stand-in); gauss_spatial_kernel only feeds it
    option(window_functionals=["bilateral_kernel"], opaque_calls=["gauss_spatial_kernel"], no_fuzz=True)
    requires("sizes", data.shape[0] >= 1, data.shape[1] >= 1, not isnan(sigma_space), not isinf(sigma_space), sigma_space > 0)
    assigns()
    raises_never()
    ensures("shape", result.shape[0] == data.shape[0] and result.shape[1] == data.shape[1])
    ensures("invalid_untouched", all(isnan(result[y, x]) for y in range(data.shape[0]) for x in range(data.shape[1])
                                     if isnan(data[y, x])))
    # win = min(rows, cols, int(3 sigma_space + 1)); the window of pixel (y, x) starts at (y - win//2, x - win//2)
    ensures("edges_untouched", all(
        eq(result[y, x], data[y, x]) for y in range(data.shape[0]) for x in range(data.shape[1])
        if not isnan(data[y, x]) and (y < min(data.shape[0], data.shape[1], int(3 * sigma_space + 1)) // 2
                                      or y - min(data.shape[0], data.shape[1], int(3 * sigma_space + 1)) // 2
                                      + min(data.shape[0], data.shape[1], int(3 * sigma_space + 1)) > data.shape[0]
                                      or x < min(data.shape[0], data.shape[1], int(3 * sigma_space + 1)) // 2
                                      or x - min(data.shape[0], data.shape[1], int(3 * sigma_space + 1)) // 2
                                      + min(data.shape[0], data.shape[1], int(3 * sigma_space + 1)) > data.shape[1])))
    # every other valid pixel: the kernel applied to ITS OWN window, whatever the 50-pixel blocks
    ensures("kernel_of_window", all(
        eq(result[y, x], bilateral_kernel(
            data[y - min(data.shape[0], data.shape[1], int(3 * sigma_space + 1)) // 2:
                 y - min(data.shape[0], data.shape[1], int(3 * sigma_space + 1)) // 2 + min(data.shape[0], data.shape[1], int(3 * sigma_space + 1)),
                 x - min(data.shape[0], data.shape[1], int(3 * sigma_space + 1)) // 2:
                 x - min(data.shape[0], data.shape[1], int(3 * sigma_space + 1)) // 2 + min(data.shape[0], data.shape[1], int(3 * sigma_space + 1))],
            None, sigma_color, min(data.shape[0], data.shape[1], int(3 * sigma_space + 1)) // 2))
        for y in range(data.shape[0]) for x in range(data.shape[1])
        if not isnan(data[y, x]) and y >= min(data.shape[0], data.shape[1], int(3 * sigma_space + 1)) // 2
        and y - min(data.shape[0], data.shape[1], int(3 * sigma_space + 1)) // 2 + min(data.shape[0], data.shape[1], int(3 * sigma_space + 1)) <= data.shape[0]
        and x >= min(data.shape[0], data.shape[1], int(3 * sigma_space + 1)) // 2
        and x - min(data.shape[0], data.shape[1], int(3 * sigma_space + 1)) // 2 + min(data.shape[0], data.shape[1], int(3 * sigma_space + 1)) <= data.shape[1]))
    invariant(1, y_begin == offset + (50 * k1 if 50 * k1 < ny_ - win_width + 1 else ny_ - win_width + 1),
              all(eq(data_bilateral[y, x], bilateral_kernel(data[y - offset: y - offset + win_width, x - offset: x - offset + win_width],
                                                            None, sigma_color, offset))
                  for y in range(offset, y_begin) for x in range(offset, nx_ - win_width + 1 + offset)),
              all(eq(data_bilateral[y, x], data[y, x]) for y in range(ny_) for x in range(nx_)
                  if y < offset or y >= y_begin or x < offset or x >= nx_ - win_width + 1 + offset))
    invariant(2, x_begin == offset + (50 * k2 if 50 * k2 < nx_ - win_width + 1 else nx_ - win_width + 1),
              all(eq(data_bilateral[y, x], bilateral_kernel(data[y - offset: y - offset + win_width, x - offset: x - offset + win_width],
                                                            None, sigma_color, offset))
                  for y in range(offset, y_begin) for x in range(offset, nx_ - win_width + 1 + offset)),
              all(eq(data_bilateral[y, x], bilateral_kernel(data[y - offset: y - offset + win_width, x - offset: x - offset + win_width],
                                                            None, sigma_color, offset))
                  for y in range(y_begin, y_begin + disp_y.shape[0]) for x in range(offset, x_begin)),
              all(eq(data_bilateral[y, x], data[y, x]) for y in range(ny_) for x in range(nx_)
                  if y < offset or y >= y_begin + disp_y.shape[0] or x < offset or x >= nx_ - win_width + 1 + offset
                  or (y >= y_begin and x >= x_begin)))


@contract("pandora.filter.median.MedianFilter.filter_disparity", props=["C10", "C04", "C09"])
def _(self, disp, img_left, img_right, cv):
    types(self={"@attrs": {"_filter_size": "int"}},
          disp={"vars": {"disparity_map": "f32[:,:]", "validity_mask": "u16[:,:]"}, "attrs": {"filter": "str"}},
          img_left="opaque", img_right="opaque", cv="opaque")
    requires("size", self._filter_size >= 1, self._filter_size % 2 == 1,
             disp["disparity_map"].data.shape[0] >= self._filter_size, disp["disparity_map"].data.shape[1] >= self._filter_size,
             disp["validity_mask"].data.shape[0] == disp["disparity_map"].data.shape[0],
             disp["validity_mask"].data.shape[1] == disp["disparity_map"].data.shape[1])
    assigns(disp)
    raises_never()
    # never changes the validity mask
    ensures("mask_unchanged", all(disp["validity_mask"].data[y, x] == old(disp["validity_mask"].data)[y, x]
                                  for y in range(disp["validity_mask"].data.shape[0]) for x in range(disp["validity_mask"].data.shape[1])))
    # never changes the disparity of an invalid pixel
    ensures("invalid_untouched", all(eq(disp["disparity_map"].data[y, x], old(disp["disparity_map"].data)[y, x])
                                     for y in range(disp["disparity_map"].data.shape[0]) for x in range(disp["disparity_map"].data.shape[1])
                                     if disp["validity_mask"].data[y, x] & 0b01111000011 != 0))
    # leaves pixels closer to the image edge than the filter radius untouched
    ensures("edges_untouched", all(eq(disp["disparity_map"].data[y, x], old(disp["disparity_map"].data)[y, x])
                                   for y in range(disp["disparity_map"].data.shape[0]) for x in range(disp["disparity_map"].data.shape[1])
                                   if y < self._filter_size // 2 or y >= disp["disparity_map"].data.shape[0] - self._filter_size // 2
                                   or x < self._filter_size // 2 or x >= disp["disparity_map"].data.shape[1] - self._filter_size // 2))
    # every other valid (finite) pixel lies between two valid disparities of its window
    ensures("between_valid_of_window", all(
        (not isnan(disp["disparity_map"].data[y, x]))
        and any(old(disp["validity_mask"].data)[p, q] & 0b01111000011 == 0 and not isnan(old(disp["disparity_map"].data)[p, q])
                and old(disp["disparity_map"].data)[p, q] <= disp["disparity_map"].data[y, x]
                for p in range(y - self._filter_size // 2, y + self._filter_size // 2 + 1)
                for q in range(x - self._filter_size // 2, x + self._filter_size // 2 + 1))
        and any(old(disp["validity_mask"].data)[p, q] & 0b01111000011 == 0 and not isnan(old(disp["disparity_map"].data)[p, q])
                and old(disp["disparity_map"].data)[p, q] >= disp["disparity_map"].data[y, x]
                for p in range(y - self._filter_size // 2, y + self._filter_size // 2 + 1)
                for q in range(x - self._filter_size // 2, x + self._filter_size // 2 + 1))
        for y in range(self._filter_size // 2, disp["disparity_map"].data.shape[0] - self._filter_size // 2)
        for x in range(self._filter_size // 2, disp["disparity_map"].data.shape[1] - self._filter_size // 2)
        if disp["validity_mask"].data[y, x] & 0b01111000011 == 0 and not isnan(old(disp["disparity_map"].data)[y, x])
        and not isinf(old(disp["disparity_map"].data)[y, x])))


@contract("pandora.filter.bilateral.BilateralFilter.filter_disparity", props=["C10", "C04", "C09"])
def _(self, disp, img_left, img_right, cv):
    types(self={"@attrs": {"_sigma_space": "float", "_sigma_color": "float"}},
          disp={"vars": {"disparity_map": "f32[:,:]", "validity_mask": "u16[:,:]"}, "attrs": {"filter": "str"}},
          img_left="opaque", img_right="opaque", cv="opaque")
    option(window_functionals=["bilateral_kernel"], no_fuzz=True)
    requires("size", disp["disparity_map"].data.shape[0] >= 1, disp["disparity_map"].data.shape[1] >= 1,
             not isnan(self._sigma_space), not isinf(self._sigma_space), self._sigma_space > 0,
             disp["validity_mask"].data.shape[0] == disp["disparity_map"].data.shape[0],
             disp["validity_mask"].data.shape[1] == disp["disparity_map"].data.shape[1])
    assigns(disp)
    raises_never()
    ensures("mask_unchanged", all(disp["validity_mask"].data[y, x] == old(disp["validity_mask"].data)[y, x]
                                  for y in range(disp["validity_mask"].data.shape[0]) for x in range(disp["validity_mask"].data.shape[1])))
    ensures("invalid_untouched", all(eq(disp["disparity_map"].data[y, x], old(disp["disparity_map"].data)[y, x])
                                     for y in range(disp["disparity_map"].data.shape[0]) for x in range(disp["disparity_map"].data.shape[1])
                                     if disp["validity_mask"].data[y, x] & 0b01111000011 != 0))
    ensures("edges_untouched", all(
        eq(disp["disparity_map"].data[y, x], old(disp["disparity_map"].data)[y, x])
        for y in range(disp["disparity_map"].data.shape[0]) for x in range(disp["disparity_map"].data.shape[1])
        if y < min(disp["disparity_map"].data.shape[0], disp["disparity_map"].data.shape[1], int(3 * self._sigma_space + 1)) // 2
        or x < min(disp["disparity_map"].data.shape[0], disp["disparity_map"].data.shape[1], int(3 * self._sigma_space + 1)) // 2
        or y - min(disp["disparity_map"].data.shape[0], disp["disparity_map"].data.shape[1], int(3 * self._sigma_space + 1)) // 2
        + min(disp["disparity_map"].data.shape[0], disp["disparity_map"].data.shape[1], int(3 * self._sigma_space + 1)) > disp["disparity_map"].data.shape[0]
        or x - min(disp["disparity_map"].data.shape[0], disp["disparity_map"].data.shape[1], int(3 * self._sigma_space + 1)) // 2
        + min(disp["disparity_map"].data.shape[0], disp["disparity_map"].data.shape[1], int(3 * self._sigma_space + 1)) > disp["disparity_map"].data.shape[1]))
    # every other valid pixel: the kernel applied to its own window of the map IN WHICH INVALID PIXELS ARE NaN -- an invalid neighbour
    # (whatever marker it carries: invalid_disparity may be any number) never enters the average (C10 "average of valid neighbours",
    # C09 "stays within the interval whatever filtering followed")
    ensures("kernel_of_masked_window", all(
        eq(disp["disparity_map"].data[y, x], bilateral_kernel(
            array_of(lambda yy, xx: (np.nan if old(disp["validity_mask"].data)[yy, xx] & 0b01111000011 != 0
                                     else old(disp["disparity_map"].data)[yy, xx]),
                     disp["disparity_map"].data.shape[0], disp["disparity_map"].data.shape[1])[
                y - min(disp["disparity_map"].data.shape[0], disp["disparity_map"].data.shape[1], int(3 * self._sigma_space + 1)) // 2:
                y - min(disp["disparity_map"].data.shape[0], disp["disparity_map"].data.shape[1], int(3 * self._sigma_space + 1)) // 2
                + min(disp["disparity_map"].data.shape[0], disp["disparity_map"].data.shape[1], int(3 * self._sigma_space + 1)),
                x - min(disp["disparity_map"].data.shape[0], disp["disparity_map"].data.shape[1], int(3 * self._sigma_space + 1)) // 2:
                x - min(disp["disparity_map"].data.shape[0], disp["disparity_map"].data.shape[1], int(3 * self._sigma_space + 1)) // 2
                + min(disp["disparity_map"].data.shape[0], disp["disparity_map"].data.shape[1], int(3 * self._sigma_space + 1))],
            None, self._sigma_color,
            min(disp["disparity_map"].data.shape[0], disp["disparity_map"].data.shape[1], int(3 * self._sigma_space + 1)) // 2))
        for y in range(disp["disparity_map"].data.shape[0]) for x in range(disp["disparity_map"].data.shape[1])
        if old(disp["validity_mask"].data)[y, x] & 0b01111000011 == 0
        and not isnan(old(disp["disparity_map"].data)[y, x]) and not isinf(old(disp["disparity_map"].data)[y, x])
        and y >= min(disp["disparity_map"].data.shape[0], disp["disparity_map"].data.shape[1], int(3 * self._sigma_space + 1)) // 2
        and y - min(disp["disparity_map"].data.shape[0], disp["disparity_map"].data.shape[1], int(3 * self._sigma_space + 1)) // 2
        + min(disp["disparity_map"].data.shape[0], disp["disparity_map"].data.shape[1], int(3 * self._sigma_space + 1)) <= disp["disparity_map"].data.shape[0]
        and x >= min(disp["disparity_map"].data.shape[0], disp["disparity_map"].data.shape[1], int(3 * self._sigma_space + 1)) // 2
        and x - min(disp["disparity_map"].data.shape[0], disp["disparity_map"].data.shape[1], int(3 * self._sigma_space + 1)) // 2
        + min(disp["disparity_map"].data.shape[0], disp["disparity_map"].data.shape[1], int(3 * self._sigma_space + 1)) <= disp["disparity_map"].data.shape[1]))


@sampler("pandora.filter.median.MedianFilter.filter_disparity")
def _(rng):
    import xarray as xr
    from pandora.filter.median import MedianFilter
    fs = int([1, 3, 5][rng.integers(0, 3)])
    shapes = [(fs, fs), (fs + 1, fs + 3), (7, 9), (101, 8), (6, 103), (12, 201)]
    h, w = shapes[rng.integers(0, len(shapes))]
    h, w = max(h, fs), max(w, fs)
    d = rng.integers(-5, 6, size=(h, w)).astype(np.float32)
    d[rng.random((h, w)) < 0.1] = np.nan
    m = np.zeros((h, w), dtype=np.uint16)
    bits = np.array([1, 2, 4, 8, 16, 32, 64, 128, 256, 512, 1024], dtype=np.uint16)
    sel = rng.random((h, w)) < 0.3
    m[sel] = bits[rng.integers(0, len(bits), size=int(sel.sum()))]
    ds = xr.Dataset({"disparity_map": (["row", "col"], d), "validity_mask": (["row", "col"], m)},
                    coords={"row": np.arange(h), "col": np.arange(w)})
    me = MedianFilter.__new__(MedianFilter)
    me._filter_size = fs
    return {"self": me, "disp": ds, "img_left": None, "img_right": None, "cv": None}
