# Contracts for pandora/criteria.py (property C04).  Oracle: property statement + output.rst bit table.

@contract("pandora.criteria.mask_border", props=["C04", "C07", "C14"])
def _(dataset):
    # border pixels (closer to an edge than the window offset) carry bit 0 only; interior pixels are untouched
    types(dataset={"vars": {"validity_mask": "u16[:,:]"}, "attrs": {"offset_row_col": "int"}})
    requires("offset", dataset.attrs["offset_row_col"] >= 1,
             2 * dataset.attrs["offset_row_col"] <= dataset["validity_mask"].data.shape[0],
             2 * dataset.attrs["offset_row_col"] <= dataset["validity_mask"].data.shape[1])
    assigns(dataset)
    raises_never()
    option(returns_expr='dataset["validity_mask"]')   # `return dataset["validity_mask"]`: checked by ensures("returns_mask") below
    ensures("returns_mask", result.data.shape[0] == dataset["validity_mask"].data.shape[0]
            and result.data.shape[1] == dataset["validity_mask"].data.shape[1]
            and all(result.data[r, c] == dataset["validity_mask"].data[r, c]
                    for r in range(dataset["validity_mask"].data.shape[0]) for c in range(dataset["validity_mask"].data.shape[1])))
    ensures("border", all(dataset["validity_mask"].data[r, c] == 1
                          for r in range(dataset["validity_mask"].data.shape[0])
                          for c in range(dataset["validity_mask"].data.shape[1])
                          if (r < dataset.attrs["offset_row_col"] or c < dataset.attrs["offset_row_col"]
                              or r >= dataset["validity_mask"].data.shape[0] - dataset.attrs["offset_row_col"]
                              or c >= dataset["validity_mask"].data.shape[1] - dataset.attrs["offset_row_col"])))
    ensures("interior", all(dataset["validity_mask"].data[r, c] == old(dataset["validity_mask"].data)[r, c]
                            for r in range(dataset.attrs["offset_row_col"], dataset["validity_mask"].data.shape[0] - dataset.attrs["offset_row_col"])
                            for c in range(dataset.attrs["offset_row_col"], dataset["validity_mask"].data.shape[1] - dataset.attrs["offset_row_col"])))


@spec
def range_missing(col, c, d_min, d_max, offset) -> "bool":
    # no disparity of the interval puts the correspondent of column c inside the part of the right image where a window fits
    return col[c] + d_max < col[0] + offset or col[c] + d_min > col[col.shape[0] - 1] - offset


@spec
def range_incomplete(col, c, d_min, d_max, offset) -> "bool":
    return (not range_missing(col, c, d_min, d_max, offset)) and (
        col[c] + d_min < col[0] + offset or col[c] + d_max > col[col.shape[0] - 1] - offset)


@contract("pandora.criteria.validity_mask", props=["C04", "C13"])
def _(img_left, img_right, cv):
    # images without input masks: bits 1 and 2 from the global interval and the column position only (C04); only
    # differences of column coordinates are used (C13: independent of the first coordinate)
    types(img_left={"vars": {"im": "f32[:,:]"}}, img_right={"vars": {"im": "f32[:,:]"}},
          cv={"coords": {"disp": "f64[:]", "col": "i64[:]"}, "attrs": {"offset_row_col": "int"},
              "sizes": {"row": "int", "col": "col.0"}})
    requires("axis", cv.coords["disp"].data.shape[0] >= 1, isfinite(cv.coords["disp"].data[0]),
             isfinite(cv.coords["disp"].data[cv.coords["disp"].data.shape[0] - 1]),
             cv.coords["disp"].data[0] <= cv.coords["disp"].data[cv.coords["disp"].data.shape[0] - 1])
    requires("columns", cv.coords["col"].data.shape[0] >= 1,
             all(cv.coords["col"].data[k] == cv.coords["col"].data[0] + k for k in range(cv.coords["col"].data.shape[0])))
    requires("window_fits", cv.attrs["offset_row_col"] >= 0, 2 * cv.attrs["offset_row_col"] < cv.coords["col"].data.shape[0])
    assigns(cv)
    raises_never()
    ensures("shape", result["validity_mask"].data.shape[0] == cv.sizes["row"]
            and result["validity_mask"].data.shape[1] == cv.sizes["col"])
    ensures("bits", all(result["validity_mask"].data[r, c] == (
                            2 if range_missing(cv.coords["col"].data, c, cv.coords["disp"].data[0],
                                               cv.coords["disp"].data[cv.coords["disp"].data.shape[0] - 1], cv.attrs["offset_row_col"])
                            else 4 if range_incomplete(cv.coords["col"].data, c, cv.coords["disp"].data[0],
                                                       cv.coords["disp"].data[cv.coords["disp"].data.shape[0] - 1], cv.attrs["offset_row_col"])
                            else 0)
                        # (columns closer to an edge than the window offset are border pixels: mask_border overwrites them)
                        for r in range(cv.sizes["row"])
                        for c in range(cv.attrs["offset_row_col"], cv.sizes["col"] - cv.attrs["offset_row_col"])))


@sampler("pandora.criteria.mask_border")
def _(rng):
    import xarray as xr
    o = int(rng.integers(1, 3))
    h, w = int(rng.integers(2 * o, 2 * o + 4)), int(rng.integers(2 * o, 2 * o + 5))
    ds = xr.Dataset({"validity_mask": (["row", "col"], rng.integers(0, 600, size=(h, w)).astype(np.uint16))},
                    coords={"row": np.arange(h), "col": np.arange(w)})
    ds.attrs["offset_row_col"] = o
    return {"dataset": ds}


@sampler("pandora.criteria.validity_mask")
def _(rng):
    import xarray as xr
    o = int(rng.integers(0, 3))
    h, w = int(rng.integers(1, 4)), int(rng.integers(2 * o + 1, 2 * o + 8))
    c0 = int(rng.integers(0, 5))
    sub = [1, 2, 4][rng.integers(0, 3)]
    a = int(rng.integers(-6, 5))
    b = a + int(rng.integers(0, 6))
    disp = np.arange(a * sub, b * sub + 1) / float(sub)
    img = xr.Dataset({"im": (["row", "col"], np.zeros((h, w), dtype=np.float32))}, coords={"row": np.arange(h), "col": np.arange(c0, c0 + w)})
    cv = xr.Dataset({"cost_volume": (["row", "col", "disp"], np.zeros((h, w, len(disp)), dtype=np.float32))},
                    coords={"row": np.arange(h), "col": np.arange(c0, c0 + w), "disp": disp})
    cv.attrs["offset_row_col"] = o
    return {"img_left": img, "img_right": img.copy(deep=True), "cv": cv}


@contract("pandora.criteria.mask_invalid_variable_disparity_range", props=["C04"])
def _(cv):
    # bit 1 is raised exactly for the pixels none of whose costs is computable; nothing else changes
    types(cv={"vars": {"cost_volume": "f32[:,:,:]", "validity_mask": "u16[:,:]"}})
    requires("shapes", cv["validity_mask"].data.shape[0] == cv["cost_volume"].data.shape[0],
             cv["validity_mask"].data.shape[1] == cv["cost_volume"].data.shape[1])
    assigns(cv)
    raises_never()
    ensures("bit1", all(cv["validity_mask"].data[r, c] == (
                            (old(cv["validity_mask"].data)[r, c] | 2)
                            if all(isnan(cv["cost_volume"].data[r, c, k]) for k in range(cv["cost_volume"].data.shape[2]))
                            else old(cv["validity_mask"].data)[r, c])
                        for r in range(cv["cost_volume"].data.shape[0]) for c in range(cv["cost_volume"].data.shape[1])))
    ensures("costs_untouched", all(eq(cv["cost_volume"].data[r, c, k], old(cv["cost_volume"].data)[r, c, k])
                                   for r in range(cv["cost_volume"].data.shape[0]) for c in range(cv["cost_volume"].data.shape[1])
                                   for k in range(cv["cost_volume"].data.shape[2])))


@sampler("pandora.criteria.mask_invalid_variable_disparity_range")
def _(rng):
    import xarray as xr
    h, w, n = int(rng.integers(1, 4)), int(rng.integers(1, 5)), int(rng.integers(1, 4))
    cost = rng.integers(0, 5, size=(h, w, n)).astype(np.float32)
    cost[rng.random((h, w, n)) < 0.5] = np.nan
    cost[rng.random((h, w)) < 0.3] = np.nan
    vm = np.array([0, 0, 2, 4, 6, 1, 64, 128], dtype=np.uint16)[rng.integers(0, 8, size=(h, w))]
    return {"cv": xr.Dataset({"cost_volume": (["row", "col", "disp"], cost), "validity_mask": (["row", "col"], vm)},
                             coords={"row": np.arange(h), "col": np.arange(w), "disp": np.arange(n)})}


# ------------------------------------------------------------------------------------------- right-image mask (bits 7 and 1)
@spec
def masked_px(msk, nd, vp, y, c) -> "int":
    # 1 when the right pixel is invalidated by the input mask (neither no-data nor valid), else 0
    return 1 if (msk[y, c] != nd and msk[y, c] != vp) else 0


@spec
def cnt_masked(msk, nd, vp, y, c0, k, lo, hi) -> "int":
    # over the k candidate columns c0 .. c0+k-1: a candidate outside [lo, hi] counts 1, inside it counts masked_px
    return 0 if k <= 0 else cnt_masked(msk, nd, vp, y, c0, k - 1, lo, hi) + (
        masked_px(msk, nd, vp, y, c0 + k - 1) if lo <= c0 + k - 1 and c0 + k - 1 <= hi else 1)


@spec
def cnt_nodata(dil, y, c0, k, lo, hi) -> "int":
    return 0 if k <= 0 else cnt_nodata(dil, y, c0, k - 1, lo, hi) + (
        (1 if dil[y, c0 + k - 1] else 0) if lo <= c0 + k - 1 and c0 + k - 1 <= hi else 1)


@lemma("cnt_masked_full", props=["C04"])
def _(msk, nd, vp, y, c0, k, lo, hi):
    # the counter reaches k exactly when every in-image candidate is masked
    types(msk="i16[:,:]", nd="int", vp="int", y="int", c0="int", k="int", lo="int", hi="int")
    requires(k >= 0)
    induction("k", 0)
    option(fuel=["cnt_masked", "cnt_nodata"])
    ensures("bounded", 0 <= cnt_masked(msk, nd, vp, y, c0, k, lo, hi) and cnt_masked(msk, nd, vp, y, c0, k, lo, hi) <= k)
    ensures("full_implies_all", implies(cnt_masked(msk, nd, vp, y, c0, k, lo, hi) == k,
                                        all(masked_px(msk, nd, vp, y, c) == 1 for c in range(c0, c0 + k) if lo <= c and c <= hi)))
    ensures("all_implies_full", implies(all(masked_px(msk, nd, vp, y, c) == 1 for c in range(c0, c0 + k) if lo <= c and c <= hi),
                                        cnt_masked(msk, nd, vp, y, c0, k, lo, hi) == k))


@assumed("pandora.criteria.binary_dilation_msk")
def _(img, window_size):
    # scipy.ndimage.binary_dilation of the no-data pixels by a window_size x window_size square (odd sizes): a boolean
    # array on the image grid.  Only its shape is used by the proofs below; its values are kept symbolic.
    types(img={"vars": {"msk": "i16[:,:]"}, "attrs": {"no_data_mask": "int", "valid_pixels": "int"}}, window_size="int", result="bool[:,:]")
    option(pure=True)   # a function of the mask contents and the window size
    ensures("shape", result.shape[0] == img["msk"].data.shape[0] and result.shape[1] == img["msk"].data.shape[1])


@contract("pandora.criteria.allocate_right_mask", props=["C04"])
def _(cv, img_right, bit_1):
    types(cv={"vars": {"validity_mask": "i64[:,:]"}, "coords": {"disp": "f64[:]"}, "attrs": {"offset_row_col": "int", "window_size": "int"},
              "sizes": {"row": "validity_mask.0", "col": "validity_mask.1", "disp": "disp.0"}},
          img_right={"vars": {"msk": "i16[:,:]"}, "attrs": {"no_data_mask": "int", "valid_pixels": "int"}},
          bit_1=["where1d"])
    requires("grid", img_right["msk"].data.shape[0] == cv["validity_mask"].data.shape[0],
             img_right["msk"].data.shape[1] == cv["validity_mask"].data.shape[1],
             bit_1[0].mask.shape[0] == cv["validity_mask"].data.shape[1])
    requires("axis", cv.coords["disp"].data.shape[0] >= 1, isfinite(cv.coords["disp"].data[0]),
             isfinite(cv.coords["disp"].data[cv.coords["disp"].data.shape[0] - 1]),
             cv.coords["disp"].data[0] <= cv.coords["disp"].data[cv.coords["disp"].data.shape[0] - 1],
             # the disparity axis starts and ends on integers (sub-pixel samples lie strictly between them)
             cv.coords["disp"].data[0] == int(cv.coords["disp"].data[0]),
             cv.coords["disp"].data[cv.coords["disp"].data.shape[0] - 1] == int(cv.coords["disp"].data[cv.coords["disp"].data.shape[0] - 1]))
    requires("window_fits", cv.attrs["offset_row_col"] >= 0, 2 * cv.attrs["offset_row_col"] < cv["validity_mask"].data.shape[1])
    assigns(cv)
    raises_never()
    option(fuel=["cnt_masked", "cnt_nodata"], chain_invariants=True, no_fuzz=True)
    uses("cnt_masked_full", msk=img_right["msk"].data, nd=img_right.attrs["no_data_mask"], vp=img_right.attrs["valid_pixels"])
    # in terms of the counters: 128 / 2 are ADDED exactly where, outside the bit-1 columns, the counter over the d_max-d_min+1 INTEGER
    # candidates x+d_min .. x+d_max is full -- whatever the number of sub-pixel samples on the disparity axis
    ensures("counters", all(
        cv["validity_mask"].data[y, x] == old(cv["validity_mask"].data)[y, x]
        + (128 if (not bit_1[0].mask[x]) and cnt_masked(
            img_right["msk"].data, img_right.attrs["no_data_mask"], img_right.attrs["valid_pixels"], y, x + int(cv.coords["disp"].data[0]),
            int(cv.coords["disp"].data[cv.coords["disp"].data.shape[0] - 1]) - int(cv.coords["disp"].data[0]) + 1,
            cv.attrs["offset_row_col"], cv["validity_mask"].data.shape[1] - 1 - cv.attrs["offset_row_col"])
            == int(cv.coords["disp"].data[cv.coords["disp"].data.shape[0] - 1]) - int(cv.coords["disp"].data[0]) + 1 else 0)
        + (2 if (not bit_1[0].mask[x]) and cnt_nodata(
            binary_dilation_msk(img_right, cv.attrs["window_size"]), y, x + int(cv.coords["disp"].data[0]),
            int(cv.coords["disp"].data[cv.coords["disp"].data.shape[0] - 1]) - int(cv.coords["disp"].data[0]) + 1,
            cv.attrs["offset_row_col"], cv["validity_mask"].data.shape[1] - 1 - cv.attrs["offset_row_col"])
            == int(cv.coords["disp"].data[cv.coords["disp"].data.shape[0] - 1]) - int(cv.coords["disp"].data[0]) + 1 else 0)
        for y in range(cv["validity_mask"].data.shape[0]) for x in range(cv["validity_mask"].data.shape[1])))
    # C04, bit 7: "every in-image right candidate is masked" (over the global interval, integer candidates x+d)
    ensures("bit7_iff_all_candidates_masked", all(
        ((cv["validity_mask"].data[y, x] - old(cv["validity_mask"].data)[y, x]) // 128) % 2 == (
            1 if (not bit_1[0].mask[x]) and all(
                masked_px(img_right["msk"].data, img_right.attrs["no_data_mask"], img_right.attrs["valid_pixels"], y, c) == 1
                for c in range(x + int(cv.coords["disp"].data[0]), x + int(cv.coords["disp"].data[cv.coords["disp"].data.shape[0] - 1]) + 1)
                if cv.attrs["offset_row_col"] <= c and c <= cv["validity_mask"].data.shape[1] - 1 - cv.attrs["offset_row_col"]) else 0)
        for y in range(cv["validity_mask"].data.shape[0]) for x in range(cv["validity_mask"].data.shape[1])))
    invariant(1,
              all(0 <= b_2_7[y, x] and b_2_7[y, x] <= dsp - d_min and 0 <= no_data_right[y, x] and no_data_right[y, x] <= dsp - d_min
                  for y in range(cv["validity_mask"].data.shape[0]) for x in range(cv["validity_mask"].data.shape[1])),
              all(cv["validity_mask"].data[y, x] == old(cv["validity_mask"].data)[y, x]
                  + (128 if dsp == d_max + 1 and b_2_7[y, x] == d_max - d_min + 1 else 0)
                  + (2 if dsp == d_max + 1 and no_data_right[y, x] == d_max - d_min + 1 else 0)
                  for y in range(cv["validity_mask"].data.shape[0]) for x in range(cv["validity_mask"].data.shape[1])),
              all(b_2_7[y, x] == (0 if bit_1[0].mask[x] and dsp > d_min else cnt_masked(
                  img_right["msk"].data, img_right.attrs["no_data_mask"], img_right.attrs["valid_pixels"], y, x + d_min, dsp - d_min,
                  offset, cv["validity_mask"].data.shape[1] - 1 - offset))
                  for y in range(cv["validity_mask"].data.shape[0]) for x in range(cv["validity_mask"].data.shape[1])),
              all(no_data_right[y, x] == (0 if bit_1[0].mask[x] and dsp > d_min else cnt_nodata(
                  dil, y, x + d_min, dsp - d_min, offset, cv["validity_mask"].data.shape[1] - 1 - offset))
                  for y in range(cv["validity_mask"].data.shape[0]) for x in range(cv["validity_mask"].data.shape[1])))


@contract("pandora.criteria.allocate_left_mask", props=["C04"])
def _(cv, img_left):
    types(cv={"vars": {"validity_mask": "i64[:,:]"}, "attrs": {"window_size": "int"}},
          img_left={"vars": {"msk": "i16[:,:]"}, "attrs": {"no_data_mask": "int", "valid_pixels": "int"}})
    requires("grid", img_left["msk"].data.shape[0] == cv["validity_mask"].data.shape[0],
             img_left["msk"].data.shape[1] == cv["validity_mask"].data.shape[1])
    assigns(cv)
    raises_never()
    option(no_fuzz=True)
    # bit 0 (1) is ADDED where the dilated no-data map of the left image holds, bit 6 (64) where the left input mask invalidates
    # the pixel (neither no-data nor valid); nothing else changes
    ensures("bit0_and_bit6", all(
        cv["validity_mask"].data[y, x] == old(cv["validity_mask"].data)[y, x]
        + (1 if binary_dilation_msk(img_left, cv.attrs["window_size"])[y, x] else 0)
        + (64 if masked_px(img_left["msk"].data, img_left.attrs["no_data_mask"], img_left.attrs["valid_pixels"], y, x) == 1 else 0)
        for y in range(cv["validity_mask"].data.shape[0]) for x in range(cv["validity_mask"].data.shape[1])))


# the function itself (call sites keep the assumed form above, of which they only use the shape): the dilation of the no-data pixels of
# THIS image by the window -- a pixel is set iff a no-data pixel lies in the window centred on it (C04: bit 0 / border-or-nodata cause)
@contract("pandora.criteria.binary_dilation_msk", props=["C04"])
def _(img, window_size):
    types(img={"vars": {"msk": "i16[:,:]"}, "attrs": {"no_data_mask": "int", "valid_pixels": "int"}}, window_size="int", result="bool[:,:]")
    option(standalone=True, no_fuzz=True)
    requires("odd_window", window_size >= 1, window_size % 2 == 1)
    assigns()
    raises_never()
    ensures("shape", result.shape[0] == img["msk"].data.shape[0] and result.shape[1] == img["msk"].data.shape[1])
    ensures("window_holds_nodata", all(
        result[y, x] == any(img["msk"].data[p, q] == img.attrs["no_data_mask"]
                            for p in range(y - window_size // 2, y + window_size // 2 + 1)
                            for q in range(x - window_size // 2, x + window_size // 2 + 1)
                            if 0 <= p and p < img["msk"].data.shape[0] and 0 <= q and q < img["msk"].data.shape[1])
        for y in range(img["msk"].data.shape[0]) for x in range(img["msk"].data.shape[1])))
