# Contracts for pandora/criteria.py (property C04).  Oracle: property statement + output.rst bit table.

@contract("pandora.criteria.mask_border", props=["C04", "C07", "C14"])
def _(dataset):
    # border pixels (closer to an edge than the window offset) carry bit 0 only; interior pixels are untouched
    types(dataset={"vars": {"validity_mask": "u16[:,:]"}, "attrs": {"offset_row_col": "int"}})
    requires("offset", dataset.attrs["offset_row_col"] >= 1,
             2 * dataset.attrs["offset_row_col"] <= dataset["validity_mask"].data.shape[0],
             2 * dataset.attrs["offset_row_col"] <= dataset["validity_mask"].data.shape[1])
    assigns(dataset)
    raises_never()
    ensures("border", all(dataset["validity_mask"].data[r, c] == 1
                          for r in range(dataset["validity_mask"].data.shape[0])
                          for c in range(dataset["validity_mask"].data.shape[1])
                          if (r < dataset.attrs["offset_row_col"] or c < dataset.attrs["offset_row_col"]
                              or r >= dataset["validity_mask"].data.shape[0] - dataset.attrs["offset_row_col"]
                              or c >= dataset["validity_mask"].data.shape[1] - dataset.attrs["offset_row_col"])))
    ensures("interior", all(dataset["validity_mask"].data[r, c] == old(dataset["validity_mask"].data)[r, c]
                            for r in range(dataset.attrs["offset_row_col"], dataset["validity_mask"].data.shape[0] - dataset.attrs["offset_row_col"])
                            for c in range(dataset.attrs["offset_row_col"], dataset["validity_mask"].data.shape[1] - dataset.attrs["offset_row_col"])))


@spec
def range_missing(col, c, d_min, d_max, offset) -> "bool":
    # no disparity of the interval puts the correspondent of column c inside the part of the right image where a window fits
    return col[c] + d_max < col[0] + offset or col[c] + d_min > col[col.shape[0] - 1] - offset


@spec
def range_incomplete(col, c, d_min, d_max, offset) -> "bool":
    return (not range_missing(col, c, d_min, d_max, offset)) and (
        col[c] + d_min < col[0] + offset or col[c] + d_max > col[col.shape[0] - 1] - offset)


@contract("pandora.criteria.validity_mask", props=["C04", "C13"])
def _(img_left, img_right, cv):
    # images without input masks: bits 1 and 2 from the global interval and the column position only (C04); only
    # differences of column coordinates are used (C13: independent of the first coordinate)
    types(img_left={"vars": {"im": "f32[:,:]"}}, img_right={"vars": {"im": "f32[:,:]"}},
          cv={"coords": {"disp": "f64[:]", "col": "i64[:]"}, "attrs": {"offset_row_col": "int"},
              "sizes": {"row": "int", "col": "col.0"}})
    requires("axis", cv.coords["disp"].data.shape[0] >= 1, isfinite(cv.coords["disp"].data[0]),
             isfinite(cv.coords["disp"].data[cv.coords["disp"].data.shape[0] - 1]),
             cv.coords["disp"].data[0] <= cv.coords["disp"].data[cv.coords["disp"].data.shape[0] - 1])
    requires("columns", cv.coords["col"].data.shape[0] >= 1,
             all(cv.coords["col"].data[k] == cv.coords["col"].data[0] + k for k in range(cv.coords["col"].data.shape[0])))
    requires("window_fits", cv.attrs["offset_row_col"] >= 0, 2 * cv.attrs["offset_row_col"] < cv.coords["col"].data.shape[0])
    assigns(cv)
    raises_never()
    ensures("shape", result["validity_mask"].data.shape[0] == cv.sizes["row"]
            and result["validity_mask"].data.shape[1] == cv.sizes["col"])
    ensures("bits", all(result["validity_mask"].data[r, c] == (
                            2 if range_missing(cv.coords["col"].data, c, cv.coords["disp"].data[0],
                                               cv.coords["disp"].data[cv.coords["disp"].data.shape[0] - 1], cv.attrs["offset_row_col"])
                            else 4 if range_incomplete(cv.coords["col"].data, c, cv.coords["disp"].data[0],
                                                       cv.coords["disp"].data[cv.coords["disp"].data.shape[0] - 1], cv.attrs["offset_row_col"])
                            else 0)
                        # (columns closer to an edge than the window offset are border pixels: mask_border overwrites them)
                        for r in range(cv.sizes["row"])
                        for c in range(cv.attrs["offset_row_col"], cv.sizes["col"] - cv.attrs["offset_row_col"])))


@sampler("pandora.criteria.mask_border")
def _(rng):
    import xarray as xr
    o = int(rng.integers(1, 3))
    h, w = int(rng.integers(2 * o, 2 * o + 4)), int(rng.integers(2 * o, 2 * o + 5))
    ds = xr.Dataset({"validity_mask": (["row", "col"], rng.integers(0, 600, size=(h, w)).astype(np.uint16))},
                    coords={"row": np.arange(h), "col": np.arange(w)})
    ds.attrs["offset_row_col"] = o
    return {"dataset": ds}


@sampler("pandora.criteria.validity_mask")
def _(rng):
    import xarray as xr
    o = int(rng.integers(0, 3))
    h, w = int(rng.integers(1, 4)), int(rng.integers(2 * o + 1, 2 * o + 8))
    c0 = int(rng.integers(0, 5))
    sub = [1, 2, 4][rng.integers(0, 3)]
    a = int(rng.integers(-6, 5))
    b = a + int(rng.integers(0, 6))
    disp = np.arange(a * sub, b * sub + 1) / float(sub)
    img = xr.Dataset({"im": (["row", "col"], np.zeros((h, w), dtype=np.float32))}, coords={"row": np.arange(h), "col": np.arange(c0, c0 + w)})
    cv = xr.Dataset({"cost_volume": (["row", "col", "disp"], np.zeros((h, w, len(disp)), dtype=np.float32))},
                    coords={"row": np.arange(h), "col": np.arange(c0, c0 + w), "disp": disp})
    cv.attrs["offset_row_col"] = o
    return {"img_left": img, "img_right": img.copy(deep=True), "cv": cv}


@contract("pandora.criteria.mask_invalid_variable_disparity_range", props=["C04"])
def _(cv):
    # bit 1 is raised exactly for the pixels none of whose costs is computable; nothing else changes
    types(cv={"vars": {"cost_volume": "f32[:,:,:]", "validity_mask": "u16[:,:]"}})
    requires("shapes", cv["validity_mask"].data.shape[0] == cv["cost_volume"].data.shape[0],
             cv["validity_mask"].data.shape[1] == cv["cost_volume"].data.shape[1])
    assigns(cv)
    raises_never()
    ensures("bit1", all(cv["validity_mask"].data[r, c] == (
                            (old(cv["validity_mask"].data)[r, c] | 2)
                            if all(isnan(cv["cost_volume"].data[r, c, k]) for k in range(cv["cost_volume"].data.shape[2]))
                            else old(cv["validity_mask"].data)[r, c])
                        for r in range(cv["cost_volume"].data.shape[0]) for c in range(cv["cost_volume"].data.shape[1])))
    ensures("costs_untouched", all(eq(cv["cost_volume"].data[r, c, k], old(cv["cost_volume"].data)[r, c, k])
                                   for r in range(cv["cost_volume"].data.shape[0]) for c in range(cv["cost_volume"].data.shape[1])
                                   for k in range(cv["cost_volume"].data.shape[2])))


@sampler("pandora.criteria.mask_invalid_variable_disparity_range")
def _(rng):
    import xarray as xr
    h, w, n = int(rng.integers(1, 4)), int(rng.integers(1, 5)), int(rng.integers(1, 4))
    cost = rng.integers(0, 5, size=(h, w, n)).astype(np.float32)
    cost[rng.random((h, w, n)) < 0.5] = np.nan
    cost[rng.random((h, w)) < 0.3] = np.nan
    vm = np.array([0, 0, 2, 4, 6, 1, 64, 128], dtype=np.uint16)[rng.integers(0, 8, size=(h, w))]
    return {"cv": xr.Dataset({"cost_volume": (["row", "col", "disp"], cost), "validity_mask": (["row", "col"], vm)},
                             coords={"row": np.arange(h), "col": np.arange(w), "disp": np.arange(n)})}
