# Frame contracts for numpy/xarray glue code (pv/alias.py: may-alias abstract interpretation of the real function text).
# Oracle: the property statements -- "the step itself does not modify any disparity" (C07), "a filter never changes the
# validity mask" (C10), "leaves every existing band, the cost volume ... exactly" (C12), "only flagged pixels change" (C14),
# "a run leaves the caller's image datasets exactly as it received them" (C18).

@frame("pandora.validation.validation.CrossCheckingAccurate.disparity_checking", props=["C07", "C18"])
def _(self, dataset_left, dataset_right, img_left, img_right, cv):
    types(dataset_left="ds", dataset_right="ds", img_left="ds", img_right="ds", cv="ds")
    # cross-checking writes flags and its confidence band; never a disparity, never the right products, never the images
    assigns("dataset_left.validity_mask", "dataset_left.confidence_measure", "dataset_left{}", "dataset_left.attrs",
            "dataset_left.coords.indicator",
            "cv{}", "cv.confidence_measure")   # allocate_confidence_map adds the band to the cost volume too when one is given


# ------------------------------------------------------------------------------------------------ matching cost (C18, C09)
@frame("pandora.matching_cost.sad_ssd.SadSsd.compute_cost_volume", props=["C18"])
def _(self, img_left, img_right, cost_volume):
    types(img_left="ds", img_right="ds", cost_volume="ds")
    assigns("cost_volume", "self._pixel_wise_methods")


@frame("pandora.matching_cost.census.Census.compute_cost_volume", props=["C18"])
def _(self, img_left, img_right, cost_volume):
    types(img_left="ds", img_right="ds", cost_volume="ds")
    assigns("cost_volume")


@frame("pandora.matching_cost.zncc.Zncc.compute_cost_volume", props=["C18"])
def _(self, img_left, img_right, cost_volume):
    types(img_left="ds", img_right="ds", cost_volume="ds")
    assigns("cost_volume")


@frame("pandora.matching_cost.matching_cost.AbstractMatchingCost.cv_masked", props=["C18", "C09"])
def _(self, img_left, img_right, cost_volume, disp_min, disp_max):
    types(img_left="ds", img_right="ds", cost_volume="ds", disp_min="f32[:,:]", disp_max="f32[:,:]")
    # masking writes NaN into the cost volume only: neither the images nor the caller's disparity grids
    assigns("cost_volume.cost_volume", "cost_volume.validity_mask", "cost_volume{}")


@frame("pandora.matching_cost.matching_cost.AbstractMatchingCost.allocate_cost_volume", props=["C18"])
def _(self, image, disparity_grids, cfg):
    types(image="ds", disparity_grids="tuple", cfg="dict")
    assigns()


@frame("pandora.criteria.validity_mask", props=["C18", "C04"])
def _(img_left, img_right, cv):
    types(img_left="ds", img_right="ds", cv="ds")
    assigns("cv.validity_mask", "cv{}")


# ------------------------------------------------------------------------------------------------------- aggregation (C11, C18)
@frame("pandora.aggregation.cbca.CrossBasedCostAggregation.cost_volume_aggregation", props=["C18", "C11"])
def _(self, img_left, img_right, cv):
    types(img_left="ds", img_right="ds", cv="ds")
    assigns("cv.cost_volume", "cv.attrs")


# ----------------------------------------------------------------------------------------------- cost volume confidence (C12)
@frame("pandora.cost_volume_confidence.ambiguity.Ambiguity.confidence_prediction", props=["C12", "C18"])
def _(self, disp, img_left, img_right, cv):
    types(disp="ds", img_left="ds", img_right="ds", cv="ds")
    # "appends its own band(s) and leaves every existing band, the cost volume ... exactly"
    assigns("cv{}", "cv.confidence_measure", "disp{}", "disp.confidence_measure")


@frame("pandora.cost_volume_confidence.std_intensity.StdIntensity.confidence_prediction", props=["C12", "C18"])
def _(self, disp, img_left, img_right, cv):
    types(disp="ds", img_left="ds", img_right="ds", cv="ds")
    assigns("cv{}", "cv.confidence_measure", "disp{}", "disp.confidence_measure")


@frame("pandora.cost_volume_confidence.risk.Risk.confidence_prediction", props=["C12", "C18"])
def _(self, disp, img_left, img_right, cv):
    types(disp="ds", img_left="ds", img_right="ds", cv="ds")
    assigns("cv{}", "cv.confidence_measure", "disp{}", "disp.confidence_measure")


@frame("pandora.cost_volume_confidence.interval_bounds.IntervalBounds.confidence_prediction", props=["C12", "C18"])
def _(self, disp, img_left, img_right, cv):
    types(disp="ds", img_left="ds", img_right="ds", cv="ds")
    assigns("cv{}", "cv.confidence_measure", "disp{}", "disp.confidence_measure")


# --------------------------------------------------------------------------------------------------------- disparity (C03, C18)
@frame("pandora.disparity.disparity.WinnerTakesAll.to_disp", props=["C18"])
def _(self, cv, img_left, img_right):
    types(cv="ds", img_left="ds", img_right="ds")
    # NaN costs are substituted and restored in place; the winner indices are stored in the cost volume dataset
    assigns("cv.cost_volume", "cv{}", "cv.disp_indices")


@frame("pandora.disparity.disparity.AbstractDisparity.approximate_right_disparity", props=["C18", "C08"])
def _(cv, img_right, invalid_value):
    types(cv="ds", img_right="ds", invalid_value="float")
    assigns("cv.cost_volume")   # NaN costs substituted then restored, as in to_disp


# ------------------------------------------------------------------------------------------------------------ filters (C10, C18)
@frame("pandora.filter.median.MedianFilter.filter_disparity", props=["C10", "C18"])
def _(self, disp, img_left, img_right, cv):
    types(disp="ds", img_left="ds", img_right="ds", cv="ds")
    # "a filter step never changes the validity mask"
    assigns("disp.disparity_map", "disp.attrs")


@frame("pandora.filter.bilateral.BilateralFilter.filter_disparity", props=["C10", "C18"])
def _(self, disp, img_left, img_right, cv):
    types(disp="ds", img_left="ds", img_right="ds", cv="ds")
    assigns("disp.disparity_map", "disp.attrs")


@frame("pandora.filter.median_for_intervals.MedianForIntervalsFilter.filter_disparity", props=["C10", "C18"])
def _(self, disp, img_left, img_right, cv):
    types(disp="ds", img_left="ds", img_right="ds", cv="ds")
    # the interval filter works on the confidence bands and may raise bit 11 of the validity mask
    assigns("disp.confidence_measure", "disp.validity_mask", "disp.attrs", "disp{}")


# --------------------------------------------------------------------------------------------------------- refinement (C06, C18)
@frame("pandora.refinement.refinement.AbstractRefinement.subpixel_refinement", props=["C06", "C18"])
def _(self, cv, disp):
    types(cv="ds", disp="ds")
    assigns("disp.disparity_map", "disp.validity_mask", "disp.interpolated_coeff", "disp{}", "disp.attrs", "cv.attrs")


@frame("pandora.refinement.refinement.AbstractRefinement.approximate_subpixel_refinement", props=["C06", "C18"])
def _(self, cv_left, disp_right):
    types(cv_left="ds", disp_right="ds")
    assigns("disp_right.disparity_map", "disp_right.validity_mask", "disp_right.interpolated_coeff", "disp_right{}", "disp_right.attrs",
            "cv_left.attrs")


# --------------------------------------------------------------------------------------------------------- validation (C14, C18)
@frame("pandora.validation.interpolated_disparity.SgmInterpolation.interpolated_disparity", props=["C14", "C18"])
def _(self, left, img_left, img_right, cv):
    types(left="ds", img_left="ds", img_right="ds", cv="ds")
    assigns("left.disparity_map", "left.validity_mask", "left.attrs")


@frame("pandora.validation.interpolated_disparity.McCnnInterpolation.interpolated_disparity", props=["C14", "C18"])
def _(self, left, img_left, img_right, cv):
    types(left="ds", img_left="ds", img_right="ds", cv="ds")
    assigns("left.disparity_map", "left.validity_mask", "left.attrs", "left{}")


# --------------------------------------------------------------------------------------------------------- multiscale (C15, C18)
@frame("pandora.multiscale.fixed_zoom_pyramid.FixedZoomPyramid.disparity_range", props=["C15", "C18"])
def _(self, disp, disp_min, disp_max):
    types(disp="ds", disp_min="f32[:,:]", disp_max="f32[:,:]")
    assigns()


# ------------------------------------------------------------------------------------------------------ image preparation (C16, C18)
@frame("pandora.img_tools.prepare_pyramid", props=["C15", "C18"])
def _(img_left, img_right, num_scales, scale_factor):
    types(img_left="ds", img_right="ds", num_scales="int", scale_factor="int")
    assigns()


@frame("pandora.img_tools.shift_right_img", props=["C18", "C02"])
def _(img_right, subpix, band):
    types(img_right="ds", subpix="int", band="str")
    assigns()


@frame("pandora.img_tools.census_transform", props=["C18", "C02"])
def _(image, window_size, band):
    types(image="ds", window_size="int", band="str")
    assigns()


@frame("pandora.img_tools.compute_mean_raster", props=["C18"])
def _(img, win_size, band):
    types(img="ds", win_size="int", band="str")
    assigns()


@frame("pandora.img_tools.compute_std_raster", props=["C18"])
def _(img, win_size, band):
    types(img="ds", win_size="int", band="str")
    assigns()


@frame("pandora.img_tools.fill_nodata_image", props=["C18", "C15"])
def _(dataset):
    types(dataset="ds")
    assigns()


# ------------------------------------------------------------------------------------------ state machine callbacks (C18, C08)
# The machine keeps REFERENCES to the caller's datasets (run_prepare).  "A run leaves the caller's image datasets exactly as
# it received them": (1) run_prepare -- only the fields listed below may share memory with the caller's data, nothing is
# written into it; (2) no callback writes in place into what those fields hold (they may only be rebound: self{}).
PROTECTED = ["left_img", "right_img", "disp_min", "disp_max", "right_disp_min", "right_disp_max", "dmin_user", "dmax_user",
             "dmin_user_right", "dmax_user_right", "img_left_pyramid", "img_right_pyramid"]


@frame("pandora.state_machine.PandoraMachine.run_prepare", props=["C18"])
def _(self, cfg, left_img, right_img, scale_factor, num_scales):
    types(cfg="dict", left_img="ds", right_img="ds", scale_factor="int", num_scales="int")
    option(fields_aliasing_params=["left_img", "right_img", "disp_min", "disp_max", "right_disp_min", "right_disp_max", "dmin_user",
                                   "dmax_user", "dmin_user_right", "dmax_user_right", "img_left_pyramid", "img_right_pyramid"])
    assigns("self{}")


@frame("pandora.state_machine.PandoraMachine.matching_cost_prepare", props=["C18"])
def _(self, cfg, input_step):
    types(cfg="dict", input_step="str")
    option(hints={"self.matching_cost_": "pandora.matching_cost.matching_cost.AbstractMatchingCost"})
    assigns("self{}", "self.left_cv", "self.right_cv", "self.matching_cost_")


@frame("pandora.state_machine.PandoraMachine.matching_cost_run", props=["C18"])
def _(self, _, __):
    types(_="dict", __="str")
    option(hints={"self.matching_cost_": "pandora.matching_cost.matching_cost.AbstractMatchingCost"})
    assigns("self{}", "self.left_cv", "self.right_cv", "self.matching_cost_")


@frame("pandora.state_machine.PandoraMachine.aggregation_run", props=["C18"])
def _(self, cfg, input_step):
    types(cfg="dict", input_step="str")
    assigns("self{}", "self.left_cv", "self.right_cv")


@frame("pandora.state_machine.PandoraMachine.cost_volume_confidence_run", props=["C18", "C12"])
def _(self, cfg, input_step):
    types(cfg="dict", input_step="str")
    assigns("self{}", "self.left_cv", "self.right_cv", "self.left_disparity", "self.right_disparity", "cfg")


@frame("pandora.state_machine.PandoraMachine.disparity_run", props=["C18"])
def _(self, cfg, input_step):
    types(cfg="dict", input_step="str")
    assigns("self{}", "self.left_cv", "self.right_cv")


@frame("pandora.state_machine.PandoraMachine.filter_run", props=["C18", "C10"])
def _(self, cfg, input_step):
    types(cfg="dict", input_step="str")
    # the filter constructor completes the step's configuration dictionary with its defaults (already there after checking)
    assigns("self{}", "self.left_disparity", "self.right_disparity", "cfg")


@frame("pandora.state_machine.PandoraMachine.refinement_run", props=["C18"])
def _(self, cfg, input_step):
    types(cfg="dict", input_step="str")
    assigns("self{}", "self.left_disparity", "self.right_disparity", "self.left_cv", "self.right_cv")


@frame("pandora.state_machine.PandoraMachine.validation_run", props=["C18", "C07"])
def _(self, cfg, input_step):
    types(cfg="dict", input_step="str")
    assigns("self{}", "self.left_disparity", "self.right_disparity")


@frame("pandora.state_machine.PandoraMachine.run_multiscale", props=["C18", "C15"])
def _(self, cfg, input_step):
    types(cfg="dict", input_step="str")
    # the pyramids are lists owned by the machine: popping the next level is the only in-place operation on a protected field
    assigns("self{}", "self.left_disparity", "self.right_disparity", "self.img_left_pyramid", "self.img_right_pyramid")


# ------------------------------------------------------------------------------------------------ interval regularisation (C12)
# "each confidence step ... leaves every existing band ... exactly": the regularisation works on a padded / filtered COPY of the
# ambiguity band it is given (np.hstack, np.nanmin produce new arrays) and returns new bounds; the caller's arrays are not written
@frame("pandora.interval_tools.interval_regularization", props=["C12", "C18"])
def _(interval_inf, interval_sup, ambiguity, ambiguity_threshold, ambiguity_kernel_size, vertical_depth, quantile_regularization):
    types(interval_inf="f32[:,:]", interval_sup="f32[:,:]", ambiguity="f32[:,:]", ambiguity_threshold="float",
          ambiguity_kernel_size="int", vertical_depth="int", quantile_regularization="float")
    assigns()
