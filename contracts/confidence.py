# Frame / race contracts for the numba prange kernels of the confidence measures (property C18, and the unchecked array
# accesses they perform).  The VALUES computed are not modelled here (see the bounded stand-in of C12); what is proved:
# for two distinct iterations of every prange loop the cells written are disjoint, no cell written by one is read by the
# other, no scalar is carried across iterations, and every subscript is in bounds.

@contract("pandora.cost_volume_confidence.ambiguity.Ambiguity.compute_ambiguity", props=["C18"])
def _(cv, _eta_min, _eta_max, _eta_step):
    types(cv="f32[:,:,:]", _eta_min="float", _eta_max="float", _eta_step="float")
    option(frame_only=True)
    assigns()
    invariant(1, True)
    invariant(2, True)
    invariant(3, True)
    invariant(4, True)


@contract("pandora.cost_volume_confidence.ambiguity.Ambiguity.compute_ambiguity_and_sampled_ambiguity", props=["C18"])
def _(cv, _eta_min, _eta_max, _eta_step):
    types(cv="f32[:,:,:]", _eta_min="float", _eta_max="float", _eta_step="float")
    option(frame_only=True)
    assigns()
    invariant(1, True)
    invariant(2, True)
    invariant(3, True)
    invariant(4, True)


@contract("pandora.cost_volume_confidence.risk.Risk.compute_risk", props=["C18"])
def _(cv, sampled_ambiguity, _eta_min, _eta_max, _eta_step):
    types(cv="f32[:,:,:]", sampled_ambiguity="f32[:,:,:]", _eta_min="float", _eta_max="float", _eta_step="float")
    option(frame_only=True)
    requires("shapes", sampled_ambiguity.shape[0] == cv.shape[0], sampled_ambiguity.shape[1] == cv.shape[1])
    assigns()
    invariant(1, True)
    invariant(2, True)
    invariant(3, True)
    invariant(4, True)


@contract("pandora.cost_volume_confidence.risk.Risk.compute_risk_and_sampled_risk", props=["C18"])
def _(cv, sampled_ambiguity, _eta_min, _eta_max, _eta_step):
    types(cv="f32[:,:,:]", sampled_ambiguity="f32[:,:,:]", _eta_min="float", _eta_max="float", _eta_step="float")
    option(frame_only=True)
    requires("shapes", sampled_ambiguity.shape[0] == cv.shape[0], sampled_ambiguity.shape[1] == cv.shape[1])
    assigns()
    invariant(1, True)
    invariant(2, True)
    invariant(3, True)
    invariant(4, True)


@contract("pandora.cost_volume_confidence.interval_bounds.IntervalBounds.compute_interval_bounds", props=["C18"])
def _(cv, disp_interval, possibility_threshold, type_factor):
    types(cv="f32[:,:,:]", disp_interval="f32[:]", possibility_threshold="float", type_factor="float")
    option(frame_only=True)
    requires("shapes", disp_interval.shape[0] == cv.shape[2])
    assigns()
    invariant(1, True)
    invariant(2, True)
    invariant(3, True)
    invariant(4, True)
