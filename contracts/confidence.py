# Frame / race contracts for the numba prange kernels of the confidence measures (property C18, and the unchecked array
# accesses they perform).  The VALUES computed are not modelled here (see the bounded stand-in of C12); what is proved:
# for two distinct iterations of every prange loop the cells written are disjoint, no cell written by one is read by the
# other, no scalar is carried across iterations, and every subscript is in bounds.

@contract("pandora.cost_volume_confidence.ambiguity.Ambiguity.compute_ambiguity", props=["C18"])
def _(cv, _eta_min, _eta_max, _eta_step):
    types(cv="f32[:,:,:]", _eta_min="float", _eta_max="float", _eta_step="float")
    option(frame_only=True)
    assigns()
    invariant(1, True)
    invariant(2, True)
    invariant(3, True)
    invariant(4, True)


@contract("pandora.cost_volume_confidence.ambiguity.Ambiguity.compute_ambiguity_and_sampled_ambiguity", props=["C18"])
def _(cv, _eta_min, _eta_max, _eta_step):
    types(cv="f32[:,:,:]", _eta_min="float", _eta_max="float", _eta_step="float")
    option(frame_only=True)
    assigns()
    invariant(1, True)
    invariant(2, True)
    invariant(3, True)
    invariant(4, True)


@contract("pandora.cost_volume_confidence.risk.Risk.compute_risk", props=["C18"])
def _(cv, sampled_ambiguity, _eta_min, _eta_max, _eta_step):
    types(cv="f32[:,:,:]", sampled_ambiguity="f32[:,:,:]", _eta_min="float", _eta_max="float", _eta_step="float")
    option(frame_only=True)
    requires("shapes", sampled_ambiguity.shape[0] == cv.shape[0], sampled_ambiguity.shape[1] == cv.shape[1])
    assigns()
    invariant(1, True)
    invariant(2, True)
    invariant(3, True)
    invariant(4, True)


@contract("pandora.cost_volume_confidence.risk.Risk.compute_risk_and_sampled_risk", props=["C18"])
def _(cv, sampled_ambiguity, _eta_min, _eta_max, _eta_step):
    types(cv="f32[:,:,:]", sampled_ambiguity="f32[:,:,:]", _eta_min="float", _eta_max="float", _eta_step="float")
    option(frame_only=True)
    requires("shapes", sampled_ambiguity.shape[0] == cv.shape[0], sampled_ambiguity.shape[1] == cv.shape[1])
    assigns()
    invariant(1, True)
    invariant(2, True)
    invariant(3, True)
    invariant(4, True)


@contract("pandora.cost_volume_confidence.interval_bounds.IntervalBounds.compute_interval_bounds", props=["C18"])
def _(cv, disp_interval, possibility_threshold, type_factor):
    types(cv="f32[:,:,:]", disp_interval="f32[:]", possibility_threshold="float", type_factor="float")
    option(frame_only=True)
    requires("shapes", disp_interval.shape[0] == cv.shape[2])
    assigns()
    invariant(1, True)
    invariant(2, True)
    invariant(3, True)
    invariant(4, True)


# ---------------------------------------------------------------------------------------------------------------------
# C12, first sentence: "each step appends its own named band and leaves every existing band ... exactly".  Every
# cost_volume_confidence method (and cross-checking) stores its indicator through allocate_confidence_map: proved here for every
# image size, band count and band content, once per STRUCTURE of the two datasets (None / no confidence_measure yet / some bands).
@contract("pandora.cost_volume_confidence.cost_volume_confidence.AbstractCostVolumeConfidence.allocate_confidence_map",
          props=["C12"])
def _(name_confidence_measure, confidence_map, disp, cv):
    types(name_confidence_measure="str", confidence_map="f32[:,:]", disp="opaque", cv="opaque", result="tuple")
    type_cases(cv=[None,
                   {"vars": {"cost_volume": "f32[:,:,:]"},
                    "coords": {"row": "i64[:]", "col": "i64[:]", "disp": "f64[:]"},
                    "dims": {"cost_volume": ["row", "col", "disp"]}},
                   {"vars": {"cost_volume": "f32[:,:,:]", "confidence_measure": "f32[:,:,:]"},
                    "coords": {"row": "i64[:]", "col": "i64[:]", "disp": "f64[:]", "indicator": "str[:]"},
                    "dims": {"cost_volume": ["row", "col", "disp"], "confidence_measure": ["row", "col", "indicator"]}}],
               disp=[None,
                     {"vars": {"disparity_map": "f32[:,:]", "validity_mask": "u16[:,:]"},
                      "coords": {"row": "i64[:]", "col": "i64[:]"},
                      "dims": {"disparity_map": ["row", "col"], "validity_mask": ["row", "col"]}},
                     {"vars": {"disparity_map": "f32[:,:]", "validity_mask": "u16[:,:]", "confidence_measure": "f32[:,:,:]"},
                      "coords": {"row": "i64[:]", "col": "i64[:]", "indicator": "str[:]"},
                      "dims": {"disparity_map": ["row", "col"], "validity_mask": ["row", "col"],
                               "confidence_measure": ["row", "col", "indicator"]}}])
    # the map is on the datasets' grid, and so are the bands already present (what the callers pass)
    requires("grid_cv", implies(cv is not None, confidence_map.shape[0] == cv.coords["row"].data.shape[0]
                                and confidence_map.shape[1] == cv.coords["col"].data.shape[0]))
    requires("grid_disp", implies(disp is not None, confidence_map.shape[0] == disp.coords["row"].data.shape[0]
                                  and confidence_map.shape[1] == disp.coords["col"].data.shape[0]))
    requires("bands_cv", implies(cv is not None and "confidence_measure" in cv.data_vars,
                                 cv["confidence_measure"].data.shape[0] == confidence_map.shape[0]
                                 and cv["confidence_measure"].data.shape[1] == confidence_map.shape[1]
                                 and cv["confidence_measure"].data.shape[2] == cv.coords["indicator"].data.shape[0]))
    requires("bands_disp", implies(disp is not None and "confidence_measure" in disp.data_vars,
                                   disp["confidence_measure"].data.shape[0] == confidence_map.shape[0]
                                   and disp["confidence_measure"].data.shape[1] == confidence_map.shape[1]
                                   and disp["confidence_measure"].data.shape[2] == disp.coords["indicator"].data.shape[0]))
    # a disparity dataset that takes the cost volume's DataArray is labelled like the cost volume (xarray aligns by label)
    requires("same_labels", implies(disp is not None and cv is not None,
                                    all(disp.coords["row"].data[r] == cv.coords["row"].data[r] for r in range(confidence_map.shape[0]))
                                    and all(disp.coords["col"].data[c] == cv.coords["col"].data[c] for c in range(confidence_map.shape[1]))))
    raises_never()
    # call sites (disparity_checking, C07) keep the assumed contract of contracts/validation.py, whose clause "band" is the
    # clauses *_new_band / *_band_count below restricted to the disparity dataset
    option(standalone=True)
    ensures("none_stays_none", (result[0] is None) == (disp is None), (result[1] is None) == (cv is None))
    # cost volume: one more band, named confidence_from_<name>, holding the map; the earlier bands and their names exactly as before
    ensures("cv_band_count", (result[1]["confidence_measure"].data.shape[2]
                               == (old(cv["confidence_measure"].data.shape[2]) + 1 if "confidence_measure" in old(cv).data_vars else 1))
            if cv is not None else True)
    ensures("cv_existing_bands_kept",
            (all(eq(result[1]["confidence_measure"].data[r, c, k], old(cv["confidence_measure"].data)[r, c, k])
                 for r in range(confidence_map.shape[0]) for c in range(confidence_map.shape[1])
                 for k in range(old(cv["confidence_measure"].data.shape[2])))
             and all(result[1].coords["indicator"].data[k] == old(cv.coords["indicator"].data)[k]
                     for k in range(old(cv["confidence_measure"].data.shape[2]))))
            if cv is not None and "confidence_measure" in old(cv).data_vars else True)
    ensures("cv_new_band",
            (all(eq(result[1]["confidence_measure"].data[r, c, result[1]["confidence_measure"].data.shape[2] - 1], confidence_map[r, c])
                 for r in range(confidence_map.shape[0]) for c in range(confidence_map.shape[1]))
             and result[1].coords["indicator"].data.shape[0] == result[1]["confidence_measure"].data.shape[2]
             and result[1].coords["indicator"].data[result[1]["confidence_measure"].data.shape[2] - 1]
             == "confidence_from_" + name_confidence_measure)
            if cv is not None else True)
    ensures("cv_rest_untouched",
            (result[1]["cost_volume"].data.shape[2] == old(cv["cost_volume"].data.shape[2])
             and all(eq(result[1]["cost_volume"].data[r, c, d], old(cv["cost_volume"].data)[r, c, d])
                     for r in range(old(cv["cost_volume"].data.shape[0])) for c in range(old(cv["cost_volume"].data.shape[1]))
                     for d in range(old(cv["cost_volume"].data.shape[2])))
             and all(result[1].coords["row"].data[r] == old(cv.coords["row"].data)[r] for r in range(confidence_map.shape[0]))
             and all(result[1].coords["col"].data[c] == old(cv.coords["col"].data)[c] for c in range(confidence_map.shape[1]))
             and all(eq(result[1].coords["disp"].data[d], old(cv.coords["disp"].data)[d]) for d in range(old(cv.coords["disp"].data.shape[0]))))
            if cv is not None else True)
    # disparity dataset: the same, except that a dataset without bands takes over ALL the bands of the cost volume when one is given
    ensures("disp_band_count",
            (result[0]["confidence_measure"].data.shape[2]
             == (old(disp["confidence_measure"].data.shape[2]) + 1 if "confidence_measure" in old(disp).data_vars
                 else (result[1]["confidence_measure"].data.shape[2] if cv is not None else 1)))
            if disp is not None else True)
    ensures("disp_existing_bands_kept",
            (all(eq(result[0]["confidence_measure"].data[r, c, k], old(disp["confidence_measure"].data)[r, c, k])
                 for r in range(confidence_map.shape[0]) for c in range(confidence_map.shape[1])
                 for k in range(old(disp["confidence_measure"].data.shape[2])))
             and all(result[0].coords["indicator"].data[k] == old(disp.coords["indicator"].data)[k]
                     for k in range(old(disp["confidence_measure"].data.shape[2]))))
            if disp is not None and "confidence_measure" in old(disp).data_vars else True)
    ensures("disp_takes_cv_bands",
            (all(eq(result[0]["confidence_measure"].data[r, c, k], result[1]["confidence_measure"].data[r, c, k])
                 for r in range(confidence_map.shape[0]) for c in range(confidence_map.shape[1])
                 for k in range(result[1]["confidence_measure"].data.shape[2]))
             and all(result[0].coords["indicator"].data[k] == result[1].coords["indicator"].data[k]
                     for k in range(result[1]["confidence_measure"].data.shape[2])))
            if disp is not None and cv is not None and "confidence_measure" not in old(disp).data_vars else True)
    ensures("disp_new_band",
            (all(eq(result[0]["confidence_measure"].data[r, c, result[0]["confidence_measure"].data.shape[2] - 1], confidence_map[r, c])
                 for r in range(confidence_map.shape[0]) for c in range(confidence_map.shape[1]))
             and result[0].coords["indicator"].data.shape[0] == result[0]["confidence_measure"].data.shape[2]
             and result[0].coords["indicator"].data[result[0]["confidence_measure"].data.shape[2] - 1]
             == "confidence_from_" + name_confidence_measure)
            if disp is not None else True)
    # exactly the clause that contracts/validation.py assumes at the call site in disparity_checking (C07)
    ensures("band_as_assumed_at_call_sites",
            (result[0]["confidence_measure"].data.shape[0] == confidence_map.shape[0]
             and result[0]["confidence_measure"].data.shape[1] == confidence_map.shape[1]
             and result[0]["confidence_measure"].data.shape[2] >= 1
             and all(eq(result[0]["confidence_measure"].data[r, c, result[0]["confidence_measure"].data.shape[2] - 1], confidence_map[r, c])
                     for r in range(confidence_map.shape[0]) for c in range(confidence_map.shape[1])))
            if disp is not None else True)
    ensures("disp_rest_untouched",
            (all(eq(result[0]["disparity_map"].data[r, c], old(disp["disparity_map"].data)[r, c])
                 for r in range(old(disp["disparity_map"].data.shape[0])) for c in range(old(disp["disparity_map"].data.shape[1])))
             and all(result[0]["validity_mask"].data[r, c] == old(disp["validity_mask"].data)[r, c]
                     for r in range(old(disp["validity_mask"].data.shape[0])) for c in range(old(disp["validity_mask"].data.shape[1])))
             and result[0]["disparity_map"].data.shape[0] == old(disp["disparity_map"].data.shape[0])
             and result[0]["disparity_map"].data.shape[1] == old(disp["disparity_map"].data.shape[1])
             and all(result[0].coords["row"].data[r] == old(disp.coords["row"].data)[r] for r in range(confidence_map.shape[0]))
             and all(result[0].coords["col"].data[c] == old(disp.coords["col"].data)[c] for c in range(confidence_map.shape[1])))
            if disp is not None else True)


@sampler("pandora.cost_volume_confidence.cost_volume_confidence.AbstractCostVolumeConfidence.allocate_confidence_map")
def _(rng):
    import xarray as xr
    h, w = int(rng.integers(1, 5)), int(rng.integers(1, 5))
    r0, c0 = int(rng.integers(0, 4)), int(rng.integers(0, 4))   # ROI-like labels
    rows, cols = np.arange(r0, r0 + h), np.arange(c0, c0 + w)
    names = ["confidence_from_ambiguity", "confidence_from_risk_min.a", "confidence_from_x", "confidence_from_interval_bounds.inf.long"]

    def bands(k):
        data = rng.integers(-3, 4, size=(h, w, k)).astype(np.float32)
        data[rng.random((h, w, k)) < 0.2] = np.nan
        return xr.DataArray(data, coords=[rows, cols, list(names[:k])], dims=["row", "col", "indicator"])

    kc, kd = int(rng.integers(0, 3)), int(rng.integers(0, 3))   # 0: None, 1: no band yet, 2: some bands
    cv = disp = None
    if kc:
        nd = int(rng.integers(1, 4))
        cv = xr.Dataset({"cost_volume": (["row", "col", "disp"], rng.integers(0, 5, size=(h, w, nd)).astype(np.float32))},
                        coords={"row": rows, "col": cols, "disp": np.arange(-1, nd - 1).astype(np.float64)})
        if kc == 2:
            cv["confidence_measure"] = bands(int(rng.integers(1, 4)))
    if kd:
        disp = xr.Dataset({"disparity_map": (["row", "col"], rng.integers(-2, 3, size=(h, w)).astype(np.float32)),
                           "validity_mask": (["row", "col"], rng.integers(0, 5, size=(h, w)).astype(np.uint16))},
                          coords={"row": rows, "col": cols})
        if kd == 2:
            disp["confidence_measure"] = bands(int(rng.integers(1, 4)))
    m = rng.integers(-2, 3, size=(h, w)).astype(np.float32)
    m[rng.random((h, w)) < 0.2] = np.nan
    name = ["ambiguity", "risk_max.second_step", "a", "std_intensity.a_rather_long_suffix_for_a_band"][int(rng.integers(0, 4))]
    return {"name_confidence_measure": name, "confidence_map": m, "disp": disp, "cv": cv}
