# Contracts for the margin declarations of the step classes (property C20).  Oracle: property statement.

@tables("pandora.matching_cost.matching_cost.AbstractMatchingCost", props=["C20"])
def _():
    ensures("half_window", src.get("margins") == "HalfWindowMargins()")


@tables("pandora.aggregation.aggregation.AbstractAggregation", props=["C20"])
def _():
    ensures("null", src.get("margins") == "NullMargins()")


@tables("pandora.disparity.disparity.AbstractDisparity", props=["C20"])
def _():
    ensures("null", src.get("margins") == "NullMargins()")


@tables("pandora.refinement.refinement.AbstractRefinement", props=["C20"])
def _():
    ensures("null", src.get("margins") == "NullMargins()")


@tables("pandora.optimization.optimization.AbstractOptimization", props=["C20"])
def _():
    ensures("forty", src.get("margins") == "UniformMargins(40)")


@tables("pandora.margins.descriptors.NullMargins", props=["C20"])
def _():
    ensures("is_uniform", bases == ["UniformMargins"])


@contract("pandora.margins.descriptors.HalfWindowMargins.__get__", props=["C20"])
def _(self, instance, owner):
    types(instance={"@attrs": {"_window_size": "int"}}, owner="opaque")
    requires("odd_window", instance._window_size >= 1, instance._window_size % 2 == 1)
    raises_never()
    ensures("half_window", result == ("Margins", (instance._window_size - 1) // 2, (instance._window_size - 1) // 2,
                                      (instance._window_size - 1) // 2, (instance._window_size - 1) // 2))


@contract("pandora.filter.median.MedianFilter.margins", props=["C20"])
def _(self):
    types(self={"@attrs": {"_filter_size": "int", "_step": "int"}})
    requires("domain", self._filter_size >= 1, self._step >= 1)
    raises_never()
    ensures("filter_size_times_step", result == ("Margins", self._filter_size * self._step, self._filter_size * self._step,
                                                  self._filter_size * self._step, self._filter_size * self._step))


@contract("pandora.filter.median_for_intervals.MedianForIntervalsFilter.margins", props=["C20"])
def _(self):
    types(self={"@attrs": {"_filter_size": "int", "_step": "int"}})
    requires("domain", self._filter_size >= 1, self._step >= 1)
    raises_never()
    ensures("filter_size_times_step", result == ("Margins", self._filter_size * self._step, self._filter_size * self._step,
                                                  self._filter_size * self._step, self._filter_size * self._step))


@contract("pandora.filter.bilateral.BilateralFilter.margins", props=["C20"])
def _(self):
    types(self={"@attrs": {"_sigma_space": "float", "_step": "int", "_image_shape": ("int", "int")}})
    requires("domain", isfinite(self._sigma_space), self._sigma_space > 0, self._step >= 1,
             self._image_shape[0] >= 1, self._image_shape[1] >= 1)
    raises_never()
    ensures("min_rows_cols_sigma", result == ("Margins",
            min(self._image_shape[0], self._image_shape[1], trunc(3 * self._sigma_space + 1)) * self._step,
            min(self._image_shape[0], self._image_shape[1], trunc(3 * self._sigma_space + 1)) * self._step,
            min(self._image_shape[0], self._image_shape[1], trunc(3 * self._sigma_space + 1)) * self._step,
            min(self._image_shape[0], self._image_shape[1], trunc(3 * self._sigma_space + 1)) * self._step))


# C20 "the global margins are, per side, the larger of the sum of the cumulative ones and each non-cumulative one": the "larger of",
# for sequences of one, two and three margins
@contract("pandora.margins.margins.max_margins", props=["C20"])
def _(margins):
    types(margins="opaque")
    type_cases(margins=[["margins"], ["margins", "margins"], ["margins", "margins", "margins"]])
    option(no_fuzz=True)
    raises_never()
    ensures("is_an_upper_bound", all(result[k] >= m[k] for m in margins for k in [1, 2, 3, 4]))
    ensures("is_attained", all(any(result[k] == m[k] for m in margins) for k in [1, 2, 3, 4]))
    ensures("is_a_margins_record", result[0] == "Margins")


# ... and what it is the larger OF: the SUM of the cumulative margins and EACH non-cumulative one (trace obligations)
@contract("pandora.margins.margins.GlobalMargins.global_margins", props=["C20"])
def _(self):
    types(self="opaque")
    option(glue=True)
    ensures("max_of_sum_and_each", ncalls("max_margins") == 1, ncalls("sum") == 1,
            call_arg_mentions("max_margins", 0, 0, "_cumulatives.sum()"),
            call_arg_mentions("max_margins", 0, 0, "non_cumulatives.values()"),
            not call_arg_mentions("max_margins", 0, 0, "_non_cumulatives.sum()"))
