# Contracts for the writers of pandora/common.py (property C19: "saved products equal the computed ones; the saved configuration
# replays").  Orchestration ("glue") mode: file and raster operations are uninterpreted, the contracts speak about the trace of calls.

@contract("pandora.common.save_config", props=["C19"])
def _(output, user_cfg):
    types(output="opaque", user_cfg="opaque")
    option(glue=True)
    # the configuration handed in is what is serialised, as it is: no key sorting (the pipeline is an ORDERED mapping), no filtering
    ensures("dumps_the_configuration", ncalls("dump") == 1, call_arg_mentions("dump", 0, 0, "user_cfg"),
            not call_mentions("dump", 0, "sort_keys"), not call_mentions("dump", 0, "default="), not call_mentions("dump", 0, "skipkeys"))
    ensures("into_config_json", ncalls("open") == 1, call_mentions("open", 0, "config.json"), call_mentions("open", 0, "output"),
            call_mentions("open", 0, "'w'"), called_before("mkdir_p", "open"))


@contract("pandora.common.save_results", props=["C19"])
def _(left, right, output):
    types(left="opaque", right="opaque", output="opaque")
    option(glue=True)
    # every product of a dataset goes to the file of that name, with that dataset's georeferencing; masks as uint16; confidence
    # bands under their indicator names
    ensures("left_disparity", call_arg_mentions("write_data_array", 0, 0, "left['disparity_map']"),
            call_mentions("write_data_array", 0, "left_disparity.tif"), call_mentions("write_data_array", 0, "crs=left.attrs['crs']"),
            call_mentions("write_data_array", 0, "transform=left.attrs['transform']"), not call_mentions("write_data_array", 0, "right"))
    ensures("every_call_is_homogeneous", all(("left" in t) != ("right" in t) for t in event_texts() if "write_data_array" in t))
    ensures("masks_are_uint16", all(("validity_mask" in t) == ("uint16" in t) for t in event_texts() if "write_data_array" in t))
    ensures("names_match", all((("['disparity_map']" in t) == ("_disparity.tif" in t))
                               and (("['confidence_measure']," in t) == ("_confidence_measure.tif" in t))
                               and (("['validity_mask']" in t) == ("_validity_mask.tif" in t))
                               and (("left[" in t) == ("left_" in t)) and (("right[" in t) == ("right_" in t))
                               for t in event_texts() if "write_data_array" in t))
    ensures("confidence_band_names", all(("indicator" in t) == ("_confidence_measure.tif" in t) for t in event_texts() if "write_data_array" in t))
    ensures("left_always_right_when_present", ncalls("write_data_array") >= 2)


# what a raster file then CONTAINS: band k of the file is plane k of the DataArray (row, col, band) -- or the array itself when it is
# 2-D -- and the file has the array's size.  The raster is an uninterpreted writer: write(a, k) stores a as band k (assumed).
@contract("pandora.common.write_data_array", props=["C19"])
def _(data_array, filename, dtype, band_names, crs, transform):
    types(data_array="opaque", filename="str", dtype="opaque", band_names="opaque", crs="opaque", transform="opaque")
    type_cases(data_array=[{"dataarray": "f32[:,:]", "dims": ["row", "col"]},
                           {"dataarray": "f32[:,:,:]", "dims": ["row", "col", "indicator"]}])
    option(no_fuzz=True)
    raises_never()
    ensures("file_holds_the_array",
            (written_file(filename).shape[0] == 1 and written_file(filename).shape[1] == data_array.data.shape[0]
             and written_file(filename).shape[2] == data_array.data.shape[1]
             and all(eq(written_file(filename)[0, r, c], data_array.data[r, c])
                     for r in range(data_array.data.shape[0]) for c in range(data_array.data.shape[1])))
            if data_array.data.ndim == 2 else
            (written_file(filename).shape[0] == data_array.data.shape[2] and written_file(filename).shape[1] == data_array.data.shape[0]
             and written_file(filename).shape[2] == data_array.data.shape[1]
             and all(eq(written_file(filename)[k, r, c], data_array.data[r, c, k])
                     for k in range(data_array.data.shape[2])
                     for r in range(data_array.data.shape[0]) for c in range(data_array.data.shape[1]))))
    invariant(1, all(eq(written_file(filename)[k, r, c], data_array.data[r, c, k])
                     for k in range(dsp - 1) for r in range(row) for c in range(col)))


# the command-line entry: configuration and datasets are checked BEFORE any matching starts (C17), the pipeline runs on the checked
# configuration with (left, right) in this order, what run returned is what is saved (C19), and the saved configuration is the
# checked one plus the machine's margins (C19, C20)
@contract("pandora.main", props=["C19", "C17", "C20"])
def _(cfg_path, output, verbose):
    types(cfg_path="opaque", output="opaque", verbose="opaque")
    option(glue=True)
    ensures("checked_before_running", called_before("check_conf", "create_dataset_from_inputs"), called_before("check_datasets", "run"),
            called_before("create_dataset_from_inputs", "check_datasets"), ncalls("run") == 1, ncalls("check_datasets") == 1)
    ensures("run_on_the_checked_configuration", call_arg_mentions("run", 0, 3, "check_conf(read_config_file(cfg_path)"),
            call_arg_mentions("run", 0, 1, "['left']"), not call_arg_mentions("run", 0, 1, "['right']"),
            call_arg_mentions("run", 0, 2, "right"), call_arg_mentions("check_datasets", 0, 0, "['left']"),
            not call_arg_mentions("check_datasets", 0, 0, "['right']"))
    ensures("saves_what_run_returned", ncalls("save_results") == 1, called_before("run", "save_results"),
            call_arg_mentions("save_results", 0, 2, "output"))
    ensures("saved_configuration_is_the_checked_one_with_margins", ncalls("save_config") == 1, called_before("save_results", "save_config"),
            call_arg_mentions("save_config", 0, 0, "output"), call_arg_mentions("save_config", 0, 1, "check_conf(read_config_file(cfg_path)"),
            ".margins.to_dict()" in last_store("['margins']"), "PandoraMachine" in last_store("['margins']"))
