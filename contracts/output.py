# Contracts for the writers of pandora/common.py (property C19: "saved products equal the computed ones; the saved configuration
# replays").  Orchestration ("glue") mode: file and raster operations are uninterpreted, the contracts speak about the trace of calls.

@contract("pandora.common.save_config", props=["C19"])
def _(output, user_cfg):
    types(output="opaque", user_cfg="opaque")
    option(glue=True)
    # the configuration handed in is what is serialised, as it is: no key sorting (the pipeline is an ORDERED mapping), no filtering
    ensures("dumps_the_configuration", ncalls("dump") == 1, call_arg_mentions("dump", 0, 0, "user_cfg"),
            not call_mentions("dump", 0, "sort_keys"), not call_mentions("dump", 0, "default="), not call_mentions("dump", 0, "skipkeys"))
    ensures("into_config_json", ncalls("open") == 1, call_mentions("open", 0, "config.json"), call_mentions("open", 0, "output"),
            call_mentions("open", 0, "'w'"), called_before("mkdir_p", "open"))


@contract("pandora.common.save_results", props=["C19"])
def _(left, right, output):
    types(left="opaque", right="opaque", output="opaque")
    option(glue=True)
    # every product of a dataset goes to the file of that name, with that dataset's georeferencing; masks as uint16; confidence
    # bands under their indicator names
    ensures("left_disparity", call_arg_mentions("write_data_array", 0, 0, "left['disparity_map']"),
            call_mentions("write_data_array", 0, "left_disparity.tif"), call_mentions("write_data_array", 0, "crs=left.attrs['crs']"),
            call_mentions("write_data_array", 0, "transform=left.attrs['transform']"), not call_mentions("write_data_array", 0, "right"))
    ensures("every_call_is_homogeneous", all(("left" in t) != ("right" in t) for t in event_texts() if "write_data_array" in t))
    ensures("masks_are_uint16", all(("validity_mask" in t) == ("uint16" in t) for t in event_texts() if "write_data_array" in t))
    ensures("names_match", all((("['disparity_map']" in t) == ("_disparity.tif" in t))
                               and (("['confidence_measure']," in t) == ("_confidence_measure.tif" in t))
                               and (("['validity_mask']" in t) == ("_validity_mask.tif" in t))
                               and (("left[" in t) == ("left_" in t)) and (("right[" in t) == ("right_" in t))
                               for t in event_texts() if "write_data_array" in t))
    ensures("confidence_band_names", all(("indicator" in t) == ("_confidence_measure.tif" in t) for t in event_texts() if "write_data_array" in t))
    ensures("left_always_right_when_present", ncalls("write_data_array") >= 2)
