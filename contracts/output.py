# Contracts for the writers of pandora/common.py (property C19: "saved products equal the computed ones; the saved configuration
# replays").  Orchestration ("glue") mode: file and raster operations are uninterpreted, the contracts speak about the trace of calls.

@contract("pandora.common.save_config", props=["C19"])
def _(output, user_cfg):
    types(output="opaque", user_cfg="opaque")
    option(glue=True)
    # the configuration handed in is what is serialised, as it is: no key sorting (the pipeline is an ORDERED mapping), no filtering
    ensures("dumps_the_configuration", ncalls("dump") == 1, call_arg_mentions("dump", 0, 0, "user_cfg"),
            not call_mentions("dump", 0, "sort_keys"), not call_mentions("dump", 0, "default="), not call_mentions("dump", 0, "skipkeys"))
    ensures("into_config_json", ncalls("open") == 1, call_mentions("open", 0, "config.json"), call_mentions("open", 0, "output"),
            call_mentions("open", 0, "'w'"), called_before("mkdir_p", "open"))


@contract("pandora.common.save_results", props=["C19"])
def _(left, right, output):
    types(left="opaque", right="opaque", output="opaque")
    option(glue=True)
    # every product of a dataset goes to the file of that name, with that dataset's georeferencing; masks as uint16; confidence
    # bands under their indicator names
    ensures("left_disparity", call_arg_mentions("write_data_array", 0, 0, "left['disparity_map']"),
            call_mentions("write_data_array", 0, "left_disparity.tif"), call_mentions("write_data_array", 0, "crs=left.attrs['crs']"),
            call_mentions("write_data_array", 0, "transform=left.attrs['transform']"), not call_mentions("write_data_array", 0, "right"))
    ensures("every_call_is_homogeneous", all(("left" in t) != ("right" in t) for t in event_texts() if "write_data_array" in t))
    ensures("masks_are_uint16", all(("validity_mask" in t) == ("uint16" in t) for t in event_texts() if "write_data_array" in t))
    ensures("names_match", all((("['disparity_map']" in t) == ("_disparity.tif" in t))
                               and (("['confidence_measure']," in t) == ("_confidence_measure.tif" in t))
                               and (("['validity_mask']" in t) == ("_validity_mask.tif" in t))
                               and (("left[" in t) == ("left_" in t)) and (("right[" in t) == ("right_" in t))
                               for t in event_texts() if "write_data_array" in t))
    ensures("confidence_band_names", all(("indicator" in t) == ("_confidence_measure.tif" in t) for t in event_texts() if "write_data_array" in t))
    ensures("left_always_right_when_present", ncalls("write_data_array") >= 2)


# what a raster file then CONTAINS: band k of the file is plane k of the DataArray (row, col, band) -- or the array itself when it is
# 2-D -- and the file has the array's size.  The raster is an uninterpreted writer: write(a, k) stores a as band k (assumed).
@contract("pandora.common.write_data_array", props=["C19"])
def _(data_array, filename, dtype, band_names, crs, transform):
    types(data_array="opaque", filename="str", dtype="opaque", band_names="opaque", crs="opaque", transform="opaque")
    type_cases(data_array=[{"dataarray": "f32[:,:]", "dims": ["row", "col"]},
                           {"dataarray": "f32[:,:,:]", "dims": ["row", "col", "indicator"]}])
    option(no_fuzz=True)
    raises_never()
    ensures("file_holds_the_array",
            (written_file(filename).shape[0] == 1 and written_file(filename).shape[1] == data_array.data.shape[0]
             and written_file(filename).shape[2] == data_array.data.shape[1]
             and all(eq(written_file(filename)[0, r, c], data_array.data[r, c])
                     for r in range(data_array.data.shape[0]) for c in range(data_array.data.shape[1])))
            if data_array.data.ndim == 2 else
            (written_file(filename).shape[0] == data_array.data.shape[2] and written_file(filename).shape[1] == data_array.data.shape[0]
             and written_file(filename).shape[2] == data_array.data.shape[1]
             and all(eq(written_file(filename)[k, r, c], data_array.data[r, c, k])
                     for k in range(data_array.data.shape[2])
                     for r in range(data_array.data.shape[0]) for c in range(data_array.data.shape[1]))))
    invariant(1, all(eq(written_file(filename)[k, r, c], data_array.data[r, c, k])
                     for k in range(dsp - 1) for r in range(row) for c in range(col)))
