# Contracts for pandora/matching_cost/*.py (properties C02, C09).  Oracle: property statement + matching_cost.rst.

@contract("pandora.matching_cost.matching_cost.AbstractMatchingCost.point_interval", props=["C02"])
def _(self, img_left, img_right, disp):
    # columns x of the left image whose correspondent x + disp can be sampled in the (possibly 1/subpix-shifted) right
    # image: k = floor(disp); the shifted image (one column fewer) holds at column c the sample of abscissa c + frac(disp).
    types(img_left={"sizes": {"col": "int"}}, img_right={"sizes": {"col": "int"}}, disp="float")
    requires("sizes", img_left.sizes["col"] >= 1, img_right.sizes["col"] >= 0, isfinite(disp))
    requires("shifted_image", (disp == floor(disp) and img_right.sizes["col"] == img_left.sizes["col"])
             or (disp != floor(disp) and img_right.sizes["col"] == img_left.sizes["col"] - 1))
    raises_never()
    ensures("overlap", implies(min(img_left.sizes["col"], img_right.sizes["col"] - floor(disp)) > max(0, -floor(disp)),
                               result[0][0] == max(0, -floor(disp))
                               and result[0][1] == min(img_left.sizes["col"], img_right.sizes["col"] - floor(disp))
                               and result[1][0] == result[0][0] + floor(disp)
                               and result[1][1] == result[0][1] + floor(disp)))
    # no overlap at all (|disp| beyond the image width): both ranges are empty and are valid (non-wrapping) slice bounds
    ensures("no_overlap", implies(min(img_left.sizes["col"], img_right.sizes["col"] - floor(disp)) <= max(0, -floor(disp)),
                                  result[0][1] == result[0][0] and result[1][1] == result[1][0]
                                  and 0 <= result[0][0] and result[0][0] <= img_left.sizes["col"]
                                  and 0 <= result[1][0] and result[1][0] <= img_right.sizes["col"]))


@contract("pandora.matching_cost.census.Census.popcount32b", props=["C02"])
def _(row):
    # applied by map() to rows of a uint32 array: 32-bit wrap-around arithmetic
    types(row="u32")
    raises_never()
    ensures("hamming_weight", result == sum32(row))


@sampler("pandora.matching_cost.matching_cost.AbstractMatchingCost.point_interval")
def _(rng):
    import types as _t
    nx = int(rng.integers(1, 9))
    frac = float([0.0, 0.0, 0.25, 0.5, 0.75][rng.integers(0, 5)])
    disp = float(rng.integers(-10, 10)) + frac
    nxr = nx if frac == 0.0 else nx - 1
    return {"self": None, "img_left": _t.SimpleNamespace(sizes={"col": nx}), "img_right": _t.SimpleNamespace(sizes={"col": nxr}),
            "disp": disp}


# ------------------------------------------------------------------------------------------- window sums of sad / ssd (C02)
@contract("pandora.matching_cost.sad_ssd.SadSsd.pixel_wise_aggregation", props=["C02"])
def _(self, cost_volume):
    # "sum of absolute or squared differences ... between the window centred on the left pixel and the window ... in the right image":
    # every output cell is the sum of the pixel-wise costs over ITS OWN window_size x window_size window of the (enlarged) volume
    types(self={"@attrs": {"_window_size": "int"}}, cost_volume="f32[:,:,:]", result="f32[:,:,:]")
    requires("window", self._window_size >= 1, cost_volume.shape[1] >= self._window_size, cost_volume.shape[2] >= self._window_size)
    assigns()
    raises_never()
    option(no_fuzz=True)
    ensures("shape", result.shape[0] == cost_volume.shape[0] and result.shape[1] == cost_volume.shape[1] - (self._window_size - 1)
            and result.shape[2] == cost_volume.shape[2] - (self._window_size - 1))
    ensures("window_sum", all(
        eq(result[d, x, y], np.sum(cost_volume[d, x: x + self._window_size, y: y + self._window_size]))
        for d in range(cost_volume.shape[0]) for x in range(cost_volume.shape[1] - (self._window_size - 1))
        for y in range(cost_volume.shape[2] - (self._window_size - 1))))
    # NaN exactly when a pixel-wise cost of the window is not computable (pixel-wise costs are finite or NaN)
    ensures("nan_iff_window_has_nan", implies(
        all(isnan(cost_volume[d, x, y]) or isfinite(cost_volume[d, x, y])
            for d in range(cost_volume.shape[0]) for x in range(cost_volume.shape[1]) for y in range(cost_volume.shape[2])),
        all(isnan(result[d, x, y]) == any(isnan(cost_volume[d, p, q]) for p in range(x, x + self._window_size)
                                          for q in range(y, y + self._window_size))
            for d in range(cost_volume.shape[0]) for x in range(cost_volume.shape[1] - (self._window_size - 1))
            for y in range(cost_volume.shape[2] - (self._window_size - 1)))))


@contract("pandora.matching_cost.sad_ssd.SadSsd.ad_cost", props=["C02"])
def _(self, point_p, point_q, img_left, img_right):
    # monoband images: the pixel-wise absolute difference between left column p0+i and right column q0+i, row by row
    types(self={"@attrs": {"_band": "none"}}, point_p=["int", "int"], point_q=["int", "int"],
          img_left={"vars": {"im": "f32[:,:]"}}, img_right={"vars": {"im": "f32[:,:]"}}, result="f32[:,:]")
    requires("ranges", 0 <= point_p[0], point_p[0] <= point_p[1], point_p[1] <= img_left["im"].data.shape[1],
             0 <= point_q[0], point_q[0] <= point_q[1], point_q[1] <= img_right["im"].data.shape[1],
             point_p[1] - point_p[0] == point_q[1] - point_q[0], img_left["im"].data.shape[0] == img_right["im"].data.shape[0])
    assigns()
    raises_never()
    option(lazy_slices=True, no_fuzz=True)
    ensures("shape", result.shape[0] == img_left["im"].data.shape[0] and result.shape[1] == point_p[1] - point_p[0])
    ensures("absolute_difference", all(
        eq(result[y, i], abs(img_left["im"].data[y, point_p[0] + i] - img_right["im"].data[y, point_q[0] + i]))
        for y in range(img_left["im"].data.shape[0]) for i in range(point_p[1] - point_p[0])))


@contract("pandora.matching_cost.sad_ssd.SadSsd.sd_cost", props=["C02"])
def _(self, point_p, point_q, img_left, img_right):
    types(self={"@attrs": {"_band": "none"}}, point_p=["int", "int"], point_q=["int", "int"],
          img_left={"vars": {"im": "f32[:,:]"}}, img_right={"vars": {"im": "f32[:,:]"}}, result="f32[:,:]")
    requires("ranges", 0 <= point_p[0], point_p[0] <= point_p[1], point_p[1] <= img_left["im"].data.shape[1],
             0 <= point_q[0], point_q[0] <= point_q[1], point_q[1] <= img_right["im"].data.shape[1],
             point_p[1] - point_p[0] == point_q[1] - point_q[0], img_left["im"].data.shape[0] == img_right["im"].data.shape[0])
    assigns()
    raises_never()
    option(lazy_slices=True, no_fuzz=True)
    ensures("shape", result.shape[0] == img_left["im"].data.shape[0] and result.shape[1] == point_p[1] - point_p[0])
    ensures("squared_difference", all(
        eq(result[y, i], (img_left["im"].data[y, point_p[0] + i] - img_right["im"].data[y, point_q[0] + i])
           * (img_left["im"].data[y, point_p[0] + i] - img_right["im"].data[y, point_q[0] + i]))
        for y in range(img_left["im"].data.shape[0]) for i in range(point_p[1] - point_p[0])))
