# Contracts for pandora/matching_cost/*.py (properties C02, C09).  Oracle: property statement + matching_cost.rst.

@contract("pandora.matching_cost.matching_cost.AbstractMatchingCost.point_interval", props=["C02"])
def _(self, img_left, img_right, disp):
    # columns x of the left image whose correspondent x + disp can be sampled in the (possibly 1/subpix-shifted) right
    # image: k = floor(disp); the shifted image (one column fewer) holds at column c the sample of abscissa c + frac(disp).
    types(img_left={"sizes": {"col": "int"}}, img_right={"sizes": {"col": "int"}}, disp="float")
    requires("sizes", img_left.sizes["col"] >= 1, img_right.sizes["col"] >= 0, isfinite(disp))
    requires("shifted_image", (disp == floor(disp) and img_right.sizes["col"] == img_left.sizes["col"])
             or (disp != floor(disp) and img_right.sizes["col"] == img_left.sizes["col"] - 1))
    raises_never()
    ensures("overlap", implies(min(img_left.sizes["col"], img_right.sizes["col"] - floor(disp)) > max(0, -floor(disp)),
                               result[0][0] == max(0, -floor(disp))
                               and result[0][1] == min(img_left.sizes["col"], img_right.sizes["col"] - floor(disp))
                               and result[1][0] == result[0][0] + floor(disp)
                               and result[1][1] == result[0][1] + floor(disp)))
    # no overlap at all (|disp| beyond the image width): both ranges are empty and are valid (non-wrapping) slice bounds
    ensures("no_overlap", implies(min(img_left.sizes["col"], img_right.sizes["col"] - floor(disp)) <= max(0, -floor(disp)),
                                  result[0][1] == result[0][0] and result[1][1] == result[1][0]
                                  and 0 <= result[0][0] and result[0][0] <= img_left.sizes["col"]
                                  and 0 <= result[1][0] and result[1][0] <= img_right.sizes["col"]))


@contract("pandora.matching_cost.census.Census.popcount32b", props=["C02"])
def _(row):
    # applied by map() to rows of a uint32 array: 32-bit wrap-around arithmetic
    types(row="u32")
    raises_never()
    ensures("hamming_weight", result == sum32(row))


@sampler("pandora.matching_cost.matching_cost.AbstractMatchingCost.point_interval")
def _(rng):
    import types as _t
    nx = int(rng.integers(1, 9))
    frac = float([0.0, 0.0, 0.25, 0.5, 0.75][rng.integers(0, 5)])
    disp = float(rng.integers(-10, 10)) + frac
    nxr = nx if frac == 0.0 else nx - 1
    return {"self": None, "img_left": _t.SimpleNamespace(sizes={"col": nx}), "img_right": _t.SimpleNamespace(sizes={"col": nxr}),
            "disp": disp}
