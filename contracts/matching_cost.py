# Contracts for pandora/matching_cost/*.py (properties C02, C09).  Oracle: property statement + matching_cost.rst.

@contract("pandora.matching_cost.matching_cost.AbstractMatchingCost.point_interval", props=["C02"])
def _(self, img_left, img_right, disp):
    # columns x of the left image whose correspondent x + disp can be sampled in the (possibly 1/subpix-shifted) right
    # image: k = floor(disp); the shifted image (one column fewer) holds at column c the sample of abscissa c + frac(disp).
    types(img_left={"sizes": {"col": "int"}}, img_right={"sizes": {"col": "int"}}, disp="float", result=[["int", "int"], ["int", "int"]])
    requires("sizes", img_left.sizes["col"] >= 1, img_right.sizes["col"] >= 0, isfinite(disp))
    requires("shifted_image", (disp == floor(disp) and img_right.sizes["col"] == img_left.sizes["col"])
             or (disp != floor(disp) and img_right.sizes["col"] == img_left.sizes["col"] - 1))
    raises_never()
    ensures("overlap", implies(min(img_left.sizes["col"], img_right.sizes["col"] - floor(disp)) > max(0, -floor(disp)),
                               result[0][0] == max(0, -floor(disp))
                               and result[0][1] == min(img_left.sizes["col"], img_right.sizes["col"] - floor(disp))
                               and result[1][0] == result[0][0] + floor(disp)
                               and result[1][1] == result[0][1] + floor(disp)))
    # no overlap at all (|disp| beyond the image width): both ranges are empty and are valid (non-wrapping) slice bounds
    ensures("no_overlap", implies(min(img_left.sizes["col"], img_right.sizes["col"] - floor(disp)) <= max(0, -floor(disp)),
                                  result[0][1] == result[0][0] and result[1][1] == result[1][0]
                                  and 0 <= result[0][0] and result[0][0] <= img_left.sizes["col"]
                                  and 0 <= result[1][0] and result[1][0] <= img_right.sizes["col"]))


@contract("pandora.matching_cost.census.Census.popcount32b", props=["C02"])
def _(row):
    # applied by map() to rows of a uint32 array: 32-bit wrap-around arithmetic
    types(row="u32")
    raises_never()
    ensures("hamming_weight", result == sum32(row))


@sampler("pandora.matching_cost.matching_cost.AbstractMatchingCost.point_interval")
def _(rng):
    import types as _t
    nx = int(rng.integers(1, 9))
    frac = float([0.0, 0.0, 0.25, 0.5, 0.75][rng.integers(0, 5)])
    disp = float(rng.integers(-10, 10)) + frac
    nxr = nx if frac == 0.0 else nx - 1
    return {"self": None, "img_left": _t.SimpleNamespace(sizes={"col": nx}), "img_right": _t.SimpleNamespace(sizes={"col": nxr}),
            "disp": disp}


# ------------------------------------------------------------------------------------------- window sums of sad / ssd (C02)
@contract("pandora.matching_cost.sad_ssd.SadSsd.pixel_wise_aggregation", props=["C02"])
def _(self, cost_volume):
    # "sum of absolute or squared differences ... between the window centred on the left pixel and the window ... in the right image":
    # every output cell is the sum of the pixel-wise costs over ITS OWN window_size x window_size window of the (enlarged) volume
    types(self={"@attrs": {"_window_size": "int"}}, cost_volume="f32[:,:,:]", result="f32[:,:,:]")
    requires("window", self._window_size >= 1, cost_volume.shape[1] >= self._window_size, cost_volume.shape[2] >= self._window_size)
    assigns()
    raises_never()
    ensures("shape", result.shape[0] == cost_volume.shape[0] and result.shape[1] == cost_volume.shape[1] - (self._window_size - 1)
            and result.shape[2] == cost_volume.shape[2] - (self._window_size - 1))
    ensures("window_sum", all(
        eq(result[d, x, y], np.sum(cost_volume[d, x: x + self._window_size, y: y + self._window_size]))
        for d in range(cost_volume.shape[0]) for x in range(cost_volume.shape[1] - (self._window_size - 1))
        for y in range(cost_volume.shape[2] - (self._window_size - 1))))
    # NaN exactly when a pixel-wise cost of the window is not computable (pixel-wise costs are finite or NaN)
    ensures("nan_iff_window_has_nan", implies(
        all(isnan(cost_volume[d, x, y]) or isfinite(cost_volume[d, x, y])
            for d in range(cost_volume.shape[0]) for x in range(cost_volume.shape[1]) for y in range(cost_volume.shape[2])),
        all(isnan(result[d, x, y]) == any(isnan(cost_volume[d, p, q]) for p in range(x, x + self._window_size)
                                          for q in range(y, y + self._window_size))
            for d in range(cost_volume.shape[0]) for x in range(cost_volume.shape[1] - (self._window_size - 1))
            for y in range(cost_volume.shape[2] - (self._window_size - 1)))))


@contract("pandora.matching_cost.sad_ssd.SadSsd.ad_cost", props=["C02"])
def _(self, point_p, point_q, img_left, img_right):
    # monoband images: the pixel-wise absolute difference between left column p0+i and right column q0+i, row by row
    types(self={"@attrs": {"_band": "none"}}, point_p=["int", "int"], point_q=["int", "int"],
          img_left={"vars": {"im": "f32[:,:]"}}, img_right={"vars": {"im": "f32[:,:]"}}, result="f32[:,:]")
    requires("ranges", 0 <= point_p[0], point_p[0] <= point_p[1], point_p[1] <= img_left["im"].data.shape[1],
             0 <= point_q[0], point_q[0] <= point_q[1], point_q[1] <= img_right["im"].data.shape[1],
             point_p[1] - point_p[0] == point_q[1] - point_q[0], img_left["im"].data.shape[0] == img_right["im"].data.shape[0])
    assigns()
    raises_never()
    option(lazy_slices=True)
    ensures("shape", result.shape[0] == img_left["im"].data.shape[0] and result.shape[1] == point_p[1] - point_p[0])
    ensures("absolute_difference", all(
        eq(result[y, i], abs(img_left["im"].data[y, point_p[0] + i] - img_right["im"].data[y, point_q[0] + i]))
        for y in range(img_left["im"].data.shape[0]) for i in range(point_p[1] - point_p[0])))


@contract("pandora.matching_cost.sad_ssd.SadSsd.sd_cost", props=["C02"])
def _(self, point_p, point_q, img_left, img_right):
    types(self={"@attrs": {"_band": "none"}}, point_p=["int", "int"], point_q=["int", "int"],
          img_left={"vars": {"im": "f32[:,:]"}}, img_right={"vars": {"im": "f32[:,:]"}}, result="f32[:,:]")
    requires("ranges", 0 <= point_p[0], point_p[0] <= point_p[1], point_p[1] <= img_left["im"].data.shape[1],
             0 <= point_q[0], point_q[0] <= point_q[1], point_q[1] <= img_right["im"].data.shape[1],
             point_p[1] - point_p[0] == point_q[1] - point_q[0], img_left["im"].data.shape[0] == img_right["im"].data.shape[0])
    assigns()
    raises_never()
    option(lazy_slices=True, abstract_square=True)
    ensures("shape", result.shape[0] == img_left["im"].data.shape[0] and result.shape[1] == point_p[1] - point_p[0])
    ensures("squared_difference", all(
        eq(result[y, i], (img_left["im"].data[y, point_p[0] + i] - img_right["im"].data[y, point_q[0] + i]) ** 2)
        for y in range(img_left["im"].data.shape[0]) for i in range(point_p[1] - point_p[0])))


# -------------------------------------------------------------------------- the whole sad / ssd chain, pixel precision (C02)
@assumed("pandora.matching_cost.matching_cost.AbstractMatchingCost.check_band_input_mc")
def _(self, img_left, img_right):
    # with no band selected and monoband datasets the band check returns without effect (its try/except AttributeError probes of a
    # missing `band_im` coordinate are not modelled); multiband inputs are covered by the bounded stand-in
    types(img_left="opaque", img_right="opaque")


@spec
def pix(left, right, method, off, cc, rr, d) -> "float":
    # the pixel-wise cost stored at cell (cc, rr) of the ENLARGED (col, row) plane of disparity d: the absolute (sad) / squared (ssd)
    # difference between left pixel (rr-off, cc-off) and right pixel (rr-off, cc-off+d); NaN outside the image (the enlarged frame of
    # width off) and where the right pixel does not exist
    return ((abs(left[rr - off, cc - off] - right[rr - off, cc - off + d]) if method == "sad"
             else (left[rr - off, cc - off] - right[rr - off, cc - off + d]) ** 2)
            if (off <= cc and cc < off + left.shape[1] and off <= rr and rr < off + left.shape[0]
                and 0 <= cc - off + d and cc - off + d < right.shape[1]) else np.nan)


@contract("pandora.matching_cost.sad_ssd.SadSsd.compute_cost_volume", props=["C02", "C09", "C13"])
def _(self, img_left, img_right, cost_volume):
    types(self={"@attrs": {"_subpix": "int", "_band": "none", "_method": "str", "_window_size": "int"}},
          img_left={"vars": {"im": "f32[:,:]"}, "coords": {"col": "i64[:]"}, "sizes": {"row": "im.0", "col": "im.1"}},
          img_right={"vars": {"im": "f32[:,:]"}, "sizes": {"row": "im.0", "col": "im.1"}},
          cost_volume={"vars": {"cost_volume": "f32[:,:,:]"}, "coords": {"disp": "f64[:]"},
                       "attrs": {"offset_row_col": "int", "col_to_compute": "i64[:]", "type_measure": "str", "cmax": "int"}})
    attr_cases(_method=["sad", "ssd"])
    requires("pixel_precision", self._subpix == 1)
    requires("images", img_left["im"].data.shape[0] == img_right["im"].data.shape[0], img_left["im"].data.shape[1] == img_right["im"].data.shape[1],
             img_left["im"].data.shape[0] >= 1, img_left["im"].data.shape[1] >= 1,
             img_left.coords["col"].data.shape[0] == img_left["im"].data.shape[1])
    # windows of 3 and more (the single-pixel window takes another path of the code -- no enlarged frame -- whose proof obligations
    # were not stable in the solvers: left to the bounded stand-in)
    requires("window", cost_volume.attrs["offset_row_col"] >= 1, self._window_size == 2 * cost_volume.attrs["offset_row_col"] + 1,
             img_left["im"].data.shape[0] >= self._window_size, img_left["im"].data.shape[1] >= self._window_size)
    # samples are finite (no-data samples were replaced by -9999 when the datasets were built, C16)
    requires("finite_samples", all(isfinite(img_left["im"].data[r, c]) and isfinite(img_right["im"].data[r, c])
                                   for r in range(img_left["im"].data.shape[0]) for c in range(img_left["im"].data.shape[1])))
    # every column is computed (step 1): col_to_compute lists the column coordinates
    requires("all_columns", cost_volume.attrs["col_to_compute"].shape[0] == img_left["im"].data.shape[1],
             all(cost_volume.attrs["col_to_compute"][c] == img_left.coords["col"].data[0] + c for c in range(img_left["im"].data.shape[1])))
    # integer disparities (pixel precision)
    requires("disparities", cost_volume.coords["disp"].data.shape[0] >= 1,
             all(isfinite(cost_volume.coords["disp"].data[k]) and cost_volume.coords["disp"].data[k] == floor(cost_volume.coords["disp"].data[k])
                 for k in range(cost_volume.coords["disp"].data.shape[0])))
    assigns(cost_volume)
    raises_never()
    option(lazy_slices=True, budget=4, abstract_square=True)
    ensures("type_measure", result.attrs["type_measure"] == "min")
    ensures("shape", result["cost_volume"].data.shape[0] == img_left["im"].data.shape[0]
            and result["cost_volume"].data.shape[1] == img_left["im"].data.shape[1]
            and result["cost_volume"].data.shape[2] == cost_volume.coords["disp"].data.shape[0])
    # C02, sad / ssd at pixel precision: the cost of pixel (y, x) at disparity d_k is np.sum over the window_size x window_size window
    # centred on the pixel of the pixel-wise absolute / squared differences between left pixel (r, c) and right pixel (r, c + d_k)
    # -- `pix` above, laid out as the implementation's enlarged (disparity, col, row) volume: cell (k, c + off, r + off)
    ensures("cost_is_the_window_sum_of_pixel_costs", all(
        eq(result["cost_volume"].data[y, x, k],
           np.sum(array_of(lambda kk, cc, rr: pix(img_left["im"].data, img_right["im"].data, self._method, cost_volume.attrs["offset_row_col"], cc, rr,
                                                   int(cost_volume.coords["disp"].data[kk])),
                           cost_volume.coords["disp"].data.shape[0], img_left["im"].data.shape[1] + 2 * cost_volume.attrs["offset_row_col"],
                           img_left["im"].data.shape[0] + 2 * cost_volume.attrs["offset_row_col"])
                  [k, x: x + self._window_size, y: y + self._window_size]))
        for y in range(cost_volume.attrs["offset_row_col"], img_left["im"].data.shape[0] - cost_volume.attrs["offset_row_col"])
        for x in range(cost_volume.attrs["offset_row_col"], img_left["im"].data.shape[1] - cost_volume.attrs["offset_row_col"])
        for k in range(cost_volume.coords["disp"].data.shape[0])))
    # not computable where the window leaves the left image
    ensures("nan_on_the_border", all(
        isnan(result["cost_volume"].data[y, x, k])
        for y in range(img_left["im"].data.shape[0]) for x in range(img_left["im"].data.shape[1]) for k in range(cost_volume.coords["disp"].data.shape[0])
        if y < cost_volume.attrs["offset_row_col"] or y >= img_left["im"].data.shape[0] - cost_volume.attrs["offset_row_col"]
        or x < cost_volume.attrs["offset_row_col"] or x >= img_left["im"].data.shape[1] - cost_volume.attrs["offset_row_col"]))
    # cut point after the disparity loop: the enlarged volume IS the ghost volume of pixel-wise costs, cell by cell
    after(1, all(eq(cv_enlarge[k, cc, rr],
                    array_of(lambda kk, c2, r2: pix(img_left["im"].data, img_right["im"].data, self._method, cost_volume.attrs["offset_row_col"], c2, r2,
                                                    int(cost_volume.coords["disp"].data[kk])),
                             cost_volume.coords["disp"].data.shape[0], img_left["im"].data.shape[1] + 2 * cost_volume.attrs["offset_row_col"],
                             img_left["im"].data.shape[0] + 2 * cost_volume.attrs["offset_row_col"])[k, cc, rr])
                 for k in range(cost_volume.coords["disp"].data.shape[0])
                 for cc in range(img_left["im"].data.shape[1] + 2 * cost_volume.attrs["offset_row_col"])
                 for rr in range(img_left["im"].data.shape[0] + 2 * cost_volume.attrs["offset_row_col"])),
          cv_enlarge.shape[0] == cost_volume.coords["disp"].data.shape[0],
          cv_enlarge.shape[1] == img_left["im"].data.shape[1] + 2 * cost_volume.attrs["offset_row_col"],
          cv_enlarge.shape[2] == img_left["im"].data.shape[0] + 2 * cost_volume.attrs["offset_row_col"])
    invariant(1,
              all(eq(cv_enlarge[k, cc, rr], pix(img_left["im"].data, img_right["im"].data, self._method, offset_row_col, cc, rr,
                                                 int(disparity_range[k])))
                  for k in range(disp_index) for cc in range(img_left["im"].data.shape[1] + 2 * offset_row_col)
                  for rr in range(img_left["im"].data.shape[0] + 2 * offset_row_col)),
              all(isnan(cv_enlarge[k, cc, rr])
                  for k in range(disp_index, disparity_range.shape[0]) for cc in range(img_left["im"].data.shape[1] + 2 * offset_row_col)
                  for rr in range(img_left["im"].data.shape[0] + 2 * offset_row_col)))


@sampler("pandora.matching_cost.sad_ssd.SadSsd.compute_cost_volume")
def _(rng):
    import xarray as xr
    from pandora import matching_cost
    from pandora.img_tools import add_disparity
    w = int([3, 3, 5][rng.integers(0, 3)])
    h, wd = int(rng.integers(w, w + 4)), int(rng.integers(w, w + 5))
    c0 = int(rng.integers(0, 3))
    attrs = {"no_data_img": -9999, "valid_pixels": 0, "no_data_mask": 1, "crs": None, "transform": None}

    def img():
        ds = xr.Dataset({"im": (["row", "col"], (rng.integers(0, 40, size=(h, wd)) / 4.0).astype(np.float32))},
                        coords={"row": np.arange(h), "col": np.arange(c0, c0 + wd)})
        ds.attrs = dict(attrs)
        return ds
    left, right = img(), img()
    dmin = int(rng.integers(-3, 2))
    dmax = dmin + int(rng.integers(0, 4))
    left.pipe(add_disparity, disparity=[dmin, dmax], window=None)
    method = ["sad", "ssd"][rng.integers(0, 2)]
    mc = matching_cost.AbstractMatchingCost(**{"matching_cost_method": method, "window_size": w, "subpix": 1})
    grid = mc.allocate_cost_volume(left, (left["disparity"].sel(band_disp="min"), left["disparity"].sel(band_disp="max")))
    return {"self": mc, "img_left": left, "img_right": right, "cost_volume": grid}


@sampler("pandora.matching_cost.sad_ssd.SadSsd.pixel_wise_aggregation")
def _(rng):
    from pandora import matching_cost
    w = int([1, 3, 5][rng.integers(0, 3)])
    mc = matching_cost.AbstractMatchingCost(**{"matching_cost_method": "sad", "window_size": w, "subpix": 1})
    nd, nx, ny = int(rng.integers(1, 4)), int(rng.integers(w, w + 4)), int(rng.integers(w, w + 4))
    cv = (rng.integers(0, 20, size=(nd, nx, ny)) / 2.0).astype(np.float32)
    cv[rng.random((nd, nx, ny)) < 0.15] = np.nan
    return {"self": mc, "cost_volume": cv}


@sampler("pandora.matching_cost.sad_ssd.SadSsd.ad_cost")
def _(rng):
    import xarray as xr
    from pandora import matching_cost
    h, wl = int(rng.integers(1, 4)), int(rng.integers(1, 7))
    left = xr.Dataset({"im": (["row", "col"], (rng.integers(0, 40, size=(h, wl)) / 4.0).astype(np.float32))}, coords={"row": np.arange(h), "col": np.arange(wl)})
    right = xr.Dataset({"im": (["row", "col"], (rng.integers(0, 40, size=(h, wl)) / 4.0).astype(np.float32))}, coords={"row": np.arange(h), "col": np.arange(wl)})
    n = int(rng.integers(0, wl + 1))
    p0 = int(rng.integers(0, wl - n + 1))
    q0 = int(rng.integers(0, wl - n + 1))
    mc = matching_cost.AbstractMatchingCost(**{"matching_cost_method": "sad", "window_size": 1, "subpix": 1})
    return {"self": mc, "point_p": (p0, p0 + n), "point_q": (q0, q0 + n), "img_left": left, "img_right": right}


@sampler("pandora.matching_cost.sad_ssd.SadSsd.sd_cost")
def _(rng):
    import xarray as xr
    from pandora import matching_cost
    h, wl = int(rng.integers(1, 4)), int(rng.integers(1, 7))
    left = xr.Dataset({"im": (["row", "col"], (rng.integers(0, 40, size=(h, wl)) / 4.0).astype(np.float32))}, coords={"row": np.arange(h), "col": np.arange(wl)})
    right = xr.Dataset({"im": (["row", "col"], (rng.integers(0, 40, size=(h, wl)) / 4.0).astype(np.float32))}, coords={"row": np.arange(h), "col": np.arange(wl)})
    n = int(rng.integers(0, wl + 1))
    p0 = int(rng.integers(0, wl - n + 1))
    q0 = int(rng.integers(0, wl - n + 1))
    mc = matching_cost.AbstractMatchingCost(**{"matching_cost_method": "ssd", "window_size": 1, "subpix": 1})
    return {"self": mc, "point_p": (p0, p0 + n), "point_q": (q0, q0 + n), "img_left": left, "img_right": right}


# ---------------------------------------------------------------------------------------------------------------------
# C02 "the cost is NaN exactly when ... a window contains a nodata pixel or the pixel is masked": the masks that cv_masked adds to
# the cost volume come from masks_dilatation.  Proved for every image size, mask content and odd window, once per structure (mask
# variable present or not in each image): a pixel of the returned left / right mask is NaN iff the pixel is invalid in ITS OWN
# image's convention (neither that image's valid code nor its no-data code) or a no-data pixel of that image lies in the window
# centred on it; every other pixel is 0.  The shifted right mask (sub-pixel) is NaN iff one of its two neighbours is.
@contract("pandora.matching_cost.matching_cost.AbstractMatchingCost.masks_dilatation", props=["C02", "C04"])
def _(img_left, img_right, window_size, subp):
    types(img_left="opaque", img_right="opaque", window_size="int", subp="int", result="tuple")
    type_cases(img_left=[{"vars": {"im": "f32[:,:]", "msk": "i16[:,:]"}, "attrs": {"valid_pixels": "int", "no_data_mask": "int"},
                          "sizes": {"row": "im.0", "col": "im.1"}},
                         {"vars": {"im": "f32[:,:]"}, "attrs": {"valid_pixels": "int", "no_data_mask": "int"},
                          "sizes": {"row": "im.0", "col": "im.1"}}],
               img_right=[{"vars": {"im": "f32[:,:]", "msk": "i16[:,:]"}, "attrs": {"valid_pixels": "int", "no_data_mask": "int"},
                           "sizes": {"row": "im.0", "col": "im.1"}},
                          {"vars": {"im": "f32[:,:]"}, "attrs": {"valid_pixels": "int", "no_data_mask": "int"},
                           "sizes": {"row": "im.0", "col": "im.1"}}])
    cases(subp=[1, 2, 4])
    option(no_fuzz=True)
    requires("window", window_size >= 1, window_size % 2 == 1)
    requires("grids", img_left["im"].data.shape[0] == img_right["im"].data.shape[0],
             img_left["im"].data.shape[1] == img_right["im"].data.shape[1], img_left["im"].data.shape[1] >= 2,
             (img_left["msk"].data.shape[0] == img_left["im"].data.shape[0] and img_left["msk"].data.shape[1] == img_left["im"].data.shape[1])
             if "msk" in img_left.data_vars else True,
             (img_right["msk"].data.shape[0] == img_right["im"].data.shape[0] and img_right["msk"].data.shape[1] == img_right["im"].data.shape[1])
             if "msk" in img_right.data_vars else True)
    assigns()
    raises_never()
    ensures("left_mask", all(
        (isnan(result[0].data[y, x])
         == ((img_left["msk"].data[y, x] != img_left.attrs["valid_pixels"] and img_left["msk"].data[y, x] != img_left.attrs["no_data_mask"])
             or any(img_left["msk"].data[p, q] == img_left.attrs["no_data_mask"]
                    for p in range(y - window_size // 2, y + window_size // 2 + 1)
                    for q in range(x - window_size // 2, x + window_size // 2 + 1)
                    if 0 <= p and p < img_left["im"].data.shape[0] and 0 <= q and q < img_left["im"].data.shape[1])))
        and (isnan(result[0].data[y, x]) or result[0].data[y, x] == 0)
        for y in range(img_left["im"].data.shape[0]) for x in range(img_left["im"].data.shape[1]))
        if "msk" in img_left.data_vars else
        all(result[0].data[y, x] == 0 for y in range(img_left["im"].data.shape[0]) for x in range(img_left["im"].data.shape[1])))
    ensures("right_mask", all(
        (isnan(result[1][0].data[y, x])
         == ((img_right["msk"].data[y, x] != img_right.attrs["valid_pixels"] and img_right["msk"].data[y, x] != img_right.attrs["no_data_mask"])
             or any(img_right["msk"].data[p, q] == img_right.attrs["no_data_mask"]
                    for p in range(y - window_size // 2, y + window_size // 2 + 1)
                    for q in range(x - window_size // 2, x + window_size // 2 + 1)
                    if 0 <= p and p < img_right["im"].data.shape[0] and 0 <= q and q < img_right["im"].data.shape[1])))
        and (isnan(result[1][0].data[y, x]) or result[1][0].data[y, x] == 0)
        for y in range(img_right["im"].data.shape[0]) for x in range(img_right["im"].data.shape[1]))
        if "msk" in img_right.data_vars else
        all(result[1][0].data[y, x] == 0 for y in range(img_left["im"].data.shape[0]) for x in range(img_left["im"].data.shape[1])))
    # sub-pixel: one more mask, between the columns -- NaN as soon as one of the two columns it interpolates is
    ensures("shifted_right_mask",
            (result[1][1].data.shape[0] == img_left["im"].data.shape[0] and result[1][1].data.shape[1] == img_left["im"].data.shape[1] - 1
             and all(isnan(result[1][1].data[y, x]) == (isnan(result[1][0].data[y, x]) or isnan(result[1][0].data[y, x + 1]))
                     for y in range(img_left["im"].data.shape[0]) for x in range(img_left["im"].data.shape[1] - 1)))
            if subp != 1 else True)
    ensures("shapes", result[0].data.shape[0] == img_left["im"].data.shape[0], result[0].data.shape[1] == img_left["im"].data.shape[1],
            result[1][0].data.shape[0] == img_left["im"].data.shape[0], result[1][0].data.shape[1] == img_left["im"].data.shape[1])
