# Contracts for pandora/refinement/{vfit,quadratic,refinement}.py  (properties C06, C04, C18)
# Oracle: property C06 statement + docs/source/userguide/step_by_step/refinement.rst

@spec
def sgn(measure) -> "int":
    return -1 if measure == "max" else 1


@spec
def stopped(c0, c1, c2, measure) -> "bool":
    # a neighbouring cost is NaN, or the sample is not an extremum of its two neighbours
    return isnan(c0) or isnan(c2) or sgn(measure) * c1 > sgn(measure) * c0 or sgn(measure) * c1 > sgn(measure) * c2


@spec
def vfit_slope(c0, c1, c2, measure) -> "float":
    # the V is fitted on the steeper side (refinement.rst: slope p)
    return (c0 - c1) if sgn(measure) * c0 > sgn(measure) * c2 else (c2 - c1)


@contract("pandora.refinement.vfit.Vfit.refinement_method", props=["C06"],
          implements="pandora.refinement.refinement.AbstractRefinement.refinement_method")
def _(cost, disp, measure):
    types(cost="f64[3]", disp="float", measure="str")
    requires("finite_or_nan", not isinf(cost[0]), isfinite(cost[1]), not isinf(cost[2]))
    requires("measure", measure == "min" or measure == "max")
    raises_never()
    ensures("flag", result[2] == (8 if stopped(cost[0], cost[1], cost[2], measure) else 0))
    ensures("stopped_untouched", implies(stopped(cost[0], cost[1], cost[2], measure),
                                         eq(result[0], 0) and eq(result[1], cost[1])))
    ensures("half_sample", implies(not stopped(cost[0], cost[1], cost[2], measure),
                                   isfinite(result[0]) and -0.5 <= result[0] and result[0] <= 0.5))
    ensures("vfit_optimum", implies(not stopped(cost[0], cost[1], cost[2], measure)
                                    and abs(vfit_slope(cost[0], cost[1], cost[2], measure)) >= 1.0e-15,
                                    eq(result[0] * 2 * vfit_slope(cost[0], cost[1], cost[2], measure), cost[0] - cost[2])
                                    and eq(result[1], cost[2] + (result[0] - 1) * vfit_slope(cost[0], cost[1], cost[2], measure))))
    ensures("flat_curve", implies(not stopped(cost[0], cost[1], cost[2], measure)
                                  and abs(vfit_slope(cost[0], cost[1], cost[2], measure)) < 1.0e-15,
                                  eq(result[0], 0) and eq(result[1], cost[1])))
    ensures("never_worse", implies(not stopped(cost[0], cost[1], cost[2], measure),
                                   isfinite(result[1]) and sgn(measure) * result[1] <= sgn(measure) * cost[1]))


@contract("pandora.refinement.quadratic.Quadratic.refinement_method", props=["C06"],
          implements="pandora.refinement.refinement.AbstractRefinement.refinement_method")
def _(cost, disp, measure):
    types(cost="f64[3]", disp="float", measure="str")
    requires("finite_or_nan", not isinf(cost[0]), isfinite(cost[1]), not isinf(cost[2]))
    requires("measure", measure == "min" or measure == "max")
    raises_never()
    ensures("flag", result[2] == (8 if stopped(cost[0], cost[1], cost[2], measure) else 0))
    ensures("stopped_untouched", implies(stopped(cost[0], cost[1], cost[2], measure),
                                         eq(result[0], 0) and eq(result[1], cost[1])))
    ensures("half_sample", implies(not stopped(cost[0], cost[1], cost[2], measure),
                                   isfinite(result[0]) and -0.5 <= result[0] and result[0] <= 0.5))
    # parabola y = a x^2 + b x + c through (-1,c0) (0,c1) (1,c2); vertex x = -b / 2a  (refinement.rst)
    ensures("parabola_vertex", implies(not stopped(cost[0], cost[1], cost[2], measure)
                                       and (cost[0] - 2 * cost[1] + cost[2]) != 0,
                                       eq(result[0] * 2 * (cost[0] - 2 * cost[1] + cost[2]), cost[0] - cost[2])))
    ensures("parabola_value", implies(not stopped(cost[0], cost[1], cost[2], measure),
                                      eq(result[1], (cost[0] - 2 * cost[1] + cost[2]) / 2 * result[0] * result[0]
                                         + (cost[2] - cost[0]) / 2 * result[0] + cost[1])))
    ensures("flat_curve", implies(not stopped(cost[0], cost[1], cost[2], measure)
                                  and (cost[0] - 2 * cost[1] + cost[2]) == 0,
                                  eq(result[0], 0) and eq(result[1], cost[1])))
    ensures("never_worse", implies(not stopped(cost[0], cost[1], cost[2], measure),
                                   isfinite(result[1]) and sgn(measure) * result[1] <= sgn(measure) * cost[1]))
