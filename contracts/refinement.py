# Contracts for pandora/refinement/{vfit,quadratic,refinement}.py  (properties C06, C04, C18)
# Oracle: property C06 statement + docs/source/userguide/step_by_step/refinement.rst

@spec
def sgn(measure) -> "int":
    return -1 if measure == "max" else 1


@spec
def stopped(c0, c1, c2, measure) -> "bool":
    # a neighbouring cost is NaN, or the sample is not an extremum of its two neighbours
    return isnan(c0) or isnan(c2) or sgn(measure) * c1 > sgn(measure) * c0 or sgn(measure) * c1 > sgn(measure) * c2


@spec
def vfit_slope(c0, c1, c2, measure) -> "float":
    # the V is fitted on the steeper side (refinement.rst: slope p)
    return (c0 - c1) if sgn(measure) * c0 > sgn(measure) * c2 else (c2 - c1)


@contract("pandora.refinement.vfit.Vfit.refinement_method", props=["C06", "C09"],
          implements="pandora.refinement.refinement.AbstractRefinement.refinement_method")
def _(cost, disp, measure):
    types(cost="f64[3]", disp="float", measure="str")
    requires("finite_or_nan", not isinf(cost[0]), isfinite(cost[1]), not isinf(cost[2]))
    requires("measure", measure == "min" or measure == "max")
    raises_never()
    ensures("flag", result[2] == (8 if stopped(cost[0], cost[1], cost[2], measure) else 0))
    ensures("stopped_untouched", implies(stopped(cost[0], cost[1], cost[2], measure),
                                         eq(result[0], 0) and eq(result[1], cost[1])))
    ensures("half_sample", implies(not stopped(cost[0], cost[1], cost[2], measure),
                                   isfinite(result[0]) and -0.5 <= result[0] and result[0] <= 0.5))
    ensures("vfit_optimum", implies(not stopped(cost[0], cost[1], cost[2], measure)
                                    and abs(vfit_slope(cost[0], cost[1], cost[2], measure)) >= 1.0e-15,
                                    eq(result[0] * 2 * vfit_slope(cost[0], cost[1], cost[2], measure), cost[0] - cost[2])
                                    and eq(result[1], cost[2] + (result[0] - 1) * vfit_slope(cost[0], cost[1], cost[2], measure))))
    ensures("flat_curve", implies(not stopped(cost[0], cost[1], cost[2], measure)
                                  and abs(vfit_slope(cost[0], cost[1], cost[2], measure)) < 1.0e-15,
                                  eq(result[0], 0) and eq(result[1], cost[1])))
    ensures("never_worse", implies(not stopped(cost[0], cost[1], cost[2], measure),
                                   isfinite(result[1]) and sgn(measure) * result[1] <= sgn(measure) * cost[1]))


@contract("pandora.refinement.quadratic.Quadratic.refinement_method", props=["C06", "C09"],
          implements="pandora.refinement.refinement.AbstractRefinement.refinement_method")
def _(cost, disp, measure):
    types(cost="f64[3]", disp="float", measure="str")
    requires("finite_or_nan", not isinf(cost[0]), isfinite(cost[1]), not isinf(cost[2]))
    requires("measure", measure == "min" or measure == "max")
    raises_never()
    ensures("flag", result[2] == (8 if stopped(cost[0], cost[1], cost[2], measure) else 0))
    ensures("stopped_untouched", implies(stopped(cost[0], cost[1], cost[2], measure),
                                         eq(result[0], 0) and eq(result[1], cost[1])))
    ensures("half_sample", implies(not stopped(cost[0], cost[1], cost[2], measure),
                                   isfinite(result[0]) and -0.5 <= result[0] and result[0] <= 0.5))
    # parabola y = a x^2 + b x + c through (-1,c0) (0,c1) (1,c2); vertex x = -b / 2a  (refinement.rst)
    ensures("parabola_vertex", implies(not stopped(cost[0], cost[1], cost[2], measure)
                                       and (cost[0] - 2 * cost[1] + cost[2]) != 0,
                                       eq(result[0] * 2 * (cost[0] - 2 * cost[1] + cost[2]), cost[0] - cost[2])))
    ensures("parabola_value", implies(not stopped(cost[0], cost[1], cost[2], measure),
                                      eq(result[1], (cost[0] - 2 * cost[1] + cost[2]) / 2 * result[0] * result[0]
                                         + (cost[2] - cost[0]) / 2 * result[0] + cost[1])))
    ensures("flat_curve", implies(not stopped(cost[0], cost[1], cost[2], measure)
                                  and (cost[0] - 2 * cost[1] + cost[2]) == 0,
                                  eq(result[0], 0) and eq(result[1], cost[1])))
    ensures("never_worse", implies(not stopped(cost[0], cost[1], cost[2], measure),
                                   isfinite(result[1]) and sgn(measure) * result[1] <= sgn(measure) * cost[1]))


# what loop_refinement may assume of ANY refinement method (Vfit and Quadratic are proved against it too)
@contract("pandora.refinement.refinement.AbstractRefinement.refinement_method", abstract=True)
def _(cost, disp, measure):
    types(cost="f64[3]", disp="float", measure="str", result=("float", "float", "int"))
    requires("finite_or_nan", not isinf(cost[0]), isfinite(cost[1]), not isinf(cost[2]))
    requires("measure", measure == "min" or measure == "max")
    raises_never()
    ensures("flag", result[2] == (8 if stopped(cost[0], cost[1], cost[2], measure) else 0))
    ensures("stopped_untouched", implies(stopped(cost[0], cost[1], cost[2], measure), eq(result[0], 0) and eq(result[1], cost[1])))
    ensures("half_sample", implies(not stopped(cost[0], cost[1], cost[2], measure),
                                   isfinite(result[0]) and -0.5 <= result[0] and result[0] <= 0.5))
    ensures("never_worse", implies(not stopped(cost[0], cost[1], cost[2], measure),
                                   isfinite(result[1]) and sgn(measure) * result[1] <= sgn(measure) * cost[1]))


@spec
def invalid_px(m) -> "bool":
    # PANDORA_MSK_PIXEL_INVALID = bits 0, 1, 6, 7, 8, 9
    return (m & 963) != 0


@spec
def sample_index(d, d_min, subpixel) -> "int":
    return trunc((d - d_min) * subpixel)


@spec
def refined_pixel(cv, disp0, mask0, disp1, mask1, coeff, r, c, d_min, subpixel, measure) -> "bool":
    # property C06, per pixel.  k = index of the sample the pixel received.
    return (
        (eq(disp1[r, c], disp0[r, c]) and mask1[r, c] == mask0[r, c] and isnan(coeff[r, c]))
        if invalid_px(mask0[r, c]) else
        (eq(disp1[r, c], disp0[r, c]) and mask1[r, c] == mask0[r, c] and isnan(coeff[r, c]))
        if isnan(cv[r, c, sample_index(disp0[r, c], d_min, subpixel)]) else
        (eq(disp1[r, c], disp0[r, c]) and mask1[r, c] == (mask0[r, c] | 8)
         and eq(coeff[r, c], cv[r, c, sample_index(disp0[r, c], d_min, subpixel)]))
        if (sample_index(disp0[r, c], d_min, subpixel) == 0 or sample_index(disp0[r, c], d_min, subpixel) == cv.shape[2] - 1) else
        (eq(disp1[r, c], disp0[r, c]) and mask1[r, c] == (mask0[r, c] | 8)
         and eq(coeff[r, c], cv[r, c, sample_index(disp0[r, c], d_min, subpixel)]))
        if stopped(cv[r, c, sample_index(disp0[r, c], d_min, subpixel) - 1], cv[r, c, sample_index(disp0[r, c], d_min, subpixel)],
                   cv[r, c, sample_index(disp0[r, c], d_min, subpixel) + 1], measure) else
        (mask1[r, c] == mask0[r, c] and isfinite(disp1[r, c])
         and (disp1[r, c] - disp0[r, c]) * subpixel <= 0.5 and (disp1[r, c] - disp0[r, c]) * subpixel >= -0.5
         and isfinite(coeff[r, c])
         and sgn(measure) * coeff[r, c] <= sgn(measure) * cv[r, c, sample_index(disp0[r, c], d_min, subpixel)])
    )


@contract("pandora.refinement.refinement.AbstractRefinement.loop_refinement", props=["C06", "C04", "C18", "C09"])
def _(cv, disp, mask, d_min, d_max, subpixel, measure, method):
    types(cv="f32[:,:,:]", disp="f32[:,:]", mask="u16[:,:]", d_min="float", d_max="float", subpixel="int", measure="str",
          method="func:pandora.refinement.refinement.AbstractRefinement.refinement_method",
          result=("f64[:,:]", "f32[:,:]", "u16[:,:]"))
    option(replay_method="pandora.refinement.vfit.Vfit.refinement_method")
    cases(subpixel=[1, 2, 4])   # the documented sub-pixel precisions; keeps (disp - d_min) * subpixel linear
    requires("shapes", cv.shape[2] >= 1, disp.shape[0] == cv.shape[0], disp.shape[1] == cv.shape[1],
             mask.shape[0] == cv.shape[0], mask.shape[1] == cv.shape[1])
    requires("sampling", subpixel >= 1, isfinite(d_min), isfinite(d_max), (d_max - d_min) * subpixel == cv.shape[2] - 1)
    requires("measure", measure == "min" or measure == "max")
    requires("costs_finite_or_nan", all(not isinf(cv[r, c, k]) for r in range(cv.shape[0]) for c in range(cv.shape[1])
                                        for k in range(cv.shape[2])))
    # what every legal pipeline establishes for a valid pixel: a finite disparity inside the searched interval.
    # (NOT assumed: that it is one of the samples -- a filter or a previous refinement may have moved it.)
    requires("valid_in_interval", all(implies(not invalid_px(mask[r, c]), isfinite(disp[r, c]) and d_min <= disp[r, c] and disp[r, c] <= d_max)
                                      for r in range(cv.shape[0]) for c in range(cv.shape[1])))
    assigns(disp, mask)
    raises_never()
    ensures("pixelwise", all(refined_pixel(cv, old(disp), old(mask), result[1], result[2], result[0], r, c, d_min, subpixel, measure)
                             for r in range(cv.shape[0]) for c in range(cv.shape[1])))
    ensures("in_place", result[1] is disp and result[2] is mask)
    invariant(1, all(refined_pixel(cv, old(disp), old(mask), disp, mask, itp_coeff, r, c, d_min, subpixel, measure)
                     for r in range(row) for c in range(n_col)))
    invariant(2, all(refined_pixel(cv, old(disp), old(mask), disp, mask, itp_coeff, row, c, d_min, subpixel, measure)
                     for c in range(col)))


@sampler("pandora.refinement.refinement.AbstractRefinement.loop_refinement")
def _(rng):
    from pandora.refinement.vfit import Vfit
    from pandora.refinement.quadratic import Quadratic
    h, w, n = int(rng.integers(1, 4)), int(rng.integers(1, 5)), int(rng.integers(1, 6))
    sub = int([1, 2, 4][rng.integers(0, 3)])
    d_min = float(rng.integers(-3, 3))
    d_max = d_min + (n - 1) / sub
    cv = rng.integers(0, 6, size=(h, w, n)).astype(np.float32)
    cv[rng.random((h, w, n)) < 0.15] = np.nan
    # disparities of valid pixels: anywhere in [d_min, d_max] on a 1/8 grid (a filter or an earlier refinement may have
    # moved them off the samples)
    steps = int(round((d_max - d_min) * 8))
    disp = (d_min + rng.integers(0, steps + 1, size=(h, w)) / 8.0).astype(np.float32)
    mask = np.array([0, 0, 0, 4, 8, 12, 1, 64, 2, 256], dtype=np.uint16)[rng.integers(0, 10, size=(h, w))]
    return {"cv": cv, "disp": disp, "mask": mask, "d_min": d_min, "d_max": d_max, "subpixel": sub,
            "measure": ["min", "max"][rng.integers(0, 2)],
            "method": [Vfit.refinement_method, Quadratic.refinement_method][rng.integers(0, 2)]}
