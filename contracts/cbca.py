# Contracts for pandora/aggregation/cbca.py (property C11).  Oracle: property statement + aggregation.rst.
# NOTE the code's variable names col/row are swapped w.r.t. numpy axes; contracts speak in axis-0 / axis-1 terms.

@spec
def nn(x) -> "real":
    # a NaN cost is "not computable": it contributes nothing to a support-region sum
    return 0.0 if isnan(x) else x


@spec
def pre_h(cv, a, b) -> "real":
    # sum of the computable costs cv[a, 0..b]
    return 0.0 if b < 0 else pre_h(cv, a, b - 1) + nn(cv[a, b])


@contract("pandora.aggregation.cbca.cbca_step_1", props=["C11"])
def _(cv):
    types(cv="f32[:,:]", result="r32[:,:]")
    option(finite_locals=True)
    requires("finite_or_nan", all(not isinf(cv[a, b]) for a in range(cv.shape[0]) for b in range(cv.shape[1])))
    assigns()
    raises_never()
    ensures("shape", result.shape[0] == cv.shape[0] and result.shape[1] == cv.shape[1] + 1)
    ensures("prefix", all(eq(result[a, b], pre_h(cv, a, b)) for a in range(cv.shape[0]) for b in range(cv.shape[1])))
    ensures("sentinel", all(eq(result[a, cv.shape[1]], 0.0) for a in range(cv.shape[0])))
    invariant(1, all(eq(step1[a, b], pre_h(cv, a, b)) for a in range(col) for b in range(n_row_)),
              all(eq(step1[a, n_row_], 0.0) for a in range(col)))
    invariant(2, all(eq(step1[col, b], pre_h(cv, col, b)) for b in range(row)),
              eq(step1[col, n_row_], 0.0))


# ------------------------------------------------------------------------------------------------ cross_support
# arms: longest run of pixels whose intensity differs from the anchor by less than `tau`, at most L-1 pixels, inside
# the image; masked pixels are +inf in `img` so the run stops there; one-pixel minimum when the neighbour exists and is
# valid (property statement C11).

@spec
def run_l(img, a, b, j, L, tau) -> "int":
    return 0 if (j >= L or b - j < 0 or not (abs(img[a, b] - img[a, b - j]) < tau)) else 1 + run_l(img, a, b, j + 1, L, tau)


@spec
def run_r(img, a, b, j, L, tau) -> "int":
    return 0 if (j >= L or b + j >= img.shape[1] or not (abs(img[a, b] - img[a, b + j]) < tau)) else 1 + run_r(img, a, b, j + 1, L, tau)


@spec
def run_u(img, a, b, j, L, tau) -> "int":
    return 0 if (j >= L or a - j < 0 or not (abs(img[a, b] - img[a - j, b]) < tau)) else 1 + run_u(img, a, b, j + 1, L, tau)


@spec
def run_d(img, a, b, j, L, tau) -> "int":
    return 0 if (j >= L or a + j >= img.shape[0] or not (abs(img[a, b] - img[a + j, b]) < tau)) else 1 + run_d(img, a, b, j + 1, L, tau)


@spec
def arm_l(img, a, b, L, tau) -> "int":
    return 0 if not isfinite(img[a, b]) else max(run_l(img, a, b, 1, L, tau), 1 if (b >= 1 and isfinite(img[a, b - 1])) else 0)


@spec
def arm_r(img, a, b, L, tau) -> "int":
    return 0 if not isfinite(img[a, b]) else max(run_r(img, a, b, 1, L, tau), 1 if (b + 1 < img.shape[1] and isfinite(img[a, b + 1])) else 0)


@spec
def arm_u(img, a, b, L, tau) -> "int":
    return 0 if not isfinite(img[a, b]) else max(run_u(img, a, b, 1, L, tau), 1 if (a >= 1 and isfinite(img[a - 1, b])) else 0)


@spec
def arm_d(img, a, b, L, tau) -> "int":
    return 0 if not isfinite(img[a, b]) else max(run_d(img, a, b, 1, L, tau), 1 if (a + 1 < img.shape[0] and isfinite(img[a + 1, b])) else 0)


@contract("pandora.aggregation.cbca.cross_support", props=["C11"])
def _(image, len_arms, intensity):
    types(image="f32[:,:]", len_arms="int", intensity="float", result="i16[:,:,:]")
    requires("no_nan", all(not isnan(image[a, b]) for a in range(image.shape[0]) for b in range(image.shape[1])))
    requires("params", len_arms >= 1, isfinite(intensity), intensity > 0)
    assigns()
    raises_never()
    ensures("shape", result.shape[0] == image.shape[0] and result.shape[1] == image.shape[1] and result.shape[2] == 4)
    ensures("left", all(result[a, b, 0] == arm_l(image, a, b, len_arms, intensity)
                        for a in range(image.shape[0]) for b in range(image.shape[1])))
    ensures("right", all(result[a, b, 1] == arm_r(image, a, b, len_arms, intensity)
                         for a in range(image.shape[0]) for b in range(image.shape[1])))
    ensures("top", all(result[a, b, 2] == arm_u(image, a, b, len_arms, intensity)
                       for a in range(image.shape[0]) for b in range(image.shape[1])))
    ensures("bottom", all(result[a, b, 3] == arm_d(image, a, b, len_arms, intensity)
                          for a in range(image.shape[0]) for b in range(image.shape[1])))
    invariant(1, all(cross[a, b, 0] == arm_l(image, a, b, len_arms, intensity) for a in range(col) for b in range(n_row_)),
              all(cross[a, b, 1] == arm_r(image, a, b, len_arms, intensity) for a in range(col) for b in range(n_row_)),
              all(cross[a, b, 2] == arm_u(image, a, b, len_arms, intensity) for a in range(col) for b in range(n_row_)),
              all(cross[a, b, 3] == arm_d(image, a, b, len_arms, intensity) for a in range(col) for b in range(n_row_)))
    invariant(2, all(cross[col, b, 0] == arm_l(image, col, b, len_arms, intensity) for b in range(row)),
              all(cross[col, b, 1] == arm_r(image, col, b, len_arms, intensity) for b in range(row)),
              all(cross[col, b, 2] == arm_u(image, col, b, len_arms, intensity) for b in range(row)),
              all(cross[col, b, 3] == arm_d(image, col, b, len_arms, intensity) for b in range(row)))
    invariant(3, left_len >= 0, left_len == row - 1 - left,
              run_l(image, col, row, 1, len_arms, intensity) == left_len + run_l(image, col, row, row - left, len_arms, intensity))
    after(3, left_len == run_l(image, col, row, 1, len_arms, intensity), 0 <= left, left <= row,
          left_len >= 1 or (left == row - 1 and row >= 1 and len_arms >= 2) or (left == row and (row == 0 or len_arms == 1)))
    invariant(4, right_len >= 0, right_len == right - row - 1,
              run_r(image, col, row, 1, len_arms, intensity) == right_len + run_r(image, col, row, right - row, len_arms, intensity))
    after(4, right_len == run_r(image, col, row, 1, len_arms, intensity), row <= right, right < n_row_,
          right_len >= 1 or (right == row + 1 and row + 1 < n_row_ and len_arms >= 2) or (right == row and (row + 1 >= n_row_ or len_arms == 1)))
    invariant(5, up_len >= 0, up_len == col - 1 - up_col,
              run_u(image, col, row, 1, len_arms, intensity) == up_len + run_u(image, col, row, col - up_col, len_arms, intensity))
    after(5, up_len == run_u(image, col, row, 1, len_arms, intensity), 0 <= up_col, up_col <= col,
          up_len >= 1 or (up_col == col - 1 and col >= 1 and len_arms >= 2) or (up_col == col and (col == 0 or len_arms == 1)))
    invariant(6, bot_len >= 0, bot_len == bot - col - 1,
              run_d(image, col, row, 1, len_arms, intensity) == bot_len + run_d(image, col, row, bot - col, len_arms, intensity))
    after(6, bot_len == run_d(image, col, row, 1, len_arms, intensity), col <= bot, bot < n_col_,
          bot_len >= 1 or (bot == col + 1 and col + 1 < n_col_ and len_arms >= 2) or (bot == col and (col + 1 >= n_col_ or len_arms == 1)))


@sampler("pandora.aggregation.cbca.cross_support")
def _(rng):
    h, w = int(rng.integers(1, 5)), int(rng.integers(1, 6))
    vals = np.array([0.0, 1.0, 10.0, 50.0, np.inf], dtype=np.float32)
    return {"image": vals[rng.integers(0, len(vals), size=(h, w))], "len_arms": np.int16(rng.integers(1, 5)),
            "intensity": np.float32([5.0, 30.0][rng.integers(0, 2)])}


# ------------------------------------------------------------------------------------------------ steps 2..4
@spec
def comb(cl, cr, a, x, xr, side) -> "int":
    # combined arm: the shorter of the left-image arm at x and the right-image arm at the corresponding column xr
    return min(cl[a, x, side], cr[a, xr, side])


@spec
def wrap(i, n) -> "int":
    # index -1 designates the extra zero column/row (numba wrap-around)
    return i if i >= 0 else i + n


@contract("pandora.aggregation.cbca.cbca_step_2", props=["C11"])
def _(step1, cross_left, cross_right, range_col, range_col_right):
    # step1..step4 / sum2 / sum4 hold finite values only (NaN costs were skipped by step 1): finite-real arrays
    types(step1="r32[:,:]", cross_left="i16[:,:,:]", cross_right="i16[:,:,:]", range_col="i64[:]", range_col_right="i64[:]",
          result=("r32[:,:]", "r32[:,:]"))
    option(finite_locals=True)
    requires("shapes", step1.shape[1] >= 1, cross_left.shape[0] == step1.shape[0], cross_left.shape[1] == step1.shape[1] - 1,
             cross_left.shape[2] == 4, cross_right.shape[0] == step1.shape[0], cross_right.shape[2] == 4,
             range_col.shape[0] == range_col_right.shape[0])
    requires("columns", all(0 <= range_col[k] and range_col[k] < step1.shape[1] - 1 and 0 <= range_col_right[k]
                            and range_col_right[k] < cross_right.shape[1] for k in range(range_col.shape[0])))
    # what the only caller establishes: the listed columns are a contiguous run (np.where over an arange)
    requires("contiguous", all(range_col[k] == range_col[0] + k for k in range(range_col.shape[0])))
    requires("arms_left", all(0 <= cross_left[a, b, 0] and cross_left[a, b, 0] <= b and 0 <= cross_left[a, b, 1]
                              and b + cross_left[a, b, 1] <= step1.shape[1] - 2
                              for a in range(cross_left.shape[0]) for b in range(cross_left.shape[1])))
    requires("arms_right", all(0 <= cross_right[a, b, 0] and 0 <= cross_right[a, b, 1]
                               for a in range(cross_right.shape[0]) for b in range(cross_right.shape[1])))
    assigns()
    raises_never()
    ensures("shape", result[0].shape[0] == step1.shape[0] and result[0].shape[1] == step1.shape[1] - 1
            and result[1].shape[0] == step1.shape[0] and result[1].shape[1] == step1.shape[1] - 1)
    ensures("listed", all(eq(result[0][a, range_col[k]],
                             step1[a, range_col[k] + comb(cross_left, cross_right, a, range_col[k], range_col_right[k], 1)]
                             - step1[a, wrap(range_col[k] - comb(cross_left, cross_right, a, range_col[k], range_col_right[k], 0) - 1, step1.shape[1])])
                          for a in range(step1.shape[0]) for k in range(range_col.shape[0])))
    ensures("listed_count", all(eq(result[1][a, range_col[k]],
                                   comb(cross_left, cross_right, a, range_col[k], range_col_right[k], 1)
                                   + comb(cross_left, cross_right, a, range_col[k], range_col_right[k], 0))
                                for a in range(step1.shape[0]) for k in range(range_col.shape[0])))
    ensures("unlisted", all(implies(range_col.shape[0] == 0 or b < range_col[0] or b >= range_col[0] + range_col.shape[0],
                                    eq(result[0][a, b], 0.0) and eq(result[1][a, b], 0.0))
                            for a in range(step1.shape[0]) for b in range(step1.shape[1] - 1)))
    invariant(1, all(eq(step2[a, range_col[k]],
                        step1[a, range_col[k] + comb(cross_left, cross_right, a, range_col[k], range_col_right[k], 1)]
                        - step1[a, wrap(range_col[k] - comb(cross_left, cross_right, a, range_col[k], range_col_right[k], 0) - 1, step1.shape[1])])
                     for a in range(col) for k in range(range_col.shape[0])),
              all(eq(sum_step2[a, range_col[k]], comb(cross_left, cross_right, a, range_col[k], range_col_right[k], 1)
                     + comb(cross_left, cross_right, a, range_col[k], range_col_right[k], 0))
                  for a in range(col) for k in range(range_col.shape[0])),
              all(implies(range_col.shape[0] == 0 or b < range_col[0] or b >= range_col[0] + range_col.shape[0],
                          eq(step2[a, b], 0.0) and eq(sum_step2[a, b], 0.0))
                  for a in range(col) for b in range(step1.shape[1] - 1)))
    invariant(2, all(eq(step2[col, range_col[k]],
                        step1[col, range_col[k] + comb(cross_left, cross_right, col, range_col[k], range_col_right[k], 1)]
                        - step1[col, wrap(range_col[k] - comb(cross_left, cross_right, col, range_col[k], range_col_right[k], 0) - 1, step1.shape[1])])
                     for k in range(row)),
              all(eq(sum_step2[col, range_col[k]], comb(cross_left, cross_right, col, range_col[k], range_col_right[k], 1)
                     + comb(cross_left, cross_right, col, range_col[k], range_col_right[k], 0)) for k in range(row)),
              all(implies(row == 0 or b < range_col[0] or b >= range_col[0] + row, eq(step2[col, b], 0.0) and eq(sum_step2[col, b], 0.0))
                  for b in range(step1.shape[1] - 1)))


@spec
def pre_v(s, a, b) -> "real":
    # plain cumulative sum down axis 0: s[0,b] + ... + s[a,b]
    return s[0, b] if a <= 0 else pre_v(s, a - 1, b) + s[a, b]


@contract("pandora.aggregation.cbca.cbca_step_3", props=["C11"])
def _(step2):
    types(step2="r32[:,:]", result="r32[:,:]")
    option(finite_locals=True)
    requires("nonempty", step2.shape[0] >= 1)
    assigns()
    raises_never()
    ensures("shape", result.shape[0] == step2.shape[0] + 1 and result.shape[1] == step2.shape[1])
    ensures("prefix", all(eq(result[a, b], pre_v(step2, a, b)) for a in range(step2.shape[0]) for b in range(step2.shape[1])))
    ensures("sentinel", all(eq(result[step2.shape[0], b], 0.0) for b in range(step2.shape[1])))
    invariant(1, all(eq(step3[a, b], pre_v(step2, a, b)) for a in range(col) for b in range(n_row_)))
    invariant(2, all(eq(step3[a, b], pre_v(step2, a, b)) for a in range(col) for b in range(n_row_)),
              all(eq(step3[col, b], pre_v(step2, col, b)) for b in range(row)))


@contract("pandora.aggregation.cbca.cbca_step_4", props=["C11"])
def _(step3, sum2, cross_left, cross_right, range_col, range_col_right):
    types(step3="r32[:,:]", sum2="r32[:,:]", cross_left="i16[:,:,:]", cross_right="i16[:,:,:]", range_col="i64[:]",
          range_col_right="i64[:]", result=("r32[:,:]", "r32[:,:]"))
    option(finite_locals=True)
    requires("shapes", step3.shape[0] >= 1, sum2.shape[0] == step3.shape[0] - 1, sum2.shape[1] == step3.shape[1],
             cross_left.shape[0] == step3.shape[0] - 1, cross_left.shape[1] == step3.shape[1], cross_left.shape[2] == 4,
             cross_right.shape[0] == step3.shape[0] - 1, cross_right.shape[2] == 4, range_col.shape[0] == range_col_right.shape[0])
    requires("columns", all(0 <= range_col[k] and range_col[k] < step3.shape[1] and 0 <= range_col_right[k]
                            and range_col_right[k] < cross_right.shape[1] for k in range(range_col.shape[0])))
    requires("contiguous", all(range_col[k] == range_col[0] + k for k in range(range_col.shape[0])))
    requires("arms_left", all(0 <= cross_left[a, b, 2] and cross_left[a, b, 2] <= a and 0 <= cross_left[a, b, 3]
                              and a + cross_left[a, b, 3] <= step3.shape[0] - 2
                              for a in range(cross_left.shape[0]) for b in range(cross_left.shape[1])))
    requires("arms_right", all(0 <= cross_right[a, b, 2] and 0 <= cross_right[a, b, 3]
                               for a in range(cross_right.shape[0]) for b in range(cross_right.shape[1])))
    assigns()
    raises_never()
    ensures("shape", result[0].shape[0] == step3.shape[0] - 1 and result[0].shape[1] == step3.shape[1]
            and result[1].shape[0] == step3.shape[0] - 1 and result[1].shape[1] == step3.shape[1])
    ensures("listed", all(eq(result[0][a, range_col[k]],
                             step3[a + comb(cross_left, cross_right, a, range_col[k], range_col_right[k], 3), range_col[k]]
                             - step3[wrap(a - comb(cross_left, cross_right, a, range_col[k], range_col_right[k], 2) - 1, step3.shape[0]), range_col[k]])
                          for a in range(step3.shape[0] - 1) for k in range(range_col.shape[0])))
    ensures("listed_count", all(eq(result[1][a, range_col[k]],
                                   sum2[a, range_col[k]]
                                   + (comb(cross_left, cross_right, a, range_col[k], range_col_right[k], 2)
                                      + comb(cross_left, cross_right, a, range_col[k], range_col_right[k], 3))
                                   + np.sum(sum2[a - comb(cross_left, cross_right, a, range_col[k], range_col_right[k], 2): a, range_col[k]])
                                   + np.sum(sum2[a + 1: a + comb(cross_left, cross_right, a, range_col[k], range_col_right[k], 3) + 1, range_col[k]]))
                                for a in range(step3.shape[0] - 1) for k in range(range_col.shape[0])))
    ensures("unlisted", all(implies(range_col.shape[0] == 0 or b < range_col[0] or b >= range_col[0] + range_col.shape[0],
                                    eq(result[0][a, b], 0.0) and eq(result[1][a, b], sum2[a, b]))
                            for a in range(step3.shape[0] - 1) for b in range(step3.shape[1])))
    invariant(1, all(eq(step4[a, range_col[k]],
                        step3[a + comb(cross_left, cross_right, a, range_col[k], range_col_right[k], 3), range_col[k]]
                        - step3[wrap(a - comb(cross_left, cross_right, a, range_col[k], range_col_right[k], 2) - 1, step3.shape[0]), range_col[k]])
                     for a in range(col) for k in range(range_col.shape[0])),
              all(eq(sum4[a, range_col[k]],
                     sum2[a, range_col[k]]
                     + (comb(cross_left, cross_right, a, range_col[k], range_col_right[k], 2)
                        + comb(cross_left, cross_right, a, range_col[k], range_col_right[k], 3))
                     + np.sum(sum2[a - comb(cross_left, cross_right, a, range_col[k], range_col_right[k], 2): a, range_col[k]])
                     + np.sum(sum2[a + 1: a + comb(cross_left, cross_right, a, range_col[k], range_col_right[k], 3) + 1, range_col[k]]))
                  for a in range(col) for k in range(range_col.shape[0])),
              all(implies(range_col.shape[0] == 0 or b < range_col[0] or b >= range_col[0] + range_col.shape[0],
                          eq(step4[a, b], 0.0) and eq(sum4[a, b], sum2[a, b]))
                  for a in range(col) for b in range(step3.shape[1])),
              all(eq(sum4[a, b], sum2[a, b]) for a in range(col, step3.shape[0] - 1) for b in range(step3.shape[1])))
    invariant(2, all(eq(step4[col, range_col[k]],
                        step3[col + comb(cross_left, cross_right, col, range_col[k], range_col_right[k], 3), range_col[k]]
                        - step3[wrap(col - comb(cross_left, cross_right, col, range_col[k], range_col_right[k], 2) - 1, step3.shape[0]), range_col[k]])
                     for k in range(row)),
              all(eq(sum4[col, range_col[k]],
                     sum2[col, range_col[k]]
                     + (comb(cross_left, cross_right, col, range_col[k], range_col_right[k], 2)
                        + comb(cross_left, cross_right, col, range_col[k], range_col_right[k], 3))
                     + np.sum(sum2[col - comb(cross_left, cross_right, col, range_col[k], range_col_right[k], 2): col, range_col[k]])
                     + np.sum(sum2[col + 1: col + comb(cross_left, cross_right, col, range_col[k], range_col_right[k], 3) + 1, range_col[k]]))
                  for k in range(row)),
              all(implies(row == 0 or b < range_col[0] or b >= range_col[0] + row, eq(step4[col, b], 0.0) and eq(sum4[col, b], sum2[col, b]))
                  for b in range(step3.shape[1])))


@sampler("pandora.aggregation.cbca.cbca_step_2")
def _(rng):
    from pandora.aggregation.cbca import cross_support
    h, w = int(rng.integers(1, 5)), int(rng.integers(1, 7))
    vals = np.array([0.0, 1.0, 10.0, 50.0, np.inf], dtype=np.float32)
    L = np.int16(rng.integers(1, 5))
    cl = cross_support(vals[rng.integers(0, 5, size=(h, w))], L, np.float32(30.0))
    wr = int(rng.integers(1, 7))
    cr = cross_support(vals[rng.integers(0, 5, size=(h, wr))], L, np.float32(30.0))
    d = int(rng.integers(-3, 4))
    cols = np.arange(w)
    ok = (cols + d >= 0) & (cols + d < wr)
    step1 = np.zeros((h, w + 1), dtype=np.float32)
    step1[:, :w] = np.cumsum(rng.integers(0, 5, size=(h, w)), axis=1)
    return {"step1": step1, "cross_left": cl, "cross_right": cr, "range_col": cols[ok].astype(np.int64),
            "range_col_right": (cols[ok] + d).astype(np.int64)}


@sampler("pandora.aggregation.cbca.cbca_step_3")
def _(rng):
    h, w = int(rng.integers(1, 5)), int(rng.integers(0, 6))
    return {"step2": rng.integers(-3, 9, size=(h, w)).astype(np.float32)}


@sampler("pandora.aggregation.cbca.cbca_step_4")
def _(rng):
    from pandora.aggregation.cbca import cross_support
    h, w = int(rng.integers(1, 6)), int(rng.integers(1, 6))
    vals = np.array([0.0, 1.0, 10.0, 50.0, np.inf], dtype=np.float32)
    L = np.int16(rng.integers(1, 5))
    cl = cross_support(vals[rng.integers(0, 5, size=(h, w))], L, np.float32(30.0))
    wr = int(rng.integers(1, 7))
    cr = cross_support(vals[rng.integers(0, 5, size=(h, wr))], L, np.float32(30.0))
    d = int(rng.integers(-3, 4))
    cols = np.arange(w)
    ok = (cols + d >= 0) & (cols + d < wr)
    step3 = np.zeros((h + 1, w), dtype=np.float32)
    step3[:h, :] = np.cumsum(rng.integers(0, 5, size=(h, w)), axis=0)
    return {"step3": step3, "sum2": rng.integers(0, 7, size=(h, w)).astype(np.float32), "cross_left": cl, "cross_right": cr,
            "range_col": cols[ok].astype(np.int64), "range_col_right": (cols[ok] + d).astype(np.int64)}


# ------------------------------------------------------------------------------------------------ frame (C18)
@contract("pandora.aggregation.cbca.CrossBasedCostAggregation.computes_cross_supports", props=["C18", "C11"])
def _(self, img_left, img_right, cv):
    # C18: a run leaves the caller's image datasets exactly as it received them: every store of this function goes to an
    # array it allocated itself (np.copy before the NaN masking)
    types(img_left={"vars": {"im": "f32[:,:]", "msk": "i16[:,:]"}, "attrs": {"valid_pixels": "int"}},
          img_right={"vars": {"im": "f32[:,:]", "msk": "i16[:,:]"}, "attrs": {"valid_pixels": "int"}},
          cv={"vars": {"cost_volume": "f32[:,:,:]"}, "attrs": {"subpixel": "int", "offset_row_col": "int"}})
    option(frame_only=True)
    assigns()
