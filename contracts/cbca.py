# Contracts for pandora/aggregation/cbca.py (property C11).  Oracle: property statement + aggregation.rst.
# NOTE the code's variable names col/row are swapped w.r.t. numpy axes; contracts speak in axis-0 / axis-1 terms.

@spec
def nn(x) -> "real":
    # a NaN cost is "not computable": it contributes nothing to a support-region sum
    return 0.0 if isnan(x) else x


@spec
def pre_h(cv, a, b) -> "real":
    # sum of the computable costs cv[a, 0..b]
    return 0.0 if b < 0 else pre_h(cv, a, b - 1) + nn(cv[a, b])


@contract("pandora.aggregation.cbca.cbca_step_1", props=["C11"])
def _(cv):
    types(cv="f32[:,:]", result="f32[:,:]")
    requires("finite_or_nan", all(not isinf(cv[a, b]) for a in range(cv.shape[0]) for b in range(cv.shape[1])))
    assigns()
    raises_never()
    ensures("shape", result.shape[0] == cv.shape[0] and result.shape[1] == cv.shape[1] + 1)
    ensures("prefix", all(eq(result[a, b], pre_h(cv, a, b)) for a in range(cv.shape[0]) for b in range(cv.shape[1])))
    ensures("sentinel", all(eq(result[a, cv.shape[1]], 0.0) for a in range(cv.shape[0])))
    invariant(1, all(eq(step1[a, b], pre_h(cv, a, b)) for a in range(col) for b in range(n_row_)),
              all(eq(step1[a, n_row_], 0.0) for a in range(col)))
    invariant(2, all(eq(step1[col, b], pre_h(cv, col, b)) for b in range(row)),
              eq(step1[col, n_row_], 0.0))
