# Contracts for the dataset builders of pandora/img_tools.py (property C16).  Oracle: property statement.
# "a mask in which a pixel is no-data exactly when an image sample equals the nodata value (NaN or +-inf included, such samples
#  being replaced by -9999), invalid exactly when the input mask is non-zero there and it is not no-data, and valid otherwise (no
#  mask variable at all when there is nothing to flag)"

@contract("pandora.img_tools.add_no_data", props=["C16"])
def _(dataset, no_data, no_data_pixels):
    # monoband image; no_data_pixels = np.where(samples equal to the nodata value)
    types(dataset={"vars": {"im": "f32[:,:]"}, "attrs": {"no_data_img": "float"}}, no_data="float", no_data_pixels="where2d")
    requires("grid", no_data_pixels.mask.shape[0] == dataset["im"].data.shape[0], no_data_pixels.mask.shape[1] == dataset["im"].data.shape[1])
    assigns(dataset)
    raises_never()
    option(no_fuzz=True)
    # NaN / infinite no-data samples are replaced by -9999 (and only those samples change)
    ensures("samples", all(eq(result["im"].data[y, x], (-9999 if no_data_pixels.mask[y, x] and (isnan(no_data) or isinf(no_data))
                                                         else old(dataset["im"].data)[y, x]))
                           for y in range(dataset["im"].data.shape[0]) for x in range(dataset["im"].data.shape[1])))
    ensures("attribute", eq(result.attrs["no_data_img"],
                            (-9999 if (isnan(no_data) or isinf(no_data)) and any(
                                no_data_pixels.mask[y, x] for y in range(dataset["im"].data.shape[0]) for x in range(dataset["im"].data.shape[1]))
                             else no_data)))


@contract("pandora.img_tools.add_mask", props=["C16"])
def _(dataset, mask, no_data_pixels, width, height, window):
    types(dataset={"vars": {"im": "f32[:,:]"}, "attrs": {"valid_pixels": "int", "no_data_mask": "int"}}, mask="str",
          no_data_pixels="where2d", width="int", height="int", window="opaque")
    cases(mask=[None, "mask.tif"])
    requires("grid", height == dataset["im"].data.shape[0], width == dataset["im"].data.shape[1], height >= 0, width >= 0,
             no_data_pixels.mask.shape[0] == height, no_data_pixels.mask.shape[1] == width)
    # the mask file has the size of the image window (checked by the input checker, C17)
    requires("mask_file", implies(mask is not None, rasterio_open(mask).read(1, window=window).shape[0] == height
                                  and rasterio_open(mask).read(1, window=window).shape[1] == width))
    # the three codes are distinct (defaults: valid 0, no-data 1, invalid 2)
    requires("codes", dataset.attrs["valid_pixels"] != dataset.attrs["no_data_mask"],
             dataset.attrs["valid_pixels"] + dataset.attrs["no_data_mask"] + 1 != dataset.attrs["valid_pixels"],
             dataset.attrs["valid_pixels"] + dataset.attrs["no_data_mask"] + 1 != dataset.attrs["no_data_mask"],
             -32768 <= dataset.attrs["valid_pixels"], dataset.attrs["valid_pixels"] <= 32767,
             -32768 <= dataset.attrs["no_data_mask"], dataset.attrs["no_data_mask"] <= 32767,
             dataset.attrs["valid_pixels"] + dataset.attrs["no_data_mask"] + 1 <= 32767,
             -32768 <= dataset.attrs["valid_pixels"] + dataset.attrs["no_data_mask"] + 1)
    assigns(dataset)
    raises_never()
    option(no_fuzz=True)
    # no mask variable at all when there is nothing to flag
    ensures("no_mask_when_nothing_to_flag", ("msk" in result) == (
        mask is not None or any(no_data_pixels.mask[y, x] for y in range(height) for x in range(width))))
    # no-data exactly on the no-data samples; invalid exactly where the input mask is non-zero and the pixel is not no-data; valid otherwise
    ensures("codes", implies("msk" in result, all(
        result["msk"].data[y, x] == (
            dataset.attrs["no_data_mask"] if no_data_pixels.mask[y, x]
            else dataset.attrs["valid_pixels"] + dataset.attrs["no_data_mask"] + 1
            if (mask is not None and rasterio_open(mask).read(1, window=window)[y, x] != 0)
            else dataset.attrs["valid_pixels"])
        for y in range(height) for x in range(width))))


# C16 "the disparity variable is the [min, max] pair broadcast ...": add_disparity with a pair of integers, for every image size
@contract("pandora.img_tools.add_disparity", props=["C16"])
def _(dataset, disparity, window):
    types(dataset={"vars": {"im": "f32[:,:]"}, "coords": {"row": "i64[:]", "col": "i64[:]"}, "dims": {"im": ["row", "col"]},
                   "attrs": {"no_data_img": "int"}, "sizes": {"row": "im.0", "col": "im.1"}},
          disparity="opaque", window="opaque", result="opaque")
    type_cases(disparity=[None, "i64[2]"])
    option(no_fuzz=True)
    raises_never()
    ensures("no_disparity_no_variable", ("disparity" not in result.data_vars and result.attrs["disparity_source"] is None)
            if disparity is None else True)
    ensures("pair_broadcast",
            (result["disparity"].data.shape[0] == 2 and result["disparity"].data.shape[1] == dataset["im"].data.shape[0]
             and result["disparity"].data.shape[2] == dataset["im"].data.shape[1]
             and all(result["disparity"].data[0, r, c] == disparity[0] and result["disparity"].data[1, r, c] == disparity[1]
                     for r in range(dataset["im"].data.shape[0]) for c in range(dataset["im"].data.shape[1]))
             and result.coords["band_disp"].data.shape[0] == 2
             and result.coords["band_disp"].data[0] == "min" and result.coords["band_disp"].data[1] == "max")
            if disparity is not None else True)
    ensures("image_untouched", all(eq(result["im"].data[r, c], old(dataset["im"].data)[r, c])
                                   for r in range(dataset["im"].data.shape[0]) for c in range(dataset["im"].data.shape[1])))
