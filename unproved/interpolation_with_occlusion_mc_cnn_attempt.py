# Contracts for pandora/validation/interpolated_disparity.py (properties C14, C04).  Oracle: property C14 statement.

@spec
def occlusion_filled(v0, v1) -> "bool":
    # bit 8 replaced by bit 4, nothing else changes
    return v1 == ((v0 & 65279) | 16)


@spec
def mismatch_filled(v0, v1) -> "bool":
    # bit 9 replaced by bit 5, nothing else changes
    return v1 == ((v0 & 65023) | 32)


@spec
def mismatch_to_occlusion(v0, v1) -> "bool":
    return v1 == ((v0 & 65023) | 256)


@spec
def sgm_dirs() -> "int":
    return 0


@spec
def occ_sgm_pixel(disp, valid, d1, v1, c, r) -> "bool":
    # C14: only pixels flagged occlusion may change; a filled pixel takes a (non-NaN) disparity found along one of the
    # 8 scan directions and trades bit 8 for bit 4; otherwise it stays exactly as it was
    return (
        (eq(d1[c, r], disp[c, r]) and v1[c, r] == valid[c, r])
        if (valid[c, r] & 256) == 0 else
        ((eq(d1[c, r], disp[c, r]) and v1[c, r] == valid[c, r])
         or (occlusion_filled(valid[c, r], v1[c, r]) and not isnan(d1[c, r])
             and any(eq(d1[c, r], walk(disp, valid, r + dd[0], c + dd[1], dd[0], dd[1]))
                     for dd in [[0, 1], [-1, 1], [-1, 0], [-1, -1], [0, -1], [1, -1], [1, 0], [1, 1]])))
    )


@contract("pandora.validation.interpolated_disparity.SgmInterpolation.interpolate_occlusion_sgm", props=["C14", "C04", "C09"])
def _(disp, valid):
    types(disp="f32[:,:]", valid="u16[:,:]", result=("f32[:,:]", "u16[:,:]"))
    option(opaque=["walk"])   # only equalities between walk(...) terms are needed here, not its definition
    requires("shapes", valid.shape[0] == disp.shape[0], valid.shape[1] == disp.shape[1])
    assigns()
    raises_never()
    ensures("shape", result[0].shape[0] == disp.shape[0] and result[0].shape[1] == disp.shape[1]
            and result[1].shape[0] == disp.shape[0] and result[1].shape[1] == disp.shape[1])
    ensures("pixelwise", all(occ_sgm_pixel(disp, valid, result[0], result[1], c, r)
                             for c in range(disp.shape[0]) for r in range(disp.shape[1])))
    invariant(1, all(occ_sgm_pixel(disp, valid, out_disp, out_val, c, r) for c in range(col) for r in range(nrow)))
    invariant(2, all(occ_sgm_pixel(disp, valid, out_disp, out_val, col, r) for r in range(row)))


@sampler("pandora.validation.interpolated_disparity.SgmInterpolation.interpolate_occlusion_sgm")
def _(rng):
    h, w = int(rng.integers(1, 5)), int(rng.integers(1, 6))
    return {"disp": rng.integers(-2, 3, size=(h, w)).astype(np.float32),
            "valid": np.array([0, 0, 4, 1, 64, 256, 256, 512, 8, 16, 272], dtype=np.uint16)[rng.integers(0, 11, size=(h, w))]}


@spec
def valid_px(valid, a, b) -> "bool":
    return (valid[a, b] & 963) == 0


@spec
def mis_sgm_pixel(disp, valid, d1, v1, c, r) -> "bool":
    # C14 (sgm): only pixels flagged mismatch may change; a mismatch touching an occlusion (3x3, clipped) becomes an
    # occlusion; otherwise it is either left as it was or filled with a non-NaN value lying between two valid disparities
    # found along the 8 scan directions, trading bit 9 for bit 5
    return (
        (eq(d1[c, r], disp[c, r]) and v1[c, r] == valid[c, r])
        if (valid[c, r] & 512) == 0 else
        (eq(d1[c, r], disp[c, r]) and mismatch_to_occlusion(valid[c, r], v1[c, r]))
        if any((valid[a, b] & 256) != 0 for a in range(max(0, c - 1), min(disp.shape[0] - 1, c + 1) + 1)
               for b in range(max(0, r - 1), min(disp.shape[1] - 1, r + 1) + 1)) else
        ((eq(d1[c, r], disp[c, r]) and v1[c, r] == valid[c, r])
         or (mismatch_filled(valid[c, r], v1[c, r]) and not isnan(d1[c, r])
             and any(not isnan(walk(disp, valid, r + dd[0], c + dd[1], dd[0], dd[1]))
                     and walk(disp, valid, r + dd[0], c + dd[1], dd[0], dd[1]) <= d1[c, r]
                     for dd in [[0, 1], [-1, 1], [-1, 0], [-1, -1], [0, -1], [1, -1], [1, 0], [1, 1]])
             and any(not isnan(walk(disp, valid, r + dd[0], c + dd[1], dd[0], dd[1]))
                     and walk(disp, valid, r + dd[0], c + dd[1], dd[0], dd[1]) >= d1[c, r]
                     for dd in [[0, 1], [-1, 1], [-1, 0], [-1, -1], [0, -1], [1, -1], [1, 0], [1, 1]])))
    )


@contract("pandora.validation.interpolated_disparity.SgmInterpolation.interpolate_mismatch_sgm", props=["C14", "C04", "C09"])
def _(disp, valid):
    types(disp="f32[:,:]", valid="u16[:,:]", result=("f32[:,:]", "u16[:,:]"))
    option(opaque=["walk"])
    requires("shapes", valid.shape[0] == disp.shape[0], valid.shape[1] == disp.shape[1])
    assigns()
    raises_never()
    ensures("shape", result[0].shape[0] == disp.shape[0] and result[0].shape[1] == disp.shape[1]
            and result[1].shape[0] == disp.shape[0] and result[1].shape[1] == disp.shape[1])
    ensures("pixelwise", all(mis_sgm_pixel(disp, valid, result[0], result[1], c, r)
                             for c in range(disp.shape[0]) for r in range(disp.shape[1])))
    invariant(1, all(mis_sgm_pixel(disp, valid, out_disp, out_val, c, r) for c in range(col) for r in range(nrow)))
    invariant(2, all(mis_sgm_pixel(disp, valid, out_disp, out_val, col, r) for r in range(row)))


@sampler("pandora.validation.interpolated_disparity.SgmInterpolation.interpolate_mismatch_sgm")
def _(rng):
    h, w = int(rng.integers(1, 5)), int(rng.integers(1, 6))
    return {"disp": rng.integers(-2, 3, size=(h, w)).astype(np.float32),
            "valid": np.array([0, 0, 4, 1, 64, 256, 512, 512, 8, 32, 544], dtype=np.uint16)[rng.integers(0, 11, size=(h, w))]}


@spec
def mis_mc_cnn_pixel(disp, valid, d1, v1, c, r) -> "bool":
    # C14 (mc-cnn): only pixels flagged mismatch may change; a filled one trades bit 9 for bit 5 and gets a non-NaN value
    # between the disparities of two valid pixels of the map; otherwise the pixel is left exactly as it was
    return (
        (eq(d1[c, r], disp[c, r]) and v1[c, r] == valid[c, r])
        if (valid[c, r] & 512) == 0 else
        ((eq(d1[c, r], disp[c, r]) and v1[c, r] == valid[c, r])
         or (mismatch_filled(valid[c, r], v1[c, r]) and not isnan(d1[c, r])
             and any(valid_px(valid, a, b) and disp[a, b] <= d1[c, r] for a in range(disp.shape[0]) for b in range(disp.shape[1]))
             and any(valid_px(valid, a, b) and disp[a, b] >= d1[c, r] for a in range(disp.shape[0]) for b in range(disp.shape[1]))))
    )


@contract("pandora.validation.interpolated_disparity.McCnnInterpolation.interpolate_mismatch_mc_cnn", props=["C14", "C04", "C09"])
def _(disp, valid):
    types(disp="f32[:,:]", valid="u16[:,:]", result=("f32[:,:]", "u16[:,:]"))
    requires("shapes", valid.shape[0] == disp.shape[0], valid.shape[1] == disp.shape[1])
    assigns()
    raises_never()
    unroll(3)
    ensures("shape", result[0].shape[0] == disp.shape[0] and result[0].shape[1] == disp.shape[1]
            and result[1].shape[0] == disp.shape[0] and result[1].shape[1] == disp.shape[1])
    ensures("pixelwise", all(mis_mc_cnn_pixel(disp, valid, result[0], result[1], c, r)
                             for c in range(disp.shape[0]) for r in range(disp.shape[1])))
    invariant(1, all(mis_mc_cnn_pixel(disp, valid, out_disp, out_val, c, r) for c in range(col) for r in range(nrow)))
    invariant(2, all(mis_mc_cnn_pixel(disp, valid, out_disp, out_val, col, r) for r in range(row)))
    invariant(4, isnan(interp_mismatched[direction]))
    # loop summary, accumulated over the directions already scanned: each slot is NaN or the disparity of a valid pixel of
    # the map; the slots of the directions still to come are NaN (np.full(16, nan))
    after(4, all(isnan(interp_mismatched[e])
                 or any(valid_px(valid, a, b) and eq(interp_mismatched[e], disp[a, b])
                        for a in range(disp.shape[0]) for b in range(disp.shape[1]))
                 for e in range(0, direction + 1)),
          all(isnan(interp_mismatched[e]) for e in range(direction + 1, 16)))


@sampler("pandora.validation.interpolated_disparity.McCnnInterpolation.interpolate_mismatch_mc_cnn")
def _(rng):
    h, w = int(rng.integers(1, 5)), int(rng.integers(1, 6))
    return {"disp": rng.integers(-2, 3, size=(h, w)).astype(np.float32),
            "valid": np.array([0, 0, 4, 1, 64, 256, 512, 512, 8, 32, 544], dtype=np.uint16)[rng.integers(0, 11, size=(h, w))]}


# ----------------------------------------------------------------------------------------------- mc-cnn occlusion filling (C14)
@spec
def occ_mc_cnn_pixel(disp, valid, d1, v1, c, r) -> "bool":
    # C14 (mc-cnn): only pixels flagged occlusion may change.  An occluded pixel takes the disparity of the NEAREST valid pixel on its
    # left in the same line (at distance t: the pixels at distances < t are not valid), or, when there is none, of the nearest valid
    # pixel on its right, trading bit 8 for bit 4; when the line has no valid pixel it stays exactly as it was (still flagged).
    # (clausal form: the nearest valid pixel is unique, so each case is an implication for every distance t)
    return (
        implies((valid[c, r] & 256) == 0, eq(d1[c, r], disp[c, r]) and v1[c, r] == valid[c, r])
        and all(implies((valid[c, r] & 256) != 0 and valid_px(valid, c, r - t) and all(not valid_px(valid, c, r - u) for u in range(0, t)),
                        eq(d1[c, r], disp[c, r - t]) and occlusion_filled(valid[c, r], v1[c, r]))
                for t in range(0, r + 1))
        and all(implies((valid[c, r] & 256) != 0 and all(not valid_px(valid, c, r - u) for u in range(0, r + 1))
                        and valid_px(valid, c, r + t) and all(not valid_px(valid, c, r + u) for u in range(0, t)),
                        eq(d1[c, r], disp[c, r + t]) and occlusion_filled(valid[c, r], v1[c, r]))
                for t in range(0, disp.shape[1] - r))
        and implies((valid[c, r] & 256) != 0 and all(not valid_px(valid, c, j) for j in range(0, disp.shape[1])),
                    eq(d1[c, r], disp[c, r]) and v1[c, r] == valid[c, r]))


@contract("pandora.validation.interpolated_disparity.McCnnInterpolation.interpolate_occlusion_mc_cnn", props=["C14", "C04", "C09"])
def _(disp, valid):
    types(disp="f32[:,:]", valid="u16[:,:]", result=("f32[:,:]", "u16[:,:]"))
    requires("shapes", valid.shape[0] == disp.shape[0], valid.shape[1] == disp.shape[1])
    assigns()
    raises_never()
    option(lazy_slices=True, witness_marks=True)
    ensures("shape", result[0].shape[0] == disp.shape[0] and result[0].shape[1] == disp.shape[1]
            and result[1].shape[0] == disp.shape[0] and result[1].shape[1] == disp.shape[1])
    ensures("pixelwise", all(occ_mc_cnn_pixel(disp, valid, result[0], result[1], c, r)
                             for c in range(disp.shape[0]) for r in range(disp.shape[1])))
    invariant(1, all(occ_mc_cnn_pixel(disp, valid, out_disp, out_val, c, r) for c in range(col) for r in range(nrow)),
              all(eq(out_disp[c, r], disp[c, r]) and out_val[c, r] == valid[c, r] for c in range(col, ncol) for r in range(nrow)))
    invariant(2, all(occ_mc_cnn_pixel(disp, valid, out_disp, out_val, c, r) for c in range(col) for r in range(nrow)),
              all(occ_mc_cnn_pixel(disp, valid, out_disp, out_val, col, r) for r in range(row)),
              all(eq(out_disp[col, r], disp[col, r]) and out_val[col, r] == valid[col, r] for r in range(row, nrow)),
              all(eq(out_disp[c, r], disp[c, r]) and out_val[c, r] == valid[c, r] for c in range(col + 1, ncol) for r in range(nrow)))


@sampler("pandora.validation.interpolated_disparity.McCnnInterpolation.interpolate_occlusion_mc_cnn")
def _(rng):
    h, w = int(rng.integers(1, 5)), int(rng.integers(1, 7))
    return {"disp": rng.integers(-2, 3, size=(h, w)).astype(np.float32),
            "valid": np.array([0, 0, 4, 1, 64, 256, 256, 256, 512, 8, 16, 272], dtype=np.uint16)[rng.integers(0, 12, size=(h, w))]}
