"""C13 -- results are local: crop (tile) invariance on the dependency cone, and vertical-flip equivariance.

Real code: pandora.check_configuration.check_pipeline_section / check_datasets + pandora.run on a synthetic
integer-valued 40x60 stereo pair.  Oracle = the property statement itself (metamorphic): the whole-image result,
restricted to the pixels of a crop whose dependency cone lies inside the crop, must be bit-identical to the result of
processing the crop alone (crop coordinates starting at the crop origin, and the same crop re-based at 0); and the
result on the vertically flipped pair must be the vertically flipped result.

Second image domain (zncc pipelines only): 96x72 pairs with integer-valued 12-bit radiometry (0..4095).  The zncc cost is
built on window means obtained from running sums over the whole image (pandora.img_tools.compute_mean_raster /
compute_std_raster); on this domain every value, square and left*right product is an integer < 2**24 and every running
sum an integer < 2**53, so a window sum is the exact integer whatever precedes the window, and the statement can be
checked bit-exactly -- while any accumulation narrower than float64 (float32 running sums exceed 2**24 after two rows
of squares) makes the result depend on the crop origin.  The two raster functions are also compared directly
(crop of the whole-image raster vs raster of the crop).

Cone (computed here from the configuration only, conservatively -- a larger cone only compares fewer pixels):
    R      = window//2  [+ cbca_distance + 1 (arms + 3x3 median prefilter)]  [+ filter_size//2 | + ceil(int(3*sigma_space+1)/2)]
    rows   : R                       columns : R + D (D = max(|dmin|,|dmax|)),  R + 2*D with cross-checking
"""
import copy
import itertools
import logging
import time
import warnings

import numpy as np
import xarray as xr
from affine import Affine

from bounded.common import Recorder, same

H, W = 40, 60
HI_SHAPE, HI_BITS = (96, 72), 12  # second domain: integer-valued 12-bit radiometry (zncc pipelines and raster functions)
PARITY = "half-integer-left-disparity@odd-column-offset"  # x.5 + column index rounds to the even neighbour
INVALID_BITS = 0b01111000011  # user guide, validity mask: bits 0, 1, 6, 7, 8, 9 mark an invalid pixel
_FUNCS = ["pandora.run", "pandora.check_configuration.check_pipeline_section",
          "pandora.check_configuration.check_datasets", "pandora.state_machine.PandoraMachine.check_conf",
          "pandora.state_machine.PandoraMachine.run_prepare", "pandora.state_machine.PandoraMachine.run",
          "pandora.img_tools.add_disparity"]
_FUNCS_HI = ["pandora.img_tools.compute_mean_raster", "pandora.img_tools.compute_std_raster"]


# ----------------------------------------------------------------------------------------------------------- inputs
def make_pair(img_seed, interval, masks, bits=5, shape=None):
    """integer-valued pair (default 40x60): blocky texture + noise in [0, 32); right = left shifted (two shifts, one per
    half of the rows, strictly inside the disparity interval) + noise in {-1, 0, 1}; optional masks (0 valid, 1 no data,
    2 invalid).  bits=12: same construction with blocks in [0, 3200), noise in [0, 896), right noise in [-48, 48],
    values in 0..4095 (squares and products stay below 2**24, hence exact in float32)"""
    rng = np.random.default_rng([int(img_seed), 13])
    h_, w_ = (H, W) if shape is None else (int(shape[0]), int(shape[1]))
    if int(bits) == 5:
        n_block, n_noise, a_right, vmax = 25, 8, 1, 31
    elif int(bits) == 12:
        n_block, n_noise, a_right, vmax = 3200, 896, 48, 4095
    else:
        raise ValueError("bits must be 5 or 12")
    dmin, dmax = interval
    pad = 8
    blocks = rng.integers(0, n_block, size=(h_ // 4 + 1, (w_ + 2 * pad) // 3 + 1))
    base = (np.kron(blocks, np.ones((4, 3), dtype=np.int64))[:h_, :w_ + 2 * pad]
            + rng.integers(0, n_noise, size=(h_, w_ + 2 * pad)))
    inner = list(range(dmin + 1, dmax)) or [dmin]
    d_top, d_bot = int(rng.choice(inner)), int(rng.choice(inner))
    left = base[:, pad:pad + w_].copy()
    right = np.empty_like(left)
    cols = np.arange(w_)
    for r in range(h_):
        d0 = d_top if r < h_ // 2 else d_bot
        right[r] = base[r, pad + cols - d0]  # left(c) == right(c + d0)
    right = np.clip(right + rng.integers(-a_right, a_right + 1, size=(h_, w_)), 0, vmax)
    ml = mr = None
    if masks:
        ml = np.zeros((h_, w_), dtype=np.int16)
        mr = np.zeros((h_, w_), dtype=np.int16)
        for m in (ml, mr):
            u = rng.random((h_, w_))
            m[u < 0.02] = 1
            m[(u >= 0.02) & (u < 0.05)] = 2
    return left.astype(np.float32), right.astype(np.float32), ml, mr


def dataset(im, msk, r0, c0, disp):
    from pandora.img_tools import add_disparity
    h, w = im.shape
    ds = xr.Dataset({"im": (["row", "col"], np.array(im, dtype=np.float32, copy=True))},
                    coords={"row": np.arange(r0, r0 + h), "col": np.arange(c0, c0 + w)})
    ds.attrs = {"no_data_img": -9999, "valid_pixels": 0, "no_data_mask": 1, "crs": None,
                "transform": Affine(1.0, 0.0, 0.0, 0.0, 1.0, 0.0)}
    if msk is not None:
        ds["msk"] = xr.DataArray(np.array(msk, dtype=np.int16, copy=True), dims=["row", "col"])
    ds.pipe(add_disparity, disparity=disp, window=None)
    return ds


def metadata(h, w, r0, c0, disp):
    """what pandora.img_tools.get_metadata builds from a mono-band file: coordinates + disparity, no pixels"""
    from pandora.img_tools import add_disparity
    ds = xr.Dataset(data_vars={}, coords={"band_im": [None], "row": np.arange(r0, r0 + h), "col": np.arange(c0, c0 + w)})
    return ds.pipe(add_disparity, disparity=disp, window=None)


def run_pipeline(pipeline, left, right, ml, mr, interval, r0=0, c0=0):
    """check + run through the public API on a fresh machine; returns (disparity_map, validity_mask) as arrays"""
    import pandora
    from pandora import check_configuration
    from pandora.state_machine import PandoraMachine
    logging.getLogger("transitions.core").setLevel(logging.ERROR)
    h, w = left.shape
    interval = [int(interval[0]), int(interval[1])]
    dl = dataset(left, ml, r0, c0, interval)
    dr = dataset(right, mr, r0, c0, None)
    machine = PandoraMachine()
    with warnings.catch_warnings():
        warnings.simplefilter("ignore")
        cfg = check_configuration.check_pipeline_section({"pipeline": copy.deepcopy(pipeline)},
                                                         metadata(h, w, r0, c0, interval), metadata(h, w, r0, c0, None),
                                                         machine)
        check_configuration.check_datasets(dl, dr)
        out_left, _ = pandora.run(machine, dl, dr, cfg)
    return np.array(out_left["disparity_map"].data), np.array(out_left["validity_mask"].data)


# -------------------------------------------------------------------------------------------------------- pipelines
def build(mc, win, cbca, refine, filt, xcheck):
    p = {"matching_cost": {"matching_cost_method": mc, "window_size": win, "subpix": 1}}
    if cbca:
        p["aggregation"] = {"aggregation_method": "cbca", "cbca_intensity": 8.0, "cbca_distance": 3}
    p["disparity"] = {"disparity_method": "wta", "invalid_disparity": -9999}
    if refine:
        p["refinement"] = {"refinement_method": refine}
    if filt == "median":
        p["filter"] = {"filter_method": "median", "filter_size": 3}
    elif filt == "bilateral":
        p["filter"] = {"filter_method": "bilateral", "sigma_color": 2.0, "sigma_space": 2.0}
    if xcheck:
        p["validation"] = {"validation_method": "cross_checking_accurate"}
    return p


def signature(p, with_mc=True):
    s = "%s%d" % (p["matching_cost"]["matching_cost_method"], p["matching_cost"]["window_size"]) if with_mc else "mc"
    for step, key in (("aggregation", "aggregation_method"), ("refinement", "refinement_method"),
                      ("filter", "filter_method"), ("validation", "validation_method")):
        if step in p:
            s += "+" + {"cross_checking_accurate": "xcheck"}.get(p[step][key], p[step][key])
    return s


def family():
    """all local pipelines of the bound, fewest steps first (so that the first witness is the smallest)"""
    mcs = [("sad", 3), ("sad", 5), ("ssd", 3), ("ssd", 5), ("census", 3), ("census", 5), ("zncc", 3), ("zncc", 5)]
    out = []
    for (mc, win), cbca, refine, filt, xc in itertools.product(mcs, (False, True), (None, "vfit", "quadratic"),
                                                               (None, "median", "bilateral"), (False, True)):
        if mc == "zncc" and cbca:
            continue  # cbca accumulates non-integer float32 costs along whole rows: no exact comparison possible
        out.append(build(mc, win, cbca, refine, filt, xc))
    out.sort(key=lambda p: (len(p), signature(p)))
    return out


QUICK_FIXED = [build("sad", 3, False, None, None, False),
               build("ssd", 5, False, "vfit", "median", False),
               build("census", 5, True, "quadratic", None, True),
               build("zncc", 3, False, "vfit", "bilateral", False),
               build("sad", 5, True, None, "median", True),
               build("zncc", 5, False, "quadratic", "median", True),
               build("census", 3, False, None, "bilateral", True),
               build("ssd", 3, True, "vfit", "bilateral", True)]


def cone(p, interval):
    """(row margin, column margin) of the dependency cone, conservative sum of the radii of the steps"""
    rad = p["matching_cost"]["window_size"] // 2
    if "aggregation" in p:
        rad += p["aggregation"]["cbca_distance"] + 1
    if "filter" in p:
        if p["filter"]["filter_method"] == "median":
            rad += p["filter"]["filter_size"] // 2
        else:
            rad += (int(3 * p["filter"]["sigma_space"] + 1) + 1) // 2
    d = max(abs(int(interval[0])), abs(int(interval[1])))
    return rad, rad + d * (2 if "validation" in p else 1)


def crops_for(p, interval, tier, rng):
    """crop rectangles (r0, c0, h, w) that contain the cone of a non-empty interior, on a grid of offsets with odd
    and even values, the image corners and non-zero first coordinates"""
    mr_, mc_ = cone(p, interval)
    out = []
    sizes = [(6, 8)] if tier == "quick" else [(6, 8), (3, 13), (11, 4)]
    for ih, iw in sizes:
        h, w = min(H, 2 * mr_ + ih), min(W, 2 * mc_ + iw)
        if h < 2 * mr_ + 1 or w < 2 * mc_ + 1:
            continue
        rows = sorted({r for r in (0, 1, 2, 5, H - h - 1, H - h) if 0 <= r <= H - h})
        cols = sorted({c for c in (0, 1, 2, 7, 12, W - w - 1, W - w) if 0 <= c <= W - w})
        grid = [(r, c) for r in rows for c in cols]
        if tier == "quick":
            want = [(rows[min(1, len(rows) - 1)], cols[min(2, len(cols) - 1)]),  # (odd, even)
                    (rows[min(2, len(rows) - 1)], cols[min(1, len(cols) - 1)]),  # (even, odd)
                    (rows[-1], cols[-1]), (0, cols[min(3, len(cols) - 1)])]
        else:
            fixed = [(rows[min(1, len(rows) - 1)], cols[min(2, len(cols) - 1)]), (rows[-1], cols[-1]), (0, 0)]
            if (ih, iw) != (6, 8):
                fixed = fixed[:1]
            rest = [g for g in grid if g not in fixed]
            k = min(len(rest), 3 if (ih, iw) == (6, 8) else 1)
            want = fixed + [rest[i] for i in sorted(rng.choice(len(rest), size=k, replace=False))] if rest else fixed
        for r0, c0 in dict.fromkeys(want):
            out.append((int(r0), int(c0), int(h), int(w)))
    return out


def hi_crops(p, interval, tier, rng, shape=HI_SHAPE):
    """crops of the 12-bit images: cone + interior, origins far from (0, 0) (the running sums before the crop are large),
    at the image end, one row below the top (column offset 0) and at the top (column offset only)"""
    hh, ww = shape
    mr_, mc_ = cone(p, interval)
    out = []
    for ih, iw in ([(6, 8)] if tier == "quick" else [(6, 8), (3, 13)]):
        h, w = 2 * mr_ + ih, 2 * mc_ + iw
        if h > hh or w > ww:
            continue
        fixed = [(37, 23), (hh - h, ww - w), (1, 0)] if (ih, iw) == (6, 8) else [(50, 7)]
        if tier == "quick":
            want = fixed
        else:
            rows = sorted({r for r in (0, 1, 2, 5, 17, 37, 50, hh - h - 1, hh - h) if 0 <= r <= hh - h})
            cols = sorted({c for c in (0, 1, 2, 7, 23, 31, ww - w - 1, ww - w) if 0 <= c <= ww - w})
            rest = [(r, c) for r in rows for c in cols if (r, c) not in fixed]
            k = 3 if (ih, iw) == (6, 8) else 1
            want = fixed + [rest[i] for i in sorted(rng.choice(len(rest), size=k, replace=False))]
        for r0, c0 in dict.fromkeys(want):
            if 0 <= r0 <= hh - h and 0 <= c0 <= ww - w:
                out.append((int(r0), int(c0), int(h), int(w)))
    return out


def raster_source(w):
    """image the raster function is applied to: left, right or the float32 product left*right (as zncc builds it)"""
    left, right, _, _ = make_pair(w["img_seed"], [-2, 2], False, w["bits"], w["shape"])
    return {"left": left, "right": right, "left*right": left * right}[w["src"]]


def raster_mismatch(w):
    """per-function form of the statement: the window mean / standard deviation of a pixel whose window lies in the crop
    is the same (bit for bit) in the raster of the crop and in the raster of the whole image"""
    from pandora import img_tools
    fn = {"mean_raster": img_tools.compute_mean_raster, "std_raster": img_tools.compute_std_raster}[w["fn"]]
    win = int(w["win"])
    img = raster_source(w)
    r0, c0, h, wd = (int(v) for v in w["crop"])
    whole = np.asarray(fn(dataset(img, None, 0, 0, None), win))
    try:
        part = np.asarray(fn(dataset(img[r0:r0 + h, c0:c0 + wd], None, 0, 0, None), win))
    except Exception as exc:
        return w["fn"], "%s of the crop raised %s: %s" % (w["fn"], type(exc).__name__, str(exc)[:200]), type(exc).__name__
    # both rasters are truncated to the pixels whose window is inside: entry (i, j) is the window centred at (i+r, j+r)
    ref = whole[r0:r0 + h - win + 1, c0:c0 + wd - win + 1]
    if part.shape != ref.shape:
        return w["fn"], "%s of the %dx%d crop has shape %s, expected %s" % (w["fn"], h, wd, part.shape, ref.shape), "shape"
    if not same(ref, part):
        bad = np.argwhere(~((ref == part) | ((ref != ref) & (part != part))))[0]
        i, j = int(bad[0]), int(bad[1])
        tag = "crop-origin-" + "+".join(n for n, v in (("row", r0), ("col", c0)) if v) + ">0"
        return w["fn"], "compute_%s(window %d) of %s at image pixel (%d,%d): whole image %r, crop %s alone %r (%d of %d " \
                        "entries differ)" % (w["fn"], win, w["src"], r0 + i + win // 2, c0 + j + win // 2, ref[i, j].item(),
                                             [r0, c0, h, wd], part[i, j].item(), int((ref != part).sum()), ref.size), tag
    return None


# ------------------------------------------------------------------------------------------------------ comparisons
def crop_mismatch(p, interval, pair, whole, crop, rebased):
    """None if the crop run agrees with the whole run on the cone interior, else (clause-part, message)"""
    left, right, ml, mr = pair
    r0, c0, h, w = crop
    mrow, mcol = cone(p, interval)
    sl = (slice(r0, r0 + h), slice(c0, c0 + w))
    try:
        disp, val = run_pipeline(p, left[sl], right[sl], None if ml is None else ml[sl], None if mr is None else mr[sl],
                                 interval, 0 if rebased else r0, 0 if rebased else c0)
    except Exception as exc:  # the whole image was processed, so must the crop be
        return "runs", "crop run raised %s: %s" % (type(exc).__name__, str(exc)[:200]), type(exc).__name__
    if disp.shape != (h, w) or val.shape != (h, w):
        return "shape", "crop outputs have shapes %s/%s, expected %s" % (disp.shape, val.shape, (h, w)), "shape"
    inner = (slice(mrow, h - mrow), slice(mcol, w - mcol))
    glob = (slice(r0 + mrow, r0 + h - mrow), slice(c0 + mcol, c0 + w - mcol))
    for name, a, b in (("disparity_map", whole[0][glob], disp[inner]), ("validity_mask", whole[1][glob], val[inner])):
        if not same(a, b):
            bad = np.argwhere(~((a == b) | ((a != a) & (b != b))))[0]
            rr, cc = int(bad[0]), int(bad[1])
            dsp = float(whole[0][glob][rr, cc])
            # diagnosis only (keeps a known cause apart from other failures of the same clause)
            cg = glob[1].start + cc
            parity = (name == "validity_mask" and "validation" in p and abs(dsp) < 1000 and (2 * dsp) % 2 == 1
                      and np.rint(cg + dsp) - cg != np.rint(cg - c0 + dsp) - (cg - c0))
            tag = PARITY if parity else p["matching_cost"]["matching_cost_method"]
            return name, "%s differs at image pixel (%d,%d): whole=%r crop=%r; whole disparity there %r (crop %s, " \
                         "interior margins %d/%d)" % (name, glob[0].start + rr, glob[1].start + cc, a[rr, cc].item(),
                                                      b[rr, cc].item(), dsp, list(crop), mrow, mcol), tag
    return None


def flip_mismatch(p, interval, pair, whole):
    left, right, ml, mr = pair
    try:
        disp, val = run_pipeline(p, left[::-1], right[::-1], None if ml is None else ml[::-1],
                                 None if mr is None else mr[::-1], interval)
    except Exception as exc:
        return "runs", "flipped run raised %s: %s" % (type(exc).__name__, str(exc)[:200]), type(exc).__name__
    disp, val = disp[::-1], val[::-1]
    bilateral = p.get("filter", {}).get("filter_method") == "bilateral"
    if bilateral:  # the weighted sums are accumulated in the mirrored order: float64 round-off allowed
        ok = bool(np.allclose(whole[0], disp, rtol=0, atol=1e-5, equal_nan=True))
    else:
        ok = same(whole[0], disp)
    if not ok:
        bad = np.argwhere(~(np.isclose(whole[0], disp, rtol=0, atol=1e-5 if bilateral else 0, equal_nan=True)))[0]
        return "disparity_map", "disparity_map(flipped inputs) flipped back differs at (%d,%d): %r vs %r" % (
            bad[0], bad[1], whole[0][tuple(bad)].item(), disp[tuple(bad)].item()), p["matching_cost"]["matching_cost_method"]
    if not same(whole[1], val):
        bad = np.argwhere(whole[1] != val)[0]
        return "validity_mask", "validity_mask(flipped inputs) flipped back differs at (%d,%d): %r vs %r" % (
            bad[0], bad[1], whole[1][tuple(bad)].item(), val[tuple(bad)].item()), p["matching_cost"]["matching_cost_method"]
    return None


def evaluate(w):
    """re-evaluate one witness-shaped case; returns None or (clause part, message, diagnosis tag)"""
    if w["kind"] == "raster":
        return raster_mismatch(w)
    p, interval = w["pipeline"], [int(w["interval"][0]), int(w["interval"][1])]
    pair = make_pair(w["img_seed"], interval, bool(w["masks"]), w.get("bits", 5), w.get("shape"))
    whole = run_pipeline(p, *pair, interval)
    if w["kind"] == "flip":
        return flip_mismatch(p, interval, pair, whole)
    crop = tuple(int(v) for v in w["crop"])
    mrow, mcol = cone(p, interval)
    if crop[2] < 2 * mrow + 1 or crop[3] < 2 * mcol + 1:
        return None
    return crop_mismatch(p, interval, pair, whole, crop, bool(w["rebased"]))


def shrink(w):
    """greedily drop optional steps while the mismatch remains (the crop still contains the smaller cone)"""
    w = copy.deepcopy(w)
    changed = True
    while changed:
        changed = False
        for step in ("validation", "filter", "refinement", "aggregation"):
            if step in w["pipeline"]:
                trial = copy.deepcopy(w)
                del trial["pipeline"][step]
                try:
                    res = evaluate(trial)
                except Exception:
                    res = None
                if res is not None:
                    w, changed = trial, True
        if w["masks"]:
            trial = copy.deepcopy(w)
            trial["masks"] = False
            try:
                res = evaluate(trial)
            except Exception:
                res = None
            if res is not None:
                w, changed = trial, True
    return w


def _class(variant, wit, res):
    if res[2] == PARITY:
        return "%s:xcheck:%s" % (variant, PARITY)
    dom = "" if int(wit.get("bits", 5)) == 5 else ":%dbit" % int(wit["bits"])
    return "%s:%s%s:%s%s" % (variant, signature(wit["pipeline"], False), "+masks" if wit["masks"] else "", res[2], dom)


def report(rec, wit, res, variant):
    """record one violation with its shrunk witness; class = failing coordinate variant : diagnosis, the diagnosis being
    the rounding-parity one or else `optional steps (+masks) : matching-cost method` of the shrunk pipeline"""
    clause = "C13.%s.%s" % (wit["kind"], res[0])
    pre = _class(variant, wit, res)
    if any(v["clause"] == clause and pre in (v["witness_class"], v["witness"].get("_found_as")) for v in rec.violations):
        return  # same finding already shrunk and recorded: do not pay the shrinking again
    small = shrink(wit)
    try:
        res2 = evaluate(small) or res
    except Exception:
        small, res2 = wit, res
    small["_found_as"] = pre
    rec.violation(clause="C13.%s.%s" % (wit["kind"], res2[0]), witness_class=_class(variant, small, res2), message=res2[1],
                  witness=small)


# --------------------------------------------------------------------------------------------------------------- run
def check_pair(rec, p, ident, base_w, pair, interval, crops):
    """whole run, then every crop (both coordinate variants) and the vertical flip, recorded into rec"""
    sig = signature(p)
    masks, img_seed = base_w["masks"], base_w["img_seed"]
    dom = {} if "bits" not in base_w else {"radiometry_bits": base_w["bits"], "shape": list(base_w["shape"])}
    try:
        whole = run_pipeline(p, *pair, interval)
    except Exception as exc:
        # not a C13 matter (the property compares two successful framings); counted, not a violation
        rec.case(key=("whole-failed",) + ident, nontrivial=False,
                 sample={"pipeline": sig, "error": "%s: %s" % (type(exc).__name__, str(exc)[:120])})
        return
    valid = (whole[1] & INVALID_BITS) == 0
    mrow, mcol = cone(p, interval)
    for crop in crops:
        r0, c0, h, w = crop
        inner_valid = valid[r0 + mrow:r0 + h - mrow, c0 + mcol:c0 + w - mcol]
        failed = {}
        for rebased in (False, True):
            res = crop_mismatch(p, interval, pair, whole, crop, rebased)
            rec.case(key=ident + (crop, rebased), nontrivial=bool(inner_valid.size and inner_valid.any()),
                     sample=dict({"pipeline": sig, "interval": interval, "masks": masks, "img_seed": img_seed,
                                  "crop_r0_c0_h_w": list(crop), "coords": "rebased-at-0" if rebased else "crop-origin",
                                  "cone_margins_row_col": [mrow, mcol],
                                  "interior_pixels": int(inner_valid.size), "interior_valid": int(inner_valid.sum())}, **dom))
            if res is not None:
                failed[rebased] = res
        if failed:
            # both coordinate variants fail -> the crop offset itself matters; else the coordinates do
            variant = "any-coords" if len(failed) == 2 else ("coords-rebased-0" if True in failed else "coords-at-crop-origin")
            rebased = True in failed
            report(rec, dict(base_w, kind="crop", crop=list(crop), rebased=rebased), failed[rebased], variant)
    res = flip_mismatch(p, interval, pair, whole)
    rec.case(key=ident + ("flip",), nontrivial=bool(valid.any()),
             sample=dict({"pipeline": sig, "interval": interval, "masks": masks, "img_seed": img_seed, "kind": "vertical-flip"},
                         **dom))
    if res is not None:
        report(rec, dict(base_w, kind="flip"), res, "flip")


def run_rasters(rec, tier, seed, rng):
    """compute_mean_raster / compute_std_raster: raster of a crop vs crop of the raster, 12-bit images"""
    hh, ww = HI_SHAPE
    n = 0
    for k in range(1 if tier == "quick" else 3):
        img_seed = int(seed) * 1000 + int(rng.integers(1000))
        for win, (h, w) in itertools.product((3, 5), [(9, 12)] if tier == "quick" else [(9, 12), (5, 21), (20, 7)]):
            rows = (0, 1, 37, hh - h) if tier == "quick" else (0, 1, 2, 5, 17, 37, 50, hh - h - 1, hh - h)
            cols = (0, 1, 31, ww - w) if tier == "quick" else (0, 1, 2, 7, 23, 31, ww - w - 1, ww - w)
            for fn, src in (("mean_raster", "left"), ("mean_raster", "left*right"), ("std_raster", "left"),
                            ("std_raster", "right")):
                for r0, c0 in itertools.product(rows, cols):
                    wit = {"kind": "raster", "fn": fn, "src": src, "win": win, "img_seed": img_seed, "bits": HI_BITS,
                           "shape": list(HI_SHAPE), "crop": [r0, c0, h, w]}
                    res = raster_mismatch(wit)
                    n += 1
                    rec.case(key=("raster", fn, src, win, img_seed, r0, c0, h, w), nontrivial=bool(r0 or c0),
                             sample={"function": "compute_" + fn, "image": src, "window": win, "img_seed": img_seed,
                                     "radiometry_bits": HI_BITS, "shape": list(HI_SHAPE), "crop_r0_c0_h_w": [r0, c0, h, w]})
                    if res is not None:
                        clause = "C13.crop." + res[0]
                        if r0 and c0 and any(v["clause"] == clause for v in rec.violations):
                            continue  # a one-coordinate witness of the same clause is already recorded
                        rec.violation(clause=clause, witness_class=res[2], message=res[1], witness=wit)
    return n


def run_hi(rec, tier, seed, rng):
    """zncc pipelines on the 12-bit 96x72 pairs; returns (pipelines enumerated, pipelines of the sub-family)"""
    fam = [p for p in family() if p["matching_cost"]["matching_cost_method"] == "zncc"]
    if tier == "quick":
        pipes = [build("zncc", 3, False, "vfit", None, False), build("zncc", 5, False, "quadratic", "median", False),
                 build("zncc", 3, False, "vfit", None, True)]
        rest = [p for p in fam if p not in pipes]
        pipes.append(rest[int(rng.integers(len(rest)))])
        n_img = 1
    else:
        pipes, n_img = fam, 2
    intervals = [[-3, 2], [-2, 3], [-3, 0], [0, 3], [-2, 2]]
    for p in pipes:
        for k in range(n_img):
            interval = intervals[int(rng.integers(len(intervals)))]
            masks = bool(rng.integers(2))
            img_seed = int(seed) * 1000 + int(rng.integers(1000))
            ident = (signature(p), tuple(interval), masks, img_seed, "%dbit" % HI_BITS)
            pair = make_pair(img_seed, interval, masks, HI_BITS, HI_SHAPE)
            base_w = {"img_seed": img_seed, "interval": interval, "masks": masks, "pipeline": p, "bits": HI_BITS,
                      "shape": list(HI_SHAPE)}
            check_pair(rec, p, ident, base_w, pair, interval, hi_crops(p, interval, tier, rng))
    return len(pipes), len(fam)


def run(tier: str, seed: int) -> dict:
    rec = Recorder()
    rec.functions.update(_FUNCS)
    rec.functions.update(_FUNCS_HI)
    rng = np.random.default_rng([int(seed), 1313])
    t_start, budget = time.time(), (65.0 if tier == "quick" else 1020.0)
    # second domain first (small, never cut by the time budget): 12-bit radiometry, raster functions then zncc pipelines
    rng_hi = np.random.default_rng([int(seed), 1313, HI_BITS])
    n_raster = run_rasters(rec, tier, seed, rng_hi)
    n_hi, n_hi_fam = run_hi(rec, tier, seed, rng_hi)
    intervals = [[-3, 2], [-2, 3], [-3, 0], [0, 3], [-2, 2]]
    fam = family()
    if tier == "quick":
        extra = [fam[i] for i in sorted(rng.choice(len(fam), size=8, replace=False))]
        pipes = sorted(QUICK_FIXED + extra, key=lambda p: (len(p), signature(p)))
        n_img = 1
    else:
        pipes = [fam[i] for i in rng.permutation(len(fam))]  # unbiased if the time budget cuts the enumeration
        n_img = 2
    seen = set()
    done = 0
    for p in pipes:
        if time.time() - t_start > budget:
            break
        done += 1
        sig = signature(p)
        for k in range(n_img):
            interval = intervals[int(rng.integers(len(intervals)))]
            masks = bool(rng.integers(2))
            img_seed = int(seed) * 1000 + int(rng.integers(1000))
            ident = (sig, tuple(interval), masks, img_seed)
            if ident in seen:
                continue
            seen.add(ident)
            pair = make_pair(img_seed, interval, masks)
            base_w = {"img_seed": img_seed, "interval": interval, "masks": masks, "pipeline": p}
            check_pair(rec, p, ident, base_w, pair, interval, crops_for(p, interval, tier, rng))
    bound = ("40x60 integer-valued (0..31) synthetic pairs (right = left shifted by 2 in-interval shifts + noise in {-1,0,1}), "
             "optional masks (2%% no-data, 3%% invalid); pipelines = {sad,ssd,census,zncc} x window {3,5} [x cbca(distance 3, "
             "intensity 8), not with zncc] x wta x refinement {none,vfit,quadratic} x filter {none, median 3, bilateral "
             "sigma_space 2 (window 7)} x validation {none, cross_checking_accurate}, subpix 1 (%d pipelines; quick: 8 fixed + 8 "
             "seeded); disparity intervals {[-3,2],[-2,3],[-3,0],[0,3],[-2,2]}; crops = cone + interior {6x8%s} at offsets "
             "from rows {0,1,2,5,max-1,max} x cols {0,1,2,7,12,max-1,max} (quick 4 / thorough up to 10 per pipeline-image), each "
             "with coordinates at the crop origin and re-based at 0; plus the vertical flip of the whole pair. This run: %d of "
             "%d selected pipelines enumerated within the time budget of %d s (counted from the start of the run). Second "
             "domain, run first: 96x72 pairs of the same construction with integer-valued 12-bit radiometry (blocks < 3200 + "
             "noise < 896, right noise in [-48,48], values 0..4095); %d of the %d zncc pipelines of the family (quick: "
             "zncc3+vfit, zncc5+quadratic+median, zncc3+vfit+xcheck + 1 seeded; %s) with crops = cone + interior {6x8%s} at "
             "origins (37,23), (max,max), (1,0)%s, both coordinate variants, plus the vertical flip; and "
             "compute_mean_raster (of left, of the float32 product left*right) / compute_std_raster (of left, of right), "
             "windows 3 and 5, on crops %s at rows %s x cols %s of %d image(s): %d raster comparisons"
             % (len(fam), "" if tier == "quick" else ", 3x13, 11x4", done, len(pipes), budget, n_hi, n_hi_fam,
                "1 image each" if tier == "quick" else "2 images each", "" if tier == "quick" else ", 3x13",
                "" if tier == "quick" else " + 3 seeded origins from rows {0,1,2,5,17,37,50,max-1,max} x cols "
                "{0,1,2,7,23,31,max-1,max}; 3x13 at (50,7) + 1 seeded",
                "9x12" if tier == "quick" else "9x12, 5x21, 20x7",
                "{0,1,37,max}" if tier == "quick" else "{0,1,2,5,17,37,50,max-1,max}",
                "{0,1,31,max}" if tier == "quick" else "{0,1,2,7,23,31,max-1,max}", 1 if tier == "quick" else 3, n_raster))
    rule = ("case = (pipeline, interval, masks, image seed, crop rectangle, coordinate variant) or (..., vertical flip); "
            "whole-image pandora.run vs crop pandora.run (fresh machine, configuration checked by check_pipeline_section, datasets "
            "by check_datasets) compared bit-exactly (nan-aware) for disparity_map and validity_mask on the pixels at least "
            "R rows and R+D (R+2D with cross-checking) columns inside the crop, R = sum of the step radii (window//2, "
            "cbca_distance+1, filter_size//2, ceil(bilateral window/2)), D = max|disparity bound|; flip compared on the whole "
            "map, exactly, except disparity_map after the bilateral filter (atol 1e-5: mirrored summation order). "
            "distinct = distinct case tuples; non-trivial = the compared region holds at least one pixel that the whole run "
            "declares valid (no invalidating bit 0,1,6,7,8,9). zncc+cbca excluded (float32 running sums of non-integers). "
            "A failing case is shrunk by dropping optional steps/masks while it still fails; witness_class = coordinate "
            "variant that fails (any-coords if both) : diagnosis, where the diagnosis is `xcheck:half-integer-left-disparity@"
            "odd-column-offset` when the differing flag sits on a pixel whose left disparity is x.5 and rint(column index + "
            "disparity) picks different correspondents in the two framings, else `optional steps of the shrunk pipeline : "
            "matching-cost method` (`:12bit` appended for the second domain). "
            "Second domain (12-bit integer radiometry, zncc only; same comparisons, same non-triviality rule): the 5-bit "
            "images keep every running sum of pandora.img_tools.compute_mean_raster below 2**24, so they cannot tell in "
            "which precision the integral image is accumulated; with values 0..4095 every pixel, square and left*right "
            "product is an integer < 2**24 (exact in the float32 images) and every running sum an integer < 2**38 < 2**53, "
            "so with the float64 integral image each window sum is the exact integer sum of the window whatever precedes it "
            "in the image, and the window mean / std / zncc cost are one fixed sequence of float64 operations on that "
            "integer: crop and whole image must agree bit for bit (the property's quantifier is integer-valued radiometry, "
            "so nothing beyond the statement is demanded), whereas a narrower accumulation rounds (squares sum past 2**24 "
            "after two rows) differently according to the rows/columns preceding the window, i.e. to the crop origin. "
            "Raster cases (clauses C13.crop.mean_raster / C13.crop.std_raster): case = (function, source image, window, "
            "image seed, crop rectangle); raster of the crop compared bit-exactly with the whole-image raster restricted to "
            "the windows inside the crop; non-trivial = crop origin != (0,0); witness_class = which crop-origin "
            "coordinates are non-zero (a witness with both non-zero is recorded only if the clause has no witness yet).")
    return rec.result(bound=bound, rule=rule)


def replay(witness: dict) -> bool:
    return evaluate(witness) is not None
