"""Bounded stand-in of C02: the cost volume holds the configured similarity measure, NaN exactly where not computable.

Real code executed (the sequence of PandoraMachine.matching_cost_prepare / matching_cost_run):
    AbstractMatchingCost(**cfg) -> allocate_cost_volume -> criteria.validity_mask -> compute_cost_volume -> cv_masked
Oracle: `oracle_volume` below, written from the property statement and matching_cost.rst (pure loops, float64).

Interpretation choices of the oracle (all taken from the statement, stated here because they are observable):
  * the right "window centred at column+disparity" for a fractional disparity is made of samples linearly interpolated
    between the two neighbouring columns; such a window "leaves the image"/"contains a nodata pixel" when one of the
    pixels it is interpolated from does, and its centre "is masked invalid" when one of the two pixels the centre
    sample is interpolated from is;
  * zero variance = all samples of a window are equal (exact test on the integer-valued radiometry);
  * per-pixel [min,max] grids are float32 rasters and need not lie on the sampling step (min=-1.3, max=1.7 ...): a sampled
    disparity d is outside the pixel's interval exactly when d < min(r,c) or d > max(r,c) (comparison of the real
    numbers).  For integer-valued grids the disparity axis must be int(min) .. int(max) by steps of 1/subpix; for
    fractional grids the statement does not say which samples the axis holds, so the oracle is evaluated on the axis the
    real cost volume reports (cv.coords['disp']), only requiring its samples to be increasing multiples of 1/subpix;
  * "on the selected band for multiband images": the band is selected BY NAME in each image independently (band_im
    coordinate); the two images may list their bands in a different order and need not hold the same number of bands
    (clause C02.band.by_name, cases of gen_band_case);
  * cmax: the statement only says it "matches the measure"; the user guide (as_an_api.rst) only shows it as an integer attribute
    next to type_measure and no docstring of the public API gives a formula, so only the meaning of the words is checked: the
    reported maximal cost is an upper bound of every computable cost and is not above the trivial bound of the measure:
    max finite cost <= cmax <= trivial bound (w^2 * range for sad, w^2 * range^2 for ssd, w^2 for census, == 1 for zncc).
    With integer radiometry (all the cases but those of gen_radiometry_case) every quantity is an integer.  With NON-INTEGER
    radiometry (gen_radiometry_case: multiples of 1/8, images normalised to [0,1], sad/ssd only) two ways of failing the upper
    bound are told apart by the witness class, because the attribute is reported as an integer:
      <measure>-fractional-radiometry-cost-above-cmax                   a computable cost >= cmax + 1: cmax is not even the
                                                                        integer part of an upper bound of the costs;
      <measure>-fractional-radiometry-cost-above-cmax-by-less-than-one  cmax < largest cost < cmax + 1: only the fraction lost by
                                                                        reporting the bound as an integer (truncation).
"""
import itertools
import time

import numpy as np
import xarray as xr
from rasterio import Affine

from bounded.common import Recorder, jsonable

VALID, NODATA, INVALID = 0, 1, 2
ZNCC_TOL = 1e-4
METHOD_WINDOWS = [(m, w) for m in ("sad", "ssd", "zncc") for w in (1, 3, 5)] + [("census", 3), ("census", 5)]
INTERVALS = [(a, b) for a in range(-3, 4) for b in range(a, 4)]  # the 28 intervals within [-3, 3]
PER_COMBO = {"quick": 12, "thorough": 150}  # cases per (measure, window, subpix, band) combination


# ----------------------------------------------------------------------------------------------- real code driver
def make_dataset(im, msk=None, disp=None, bands=None, codes=None):
    """im: (ny,nx) or (nb,ny,nx); msk: (ny,nx) int or None; disp: None | (min,max) ints | (gmin, gmax) float grids;
    codes: this image's own (valid, nodata, invalid) mask codes (each image carries its convention in its attributes)"""
    from pandora.img_tools import add_disparity

    im = np.asarray(im, dtype=np.float32)
    if im.ndim == 3:
        ds = xr.Dataset(
            {"im": (["band_im", "row", "col"], im.copy())},
            coords={"band_im": list(bands), "row": np.arange(im.shape[1]), "col": np.arange(im.shape[2])},
        )
    else:
        ds = xr.Dataset({"im": (["row", "col"], im.copy())}, coords={"row": np.arange(im.shape[0]), "col": np.arange(im.shape[1])})
    ds.attrs = {"valid_pixels": VALID, "no_data_mask": NODATA, "no_data_img": -9999, "crs": None,
                "transform": Affine(1.0, 0.0, 0.0, 0.0, 1.0, 0.0)}
    if codes is not None:
        ds.attrs["valid_pixels"], ds.attrs["no_data_mask"] = int(codes[0]), int(codes[1])
        if msk is not None:
            msk = np.asarray(codes, dtype=int)[np.asarray(msk, dtype=int)]  # VALID/NODATA/INVALID -> this image's codes
    if msk is not None:
        ds["msk"] = xr.DataArray(np.asarray(msk).astype(np.int16), dims=["row", "col"])
    if disp is not None:
        if np.ndim(disp[0]) == 0:
            ds.pipe(add_disparity, disparity=[int(disp[0]), int(disp[1])], window=None)
        else:  # what add_disparity builds from a grid file (float32 raster, 2 bands)
            ds.coords["band_disp"] = ["min", "max"]
            ds["disparity"] = xr.DataArray(np.array([disp[0], disp[1]], dtype=np.float32), dims=["band_disp", "row", "col"])
            ds.attrs["disparity_source"] = "grid"
    else:
        ds.attrs["disparity_source"] = None
    return ds


def real_chain(left, right, mc_cfg):
    """the matching_cost step exactly as PandoraMachine runs it (left side); returns the cost volume dataset"""
    from pandora import matching_cost
    from pandora.criteria import validity_mask

    cfg = {"pipeline": {"matching_cost": dict(mc_cfg)}}
    mc_ = matching_cost.AbstractMatchingCost(**cfg["pipeline"]["matching_cost"])
    disp_min = left["disparity"].sel(band_disp="min").data
    disp_max = left["disparity"].sel(band_disp="max").data
    cv = mc_.allocate_cost_volume(left, (disp_min, disp_max), cfg)
    cv = validity_mask(left, right, cv)
    cv = mc_.compute_cost_volume(left, right, cv)
    mc_.cv_masked(left, right, cv, disp_min, disp_max)
    return cv


REAL_FUNCTIONS = [
    "pandora.matching_cost.matching_cost.AbstractMatchingCost.allocate_cost_volume",
    "pandora.matching_cost.matching_cost.AbstractMatchingCost.grid_estimation",
    "pandora.matching_cost.matching_cost.AbstractMatchingCost.get_disparity_range",
    "pandora.matching_cost.matching_cost.AbstractMatchingCost.point_interval",
    "pandora.matching_cost.matching_cost.AbstractMatchingCost.masks_dilatation",
    "pandora.matching_cost.matching_cost.AbstractMatchingCost.cv_masked",
    "pandora.matching_cost.sad_ssd.SadSsd.compute_cost_volume",
    "pandora.matching_cost.sad_ssd.SadSsd.pixel_wise_aggregation",
    "pandora.matching_cost.census.Census.compute_cost_volume",
    "pandora.matching_cost.zncc.Zncc.compute_cost_volume",
    "pandora.img_tools.shift_right_img",
    "pandora.img_tools.census_transform",
    "pandora.img_tools.compute_mean_raster",
    "pandora.img_tools.compute_std_raster",
    "pandora.criteria.validity_mask",
]


# ----------------------------------------------------------------------------------------------- oracle
def planes_of(dlo, dhi, subpix):
    """sampled disparities: dlo + k/subpix, last one = dhi"""
    return [dlo + k / float(subpix) for k in range((dhi - dlo) * subpix + 1)]


def is_integer_grid(g):
    g = np.asarray(g, dtype=np.float64)
    return bool((g == np.round(g)).all())


def oracle_volume(L, R, mL, mR, gmin, gmax, method, w, subpix, planes=None):
    """L, R: 2D arrays of the selected band; mL/mR: 2D masks over {VALID,NODATA,INVALID} or None;
    gmin/gmax: 2D grids (any real values, min <= max); planes: the sampled disparities (multiples of 1/subpix), default:
    int(min gmin) .. int(max gmax).  Returns (planes, cost[ny,nx,nd] float64 with NaN, cause[ny,nx,nd] of str|None)"""
    gmin, gmax = np.asarray(gmin, dtype=np.float64), np.asarray(gmax, dtype=np.float64)
    L = np.asarray(L, dtype=np.float64)
    R = np.asarray(R, dtype=np.float64)
    ny, nx = L.shape
    o = (w - 1) // 2
    if mL is None:
        mL = np.full((ny, nx), VALID)
    if mR is None:
        mR = np.full((ny, nx), VALID)
    if planes is None:
        planes = planes_of(int(np.min(gmin)), int(np.max(gmax)), subpix)
    planes = [float(d) for d in planes]
    cost = np.full((ny, nx, len(planes)), np.nan)
    cause = np.full((ny, nx, len(planes)), None, dtype=object)
    for k, d in enumerate(planes):
        whole, frac = divmod(int(round(d * subpix)), subpix)  # d = whole + frac/subpix, 0 <= frac < subpix
        t = frac / float(subpix)
        for r in range(ny):
            for c in range(nx):
                why = None
                if d < gmin[r, c]:
                    why = "outside-pixel-interval" if gmin[r, c] == round(gmin[r, c]) else "below-fractional-pixel-min"
                elif d > gmax[r, c]:
                    why = "outside-pixel-interval" if gmax[r, c] == round(gmax[r, c]) else "above-fractional-pixel-max"
                elif r - o < 0 or r + o > ny - 1 or c - o < 0 or c + o > nx - 1:
                    why = "left-window-outside"
                else:
                    b0 = c + whole - o  # first column used by the right window
                    b1 = c + whole + o + (1 if frac else 0)  # last column used by the right window
                    if b0 < 0 or b1 > nx - 1:
                        why = "right-window-outside"
                    elif mL[r, c] != VALID and mL[r, c] != NODATA:
                        why = "left-centre-invalid"
                    elif (mL[r - o:r + o + 1, c - o:c + o + 1] == NODATA).any():
                        why = "left-window-nodata"
                    else:
                        centre_used = mR[r, c + whole:c + whole + (2 if frac else 1)]
                        if ((centre_used != VALID) & (centre_used != NODATA)).any():
                            why = "right-centre-invalid"
                        elif (mR[r - o:r + o + 1, b0:b1 + 1] == NODATA).any():
                            why = "right-window-nodata"
                if why is not None:
                    cause[r, c, k] = why
                    continue
                wl = L[r - o:r + o + 1, c - o:c + o + 1]
                if frac:
                    wr = (1.0 - t) * R[r - o:r + o + 1, b0:b1] + t * R[r - o:r + o + 1, b0 + 1:b1 + 1]
                else:
                    wr = R[r - o:r + o + 1, b0:b1 + 1]
                if method == "sad":
                    val = float(np.abs(wl - wr).sum())
                elif method == "ssd":
                    val = float(((wl - wr) ** 2).sum())
                elif method == "census":
                    val = float(((wl > wl[o, o]) != (wr > wr[o, o])).sum())
                else:  # zncc
                    if (wl == wl[0, 0]).all() or (wr == wr[0, 0]).all():
                        val = 0.0
                    else:
                        dl, dr = wl - wl.mean(), wr - wr.mean()
                        val = float((dl * dr).sum() / np.sqrt((dl ** 2).sum() * (dr ** 2).sum()))
                cost[r, c, k] = val
    return planes, cost, cause


# ----------------------------------------------------------------------------------------------- case handling
def build(case):
    """case (json-able dict) -> (left, right, mc_cfg, oracle inputs)"""
    L, R = np.asarray(case["left"], dtype=np.float32), np.asarray(case["right"], dtype=np.float32)
    mL = None if case.get("msk_left") is None else np.asarray(case["msk_left"]).astype(int)
    mR = None if case.get("msk_right") is None else np.asarray(case["msk_right"]).astype(int)
    band = case.get("band")
    bands = case.get("bands")
    if case.get("interval") is not None:
        a, b = case["interval"]
        disp = (int(a), int(b))
        gmin, gmax = np.full(L.shape[-2:], int(a)), np.full(L.shape[-2:], int(b))
    else:  # the grids are float32 rasters; the oracle sees exactly the values the real code is given
        gmin, gmax = np.asarray(case["gmin"], dtype=np.float32), np.asarray(case["gmax"], dtype=np.float32)
        disp = (gmin, gmax)
    bands_left = case.get("bands_left") or bands  # by-name cases: each image has its own band list
    bands_right = case.get("bands_right") or bands
    left = make_dataset(L, mL, disp, bands_left)
    right = make_dataset(R, mR, None, bands_right, codes=case.get("right_codes"))
    mc_cfg = {"matching_cost_method": case["method"], "window_size": int(case["window"]), "subpix": int(case["subpix"])}
    if band is not None:
        mc_cfg["band"] = band
        Lb, Rb = L[list(bands_left).index(band)], R[list(bands_right).index(band)]  # selected by name in each image
    else:
        Lb, Rb = L, R
    return left, right, mc_cfg, (Lb, Rb, mL, mR, gmin, gmax)


def is_by_name(case):
    """the two images have their own band lists and these differ (order and/or number of bands)"""
    return case.get("bands_left") is not None and list(case["bands_left"]) != list(case["bands_right"])


def aligned_case(case):
    """the same pair with the right image's bands re-listed like the left image's (planes taken by name, zeros for a band the
    right image does not have): same selected planes, hence the same expected volume, but no dependence on the band order"""
    R = np.asarray(case["right"])
    br = list(case["bands_right"])
    planes = [R[br.index(nm)] if nm in br else np.zeros(R.shape[-2:], dtype=R.dtype) for nm in case["bands_left"]]
    out = {k: v for k, v in case.items() if k not in ("bands_left", "bands_right")}
    out["right"] = np.stack(planes).tolist()
    out["bands"] = list(case["bands_left"])
    return out


def evaluate(case):
    """run the real chain and the oracle; return list of (clause, witness_class, message, cell) and n finite oracle cells.
    For a pair whose band lists differ, a wrong cost / an exception that disappears when the right bands are re-listed in the
    left order (aligned_case) is reported under C02.band.by_name; otherwise under the general clause, as for any other pair."""
    viols, nfinite = _evaluate(case)
    if not is_by_name(case) or not any(v[0].startswith("C02.cost.") or v[0] == "C02.total" for v in viols):
        return viols, nfinite
    general = {v[0] for v in _evaluate(aligned_case(case))[0]}
    bl, br, band = list(case["bands_left"]), list(case["bands_right"]), case["band"]
    pos = "band-index-differs" if bl.index(band) != br.index(band) else "band-index-equal"
    out = []
    for clause, wclass, msg, cell in viols:
        if (clause.startswith("C02.cost.") or clause == "C02.total") and clause not in general:
            wclass = (case["method"] + "-" if clause != "C02.total" else "") + wclass.replace("-band-", "-") + "-" + pos
            msg += ("  [bands left %s, right %s, selected %r by name: planes %d / %d; the same pair with the right bands listed "
                    "in the left order agrees with the oracle]" % (bl, br, band, bl.index(band), br.index(band)))
            clause = "C02.band.by_name"
        out.append((clause, wclass, msg, cell))
    return out, nfinite


def _evaluate(case):
    left, right, mc_cfg, (Lb, Rb, mL, mR, gmin, gmax) = build(case)
    method, w, subpix = case["method"], int(case["window"]), int(case["subpix"])
    fractional = not (is_integer_grid(gmin) and is_integer_grid(gmax))
    kind = ("band" if case.get("band") else "mono")
    out = []
    try:
        cv = real_chain(left, right, mc_cfg)
    except Exception as e:  # the statement quantifies over every image pair / configuration of the domain
        nfinite = int(np.isfinite(oracle_volume(Lb, Rb, mL, mR, gmin, gmax, method, w, subpix)[1]).sum())
        wclass = "%s-%s%s" % (type(e).__name__, method, "-image-smaller-than-window" if min(Lb.shape) < w else "")
        out.append(("C02.total", wclass, "real chain raised %s: %s  (window %d, subpix %d, %s, image %dx%d)"
                    % (type(e).__name__, str(e)[:200], w, subpix, "band " + case["band"] if case.get("band") else "mono", Lb.shape[0], Lb.shape[1]), None))
        return out, nfinite
    real = cv["cost_volume"].data
    rdisp = np.asarray(cv.coords["disp"].data, dtype=np.float64)
    if fractional:
        # the statement does not say which samples exist for grids off the sampling step: the oracle follows the reported
        # axis, which must only be made of increasing multiples of 1/subpix ("integer, or multiples of 1/subpix")
        scaled = rdisp * subpix
        if rdisp.ndim != 1 or rdisp.size == 0 or not np.array_equal(scaled, np.round(scaled)) or not (np.diff(rdisp) > 0).all():
            planes = planes_of(int(np.min(gmin)), int(np.max(gmax)), subpix)
            nfinite = int(np.isfinite(oracle_volume(Lb, Rb, mL, mR, gmin, gmax, method, w, subpix, planes)[1]).sum())
            out.append(("C02.planes", "fractional-grids-subpix%d" % subpix,
                        "disp axis %s is not made of increasing multiples of 1/%d" % (rdisp.tolist(), subpix), None))
            return out, nfinite
        planes, ocost, cause = oracle_volume(Lb, Rb, mL, mR, gmin, gmax, method, w, subpix, rdisp.tolist())
    else:
        planes, ocost, cause = oracle_volume(Lb, Rb, mL, mR, gmin, gmax, method, w, subpix)
    nfinite = int(np.isfinite(ocost).sum())
    if rdisp.shape != (len(planes),) or not np.array_equal(rdisp, np.array(planes)):
        out.append(("C02.planes", "subpix%d" % subpix, "disp axis %s, expected %s" % (rdisp.tolist(), planes), None))
        return out, nfinite
    if real.shape != ocost.shape:
        out.append(("C02.planes", "shape", "volume shape %s, expected %s" % (real.shape, ocost.shape), None))
        return out, nfinite
    ny, nx, nd = ocost.shape
    for k in range(nd):
        fr = "frac" if planes[k] != int(planes[k]) else "int"
        for r in range(ny):
            for c in range(nx):
                rv, ov = float(real[r, c, k]), ocost[r, c, k]
                if np.isnan(ov):
                    if not np.isnan(rv):
                        out.append(("C02.nan.missing", "%s-%s" % (cause[r, c, k], fr),
                                    "cost %r at (row %d, col %d, d=%s) although not computable: %s" % (rv, r, c, planes[k], cause[r, c, k]),
                                    [r, c, k]))
                elif np.isnan(rv):
                    out.append(("C02.nan.spurious", "%s-%s" % (method, fr),
                                "NaN at (row %d, col %d, d=%s) although computable (oracle %r)" % (r, c, planes[k], ov), [r, c, k]))
                else:
                    bad = abs(rv - ov) > ZNCC_TOL if method == "zncc" else rv != ov
                    if bad:
                        out.append(("C02.cost." + method, "%s-%s-w%d" % (fr, kind, w),
                                    "cost %r at (row %d, col %d, d=%s), oracle %r" % (rv, r, c, planes[k], ov), [r, c, k]))
    # attributes
    tm = cv.attrs.get("type_measure")
    if tm != ("max" if method == "zncc" else "min"):
        out.append(("C02.attrs.type_measure", method, "type_measure=%r" % (tm,), None))
    cmax = cv.attrs.get("cmax")
    finite = np.isfinite(ocost)
    top = float(np.abs(ocost[finite]).max()) if finite.any() else 0.0
    rng_ = float(max(Lb.max(), Rb.max()) - min(Lb.min(), Rb.min()))
    loose = {"sad": rng_ * w * w, "ssd": rng_ ** 2 * w * w, "census": float(w * w), "zncc": 1.0}[method]
    if method in ("sad", "ssd") and not (is_integer_grid(Lb) and is_integer_grid(Rb)):
        # non-integer radiometry: the costs are not integers whereas cmax is reported as one (see the module docstring)
        tag = "%s-fractional-radiometry" % method
        cell = [int(i) for i in np.argwhere(finite & (np.abs(ocost) == top))[0]] if finite.any() else None
        where = "" if cell is None else " at (row %d, col %d, d=%s)" % (cell[0], cell[1], planes[cell[2]])
        facts = ("cmax=%r, largest computable cost=%r%s, trivial bound=%r (window %d, left radiometry in [%r, %r], right in [%r, %r])"
                 % (cmax, top, where, loose, w, float(Lb.min()), float(Lb.max()), float(Rb.min()), float(Rb.max())))
        if cmax is None:
            out.append(("C02.attrs.cmax", tag + "-cmax-missing", facts, None))
        elif top >= cmax + 1:
            out.append(("C02.attrs.cmax", tag + "-cost-above-cmax",
                        "a computable cost exceeds the reported maximal cost by %r (>= 1: more than reporting the bound as an integer "
                        "can lose): %s" % (top - cmax, facts), cell))
        elif top > cmax:
            out.append(("C02.attrs.cmax", tag + "-cost-above-cmax-by-less-than-one",
                        "a computable cost exceeds the reported maximal cost by %r (< 1: the fraction lost by reporting the bound as "
                        "an integer): %s" % (top - cmax, facts), cell))
        elif cmax > np.ceil(loose):
            # cmax is reported as an integer: an upper bound of the costs may exceed the real-valued trivial bound by the
            # rounding up, not by more
            out.append(("C02.attrs.cmax", tag + "-cmax-above-trivial-bound", facts, None))
    elif cmax is None or not (top - (ZNCC_TOL if method == "zncc" else 0) <= cmax <= loose) or (method == "zncc" and cmax != 1):
        out.append(("C02.attrs.cmax", "%s-%s" % (method, kind + ("-by-name" if is_by_name(case) else "")),
                    "cmax=%r, max |finite cost|=%r, trivial bound=%r" % (cmax, top, loose), None))
    return out, nfinite


def _mask(rng, shape, p):
    """mask over {VALID, NODATA, INVALID} with P(nodata)=P(invalid)=p"""
    return rng.choice([VALID, NODATA, INVALID], size=shape, p=[1 - 2 * p, p, p]).astype(int)


def gen_case(rng, method, w, subpix, bandmode, interval, rnd=99, fkind=0):
    ny, nx = int(rng.integers(4, 7)), int(rng.integers(7, 10))
    if rnd < 2:  # smallest images first: 4x7 then 5x7
        ny, nx = 4 + rnd, 7
    shape = (ny, nx) if bandmode == "mono" else (2, ny, nx)
    if rng.random() < 0.5 or rnd < 2:
        L, R = rng.choice([0, 1, 3], size=shape), rng.choice([0, 1, 3], size=shape)
    else:
        L, R = rng.integers(0, 16, size=shape), rng.integers(0, 16, size=shape)
    if rng.random() < 0.3:  # flat patches, to reach the zero-variance rule with windows 3 and 5
        R[..., :, : nx // 2] = R[..., :1, :1]
        if rng.random() < 0.5:
            L[..., :, nx // 3:] = L[..., :1, :1]
    case = {"method": method, "window": w, "subpix": subpix, "left": L.tolist(), "right": R.tolist(),
            "band": None, "bands": None, "msk_left": None, "msk_right": None, "interval": None, "gmin": None, "gmax": None}
    if bandmode != "mono":
        case["bands"], case["band"] = ["r", "g"], bandmode
    mm = int(rng.integers(0, 4)) if rnd >= 2 else 0  # 0: no mask, 1: left, 2: right, 3: both
    p = float(rng.choice([0.03, 0.08, 0.15]))
    if mm in (1, 3):
        case["msk_left"] = _mask(rng, (ny, nx), p).tolist()
    if mm in (2, 3):
        case["msk_right"] = _mask(rng, (ny, nx), p).tolist()
        if rng.random() < 0.5:
            # the right image has its OWN mask convention (each dataset carries valid_pixels / no_data_mask in its attributes);
            # the first one reuses the left image's codes for other meanings
            case["right_codes"] = [[1, 0, 2], [5, 7, 9], [2, 1, 0]][int(rng.integers(0, 3))]
    if interval == "frac":
        case["gmin"], case["gmax"] = fractional_grids(rng, ny, nx, fkind)
    elif interval is not None:
        case["interval"] = list(interval)
    else:
        a = rng.integers(-3, 4, size=(ny, nx))
        b = rng.integers(-3, 4, size=(ny, nx))
        case["gmin"], case["gmax"] = np.minimum(a, b).tolist(), np.maximum(a, b).tolist()
    return case


BAND_LISTS = [list(p) for k in (2, 3) for p in itertools.permutations("rgb", k)]  # the 12 lists of 2 or 3 distinct names
BAND_TRIPLES = [(bl, br, b) for bl in BAND_LISTS for br in BAND_LISTS if bl != br for b in bl if b in br]
BAND_TRIPLES_MOVED = [t for t in BAND_TRIPLES if t[0].index(t[2]) != t[1].index(t[2])]  # selected band at another position
BAND_TRIPLES_FIXED = [t for t in BAND_TRIPLES if t[0].index(t[2]) == t[1].index(t[2])]  # same position, lists differ
BAND_FIRST = [(["r", "g", "b"], ["b", "g", "r"], "r"), (["r", "g"], ["g", "r"], "g"), (["r", "g"], ["b", "g", "r"], "r")]


def gen_band_case(rng, method, w, subpix, interval, rnd=99, fkind=0):
    """multiband pair whose band lists differ (order and/or number of bands), one band common to both selected by name.
    Geometry, masks, interval/grids and the two selected planes are those of gen_case; the other planes are random."""
    case = gen_case(rng, method, w, subpix, "mono", interval, rnd, fkind)
    Lsel, Rsel = np.asarray(case["left"]), np.asarray(case["right"])
    if rnd < len(BAND_FIRST):
        bl, br, band = BAND_FIRST[rnd]
    else:
        pool = BAND_TRIPLES_MOVED if rng.random() < 0.75 else BAND_TRIPLES_FIXED
        bl, br, band = pool[int(rng.integers(len(pool)))]
    small = max(Lsel.max(), Rsel.max()) <= 3

    def stack(sel, names):
        planes = [sel if nm == band else (rng.choice([0, 1, 3], size=sel.shape) if small else rng.integers(0, 16, size=sel.shape))
                  for nm in names]
        return np.stack(planes).tolist()

    case["left"], case["right"] = stack(Lsel, bl), stack(Rsel, br)
    case["band"], case["bands_left"], case["bands_right"] = band, list(bl), list(br)
    return case


N_FRACTIONAL_KINDS = 7


def _off_step(rng, size):
    """values within [-3.1, 3.1] that are multiples of neither 1, 1/2 nor 1/4: n/4 +- {0.05, 0.1} (then rounded to float32)"""
    return rng.integers(-12, 13, size=size) / 4.0 + rng.choice([-0.1, -0.05, 0.05, 0.1], size=size)


def fractional_grids(rng, ny, nx, fkind):
    """per-pixel [min,max] float32 grids with values off the sampling step of every subpix in {1,2,4}; min <= max everywhere
    (a pixel's interval may hold no sample at all, e.g. [0.3, 0.45]).  Returned as lists of the exact float32 values."""
    shape = (ny, nx)
    fkind %= N_FRACTIONAL_KINDS
    if fkind == 0:  # the same off-step interval for every pixel, straddling 0
        gmin, gmax = np.full(shape, -1.3), np.full(shape, 1.7)
    elif fkind == 1:  # the same off-step interval for every pixel, on one side of 0 (int() truncates towards 0)
        a, b = _off_step(rng, 2).tolist()
        sign = 1.0 if rng.random() < 0.5 else -1.0
        lo, hi = sorted([sign * (abs(a) % 1.0), sign * (abs(b) % 1.0 + 2.0)])  # +-[0.x, 2.y]
        gmin, gmax = np.full(shape, lo), np.full(shape, hi)
    elif fkind == 2:  # both off-step, per pixel
        a, b = _off_step(rng, shape), _off_step(rng, shape)
        gmin, gmax = np.minimum(a, b), np.maximum(a, b)
    elif fkind == 3:  # fractional min, integer max
        gmin = _off_step(rng, shape)
        gmax = np.maximum(np.ceil(gmin), np.minimum(np.ceil(gmin) + rng.integers(0, 3, size=shape), 3))
    elif fkind == 4:  # integer min, fractional max
        gmax = _off_step(rng, shape)
        gmin = np.minimum(np.floor(gmax), np.maximum(np.floor(gmax) - rng.integers(0, 3, size=shape), -3))
    elif fkind == 5:  # every bound independently: integer, on a 1/2 or 1/4 step, or off-step
        a = np.where(rng.random(shape) < 0.5, rng.integers(-12, 13, size=shape) / 4.0, _off_step(rng, shape))
        b = np.where(rng.random(shape) < 0.5, rng.integers(-12, 13, size=shape) / 4.0, _off_step(rng, shape))
        gmin, gmax = np.minimum(a, b), np.maximum(a, b)
    else:  # column-wise intervals one sampling step wide or narrower around random centres
        c = rng.integers(-8, 9, size=(1, nx)) / 4.0
        half = rng.choice([0.05, 0.3, 0.55, 0.8, 1.3], size=(1, nx))
        gmin, gmax = np.repeat(c - half, ny, 0), np.repeat(c + half, ny, 0)
    gmin, gmax = gmin.astype(np.float32), gmax.astype(np.float32)
    assert (gmin <= gmax).all()
    return gmin.tolist(), gmax.tolist()


RADIOMETRY_KINDS = ("unit-half-open", "unit-closed", "bright-dark-planted", "general")
RADIOMETRY_ROUNDS = {"quick": 1, "thorough": 12}  # random rounds of the 2 x 3 x 3 x 4 (measure, window, subpix, kind) combinations
RADIOMETRY_CONSTANTS = [(1.5, 0.0), (0.875, 0.0)]  # (left, right) radiometry of the constant w x w pairs run first


def _radiometry_case(method, w, subpix, L, R, interval):
    return {"method": method, "window": w, "subpix": subpix, "left": np.asarray(L).tolist(), "right": np.asarray(R).tolist(),
            "band": None, "bands": None, "msk_left": None, "msk_right": None, "interval": list(interval), "gmin": None, "gmax": None}


def gen_radiometry_case(rng, method, w, subpix, kind, rnd=99):
    """sad/ssd pair with NON-INTEGER radiometry: multiples of 1/8 (exact in float32, as are the costs, also interpolated ones), scalar
    interval containing 0 within [-2,2], image of w+1..w+3 rows x w+3..w+5 columns (smallest first).  Kinds:
      unit-half-open       reflectance-like images normalised to [0,1): values k/8, k in 0..7;
      unit-closed          images normalised to [0,1]: values k/8, k in 0..8, both 0 and 1 present in each image;
      bright-dark-planted  left in [2.5,3.75], right in [0.25,1.0], with one w x w patch holding the left maximum / the right minimum
                           at the same place in both images, so that the largest cost the measure allows is reached at d = 0;
      general              values k/8, k in 0..40, random masks (as gen_case) in half of the cases."""
    ny, nx = (w + 1, w + 3) if rnd == 0 else (w + int(rng.integers(1, 4)), w + int(rng.integers(3, 6)))
    a, b = int(rng.integers(-2, 1)), int(rng.integers(0, 3))
    shape = (ny, nx)
    if kind == "unit-half-open":
        L, R = rng.integers(0, 8, size=shape) / 8.0, rng.integers(0, 8, size=shape) / 8.0
    elif kind == "unit-closed":
        L, R = rng.integers(0, 9, size=shape) / 8.0, rng.integers(0, 9, size=shape) / 8.0
        for im in (L, R):
            spots = rng.choice(ny * nx, size=2, replace=False)
            im.flat[spots[0]], im.flat[spots[1]] = 0.0, 1.0
    elif kind == "bright-dark-planted":
        L, R = rng.integers(20, 31, size=shape) / 8.0, rng.integers(2, 9, size=shape) / 8.0
        r0, c0 = int(rng.integers(0, ny - w + 1)), int(rng.integers(0, nx - w + 1))
        L[r0:r0 + w, c0:c0 + w], R[r0:r0 + w, c0:c0 + w] = 3.75, 0.25
    else:
        L, R = rng.integers(0, 41, size=shape) / 8.0, rng.integers(0, 41, size=shape) / 8.0
    case = _radiometry_case(method, w, subpix, L, R, (a, b))
    if kind == "general" and rng.random() < 0.5:
        p = float(rng.choice([0.03, 0.08]))
        case["msk_left"], case["msk_right"] = _mask(rng, shape, p).tolist(), _mask(rng, shape, p).tolist()
    return case


def enumerate_radiometry(tier, seed):
    """the cases with non-integer radiometry (sad/ssd, windows 1/3/5), run before all the others: first the constant w x w pairs
    of RADIOMETRY_CONSTANTS with the single disparity 0 (one computable cell: the smallest witnesses), then random rounds"""
    for lv, rv in RADIOMETRY_CONSTANTS:
        for m in ("sad", "ssd"):
            for w in (1, 3, 5):
                yield _radiometry_case(m, w, 1, np.full((w, w), lv), np.full((w, w), rv), (0, 0))
    rng_r = np.random.default_rng([seed, 0xF8])  # own stream: the other cases do not depend on these
    for n in range(RADIOMETRY_ROUNDS[tier]):
        for kind in RADIOMETRY_KINDS:
            for m in ("sad", "ssd"):
                for w in (1, 3, 5):
                    for s in (1, 2, 4):
                        yield gen_radiometry_case(rng_r, m, w, s, kind, n)


def is_fractional_radiometry(case):
    return not (is_integer_grid(case["left"]) and is_integer_grid(case["right"]))


def enumerate_domain(tier, seed):
    yield from enumerate_radiometry(tier, seed)
    rng = np.random.default_rng(seed)
    per_combo = PER_COMBO[tier]
    combos = [(m, w, s, b) for (m, w) in METHOD_WINDOWS for s in (1, 2, 4) for b in ("mono", "r", "g")]
    rng_b = np.random.default_rng([seed, 0xB02])  # own stream: the cases of the 99 combinations do not depend on the by-name cases
    n_scalar = n_frac = nb_scalar = nb_frac = 0
    for n in range(per_combo):
        for idx, (m, w, s, b) in enumerate(combos):
            # by turns for every combination: scalar interval (cycling over all 28 of [-3,3]) twice, integer per-pixel grids,
            # fractional per-pixel grids (cycling over the N_FRACTIONAL_KINDS kinds of fractional_grids)
            turn = (idx + n + seed) % 4
            if turn == 2:
                yield gen_case(rng, m, w, s, b, None, n)
            elif turn == 3:
                yield gen_case(rng, m, w, s, b, "frac", n, fkind=n_frac)
                n_frac += 1
            else:
                yield gen_case(rng, m, w, s, b, INTERVALS[n_scalar % len(INTERVALS)], n)
                n_scalar += 1
        # band selected by name, band lists differing between left and right: one case per (measure, window) and round, subpix and
        # interval kind by turns (period 12: every (subpix, kind) pair), first the three band layouts of BAND_FIRST
        for idx, (m, w) in enumerate(METHOD_WINDOWS):
            s = (1, 2, 4)[(idx + n + seed) % 3]
            turn = (idx + n + seed) % 4
            if turn == 2:
                yield gen_band_case(rng_b, m, w, s, None, n)
            elif turn == 3:
                yield gen_band_case(rng_b, m, w, s, "frac", n, fkind=nb_frac)
                nb_frac += 1
            else:
                yield gen_band_case(rng_b, m, w, s, INTERVALS[(5 * nb_scalar + 12) % len(INTERVALS)], n)
                nb_scalar += 1


def case_key(case):
    return repr(sorted((k, repr(v)) for k, v in case.items()))


def run(tier, seed):
    rec = Recorder()
    rec.functions.update(REAL_FUNCTIONS)
    budget = 72 if tier == "quick" else 1000  # wall seconds, import of pandora included
    t0 = time.time()
    done = nfrac = nbyname = nradio = 0
    for case in enumerate_domain(tier, seed):
        if time.time() - t0 > budget:
            break
        viols, nfinite = evaluate(case)
        done += 1
        nfrac += int(case["gmin"] is not None and not (is_integer_grid(case["gmin"]) and is_integer_grid(case["gmax"])))
        nbyname += int(is_by_name(case))
        nradio += int(is_fractional_radiometry(case))
        small = {k: case[k] for k in ("method", "window", "subpix", "band", "interval")}
        if is_by_name(case):
            small["bands_left"], small["bands_right"] = case["bands_left"], case["bands_right"]
        small["grids"] = None if case["gmin"] is None else ("integer" if is_integer_grid(case["gmin"]) and is_integer_grid(case["gmax"]) else "fractional")
        small["shape"] = list(np.shape(case["left"]))
        small["radiometry"] = "multiples of 1/8" if is_fractional_radiometry(case) else "integer"
        small["computable_cells"] = nfinite
        rec.case(key=case_key(case), nontrivial=nfinite > 0, sample=small)
        for clause, wclass, msg, cell in viols:
            wit = dict(case)
            wit.update({"clause": clause, "witness_class": wclass, "cell": cell})
            rec.violation(clause=clause, witness_class=wclass, message=msg, witness=wit)
    return rec.result(
        bound="[run first] sad/ssd x windows {1,3,5} on pairs with NON-INTEGER radiometry (multiples of 1/8): constant w x w pairs "
              "(left 1.5 / right 0, left 0.875 / right 0; single disparity 0), then %d round(s) of one random pair per (measure, window, "
              "subpix {1,2,4}, kind) of w+1..w+3 rows x w+3..w+5 columns with a scalar interval [a,b], -2<=a<=0<=b<=2, kinds: images "
              "normalised to [0,1) (k/8, k<=7); normalised to [0,1] (k/8, k<=8, 0 and 1 present in both); left in [2.5,3.75] / right in "
              "[0.25,1.0] with a w x w patch of the left maximum facing the right minimum; k/8 for k<=40 with random masks in half of "
              "the cases: %d such cases run.  [then] seeded-random image pairs of 4..6 rows x 7..9 columns (mono, or 2 bands 'r','g' with either band selected) over "
              "{0,1,3} or integers 0..15 (with flat patches in 3 cases out of 10), masks absent/left/right/both over {0 valid,1 nodata,2 invalid}, "
              "measures sad/ssd/zncc x windows {1,3,5} and census x {3,5}, subpix {1,2,4}, all 28 scalar intervals within [-3,3] "
              "(1/2 of the cases), random integer per-pixel grids min<=max within [-3,3] (1/4), or float32 per-pixel grids min<=max within "
              "[-4,4] whose values are off the sampling step (1/4; %d kinds by turns: constant [-1.3,1.7]; constant +-[0.x,2.y]; both "
              "bounds n/4 +- {0.05,0.1} per pixel; fractional min with integer max; integer min with fractional max; each bound independently "
              "on a 1/4 step or off-step; column-wise intervals narrower than / about one step); %d cases per (measure,window,subpix,band) "
              "combination requested; plus, per round, one by-name pair per (measure,window) [subpix and interval kind by turns]: 2 or 3 bands "
              "named among r,g,b in each image, the two band lists differing in order and/or number (first r,g,b/b,g,r select r; r,g/g,r "
              "select g; r,g/b,g,r select r; then drawn among the %d (left list, right list, common band) triples, 3 out of 4 with the selected "
              "band at different positions), the band selected by name; %d cases run of which %d with fractional grids and %d by-name pairs"
              % (RADIOMETRY_ROUNDS[tier], nradio, N_FRACTIONAL_KINDS, PER_COMBO[tier], len(BAND_TRIPLES), done, nfrac, nbyname),
        rule="non-integer radiometry cases (own stream default_rng([seed, 0xF8])) come first and are checked like every other case "
             "(costs are multiples of 1/1024, exact in float32); with them the reported maximal cost (an integer attribute) is checked "
             "as an upper bound of every computable cost, witness classes telling apart an excess >= 1 (cost-above-cmax) from an excess "
             "< 1 (cost-above-cmax-by-less-than-one, the truncation of the bound to an integer), and as <= the trivial bound of the measure; "
             "no formula for cmax is demanded (none is documented in the user guide or the docstrings).  Then: cases are drawn with np.random.default_rng(seed), round-robin over the 99 (measure,window,subpix,band) combinations, each "
             "combination taking by turns scalar, scalar, integer grids, fractional grids; every cell (row,col,disparity plane) of the real "
             "cost volume is compared with the naive oracle: exactly for sad/ssd/census (integer radiometry, costs are multiples of 1/16), "
             "|diff|<=1e-4 for zncc; NaN pattern compared exactly (a sample d is outside a pixel's interval iff d < min(r,c) or d > max(r,c), "
             "real-number comparison with the float32 grid values).  Disparity axis: must be int(min)..int(max) by 1/subpix for scalar "
             "intervals and integer grids; for fractional grids the oracle is evaluated on the axis the real volume reports (only required "
             "to be increasing multiples of 1/subpix).  By-name pairs (own stream default_rng([seed, 0xB02]), 11 at the end of every round): "
             "the oracle takes the plane named `band` in each image independently; a wrong cost / exception there that does not occur when "
             "the right image's bands are re-listed in the left order is reported as C02.band.by_name, otherwise under the general clause.  distinct = distinct full input (images, masks, interval/grids, configuration); "
             "non-trivial = the oracle has at least one computable (finite) cell")


def replay(witness):
    case = {k: v for k, v in witness.items() if k not in ("clause", "witness_class", "cell")}
    viols, _ = evaluate(case)
    for clause, wclass, _msg, cell in viols:
        if clause == witness.get("clause") and wclass == witness.get("witness_class"):
            return True
    return False
