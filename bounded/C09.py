"""Bounded stand-in of C09: the requested disparity interval is honoured and does not leak into costs.

Relates runs of the real code (no cost oracle is needed - C02 has it):
  A  slice   : volume(interval i) == planes of volume(interval o) for every nested pair i c o within [-3,3]
               (matching-cost step as the machine runs it, with and without cbca aggregation)
  B  grid    : per-pixel grids: same cost as the scalar global interval inside the pixel's interval, NaN outside;
               constant grids == scalar interval (cost volume, disparity axis, validity mask).  The grids are float32
               rasters and may lie off the sampling step (min=-1.3, max=1.7 ...): a sample d of the reported axis
               (cv.coords['disp']) is inside iff min(r,c) <= d <= max(r,c); the scalar run it is compared with spans the
               reported axis; no particular axis is demanded for fractional grids (only multiples of 1/subpix)
  C  pipeline: pandora.run of single-scale pipelines: disparity_interval stored after the disparity step == interval
               searched; valid pixels (validity_mask & 0b01111000011 == 0) inside their own interval right after the
               disparity and refinement steps, and inside the global interval at the end (left map; right map against
               the right interval under a separate clause); with fractional grids the interval searched is read on the
               cost volume after the matching-cost step and the intervals are compared as real numbers
"""
import copy
import logging
import time

import numpy as np
import xarray as xr

from bounded.common import Recorder
from bounded.C02 import make_dataset, real_chain, planes_of, INTERVALS, METHOD_WINDOWS, is_integer_grid, fractional_grids, N_FRACTIONAL_KINDS

INVALID_BITS = 0b01111000011
FILLED_OCC, FILLED_MIS = 1 << 4, 1 << 5
INVALID_DISP = -9999
NESTED = [(i, o) for o in INTERVALS for i in INTERVALS if o[0] <= i[0] and i[1] <= o[1] and i != o]


# ------------------------------------------------------------------------------------------------ real code drivers
def cost_volume(L, R, mL, mR, disp, mc_cfg, agg):
    """matching-cost step (+ optional cbca) as the machine runs it; returns (disp axis, cost volume, validity mask)"""
    left, right = make_dataset(L, mL, disp), make_dataset(R, mR)
    cv = real_chain(left, right, mc_cfg)
    if agg:
        from pandora import aggregation

        aggregation.AbstractAggregation(**{"aggregation_method": "cbca"}).cost_volume_aggregation(left, right, cv)
    return np.asarray(cv.coords["disp"].data, dtype=np.float64), cv["cost_volume"].data.copy(), cv["validity_mask"].data.copy()


def _metadata(ds):
    """what img_tools.get_metadata gives check_conf: coordinates + disparity, no raster"""
    md = xr.Dataset(data_vars={}, coords={"band_im": [None], "row": ds.coords["row"].data, "col": ds.coords["col"].data})
    if "disparity" in ds:
        md.coords["band_disp"] = ["min", "max"]
        md["disparity"] = ds["disparity"]
    md.attrs["disparity_source"] = ds.attrs["disparity_source"]
    return md


def run_pipeline(L, R, mL, mR, disp, pipeline):
    """check the configuration, pandora.run; returns (left, right, snapshots {step: (disparity_map, validity_mask, interval)})"""
    import pandora
    from pandora import check_configuration
    from pandora.state_machine import PandoraMachine

    class SnapMachine(PandoraMachine):
        """PandoraMachine that copies the left products after each step (observation only)"""

        snaps = None

        def run(self, input_step, cfg):
            super().run(input_step, cfg)
            if self.snaps is None:
                self.snaps = {}
            if input_step.split(".")[0] == "matching_cost" and self.left_cv is not None:
                self.snaps["cv_axis"] = np.asarray(self.left_cv.coords["disp"].data, dtype=np.float64).copy()
            ds = self.left_disparity
            if ds is not None and "disparity_map" in ds:
                self.snaps[input_step] = (ds["disparity_map"].data.copy(), ds["validity_mask"].data.copy(),
                                          np.asarray(ds["disparity_interval"].data, dtype=np.float64).copy())

    if np.ndim(disp[0]) == 0:
        rdisp = None
    else:  # grids on the left need grids on the right for cross-checking: the mirrored interval, pixel by pixel
        rdisp = (-np.asarray(disp[1]), -np.asarray(disp[0]))
    left, right = make_dataset(L, mL, disp), make_dataset(R, mR, rdisp)
    machine = SnapMachine()
    logging.getLogger("transitions.core").setLevel(logging.ERROR)  # "Skip binding of may_check_..." noise of re-added transitions
    cfg = check_configuration.check_pipeline_section({"pipeline": copy.deepcopy(pipeline)}, _metadata(left), _metadata(right), machine)
    check_configuration.check_datasets(left, right)
    out_left, out_right = pandora.run(machine, left, right, cfg)
    return out_left, out_right, machine.snaps or {}


REAL_FUNCTIONS = [
    "pandora.run",
    "pandora.check_configuration.check_pipeline_section",
    "pandora.check_configuration.check_datasets",
    "pandora.state_machine.PandoraMachine.run_prepare",
    "pandora.state_machine.PandoraMachine.run",
    "pandora.img_tools.add_disparity",
    "pandora.matching_cost.matching_cost.AbstractMatchingCost.allocate_cost_volume",
    "pandora.matching_cost.matching_cost.AbstractMatchingCost.grid_estimation",
    "pandora.matching_cost.matching_cost.AbstractMatchingCost.get_min_max_from_grid",
    "pandora.matching_cost.matching_cost.AbstractMatchingCost.get_disparity_range",
    "pandora.matching_cost.matching_cost.AbstractMatchingCost.cv_masked",
    "pandora.matching_cost.sad_ssd.SadSsd.compute_cost_volume",
    "pandora.matching_cost.census.Census.compute_cost_volume",
    "pandora.matching_cost.zncc.Zncc.compute_cost_volume",
    "pandora.criteria.validity_mask",
    "pandora.aggregation.cbca.CrossBasedCostAggregation.cost_volume_aggregation",
    "pandora.disparity.disparity.WinnerTakesAll.to_disp",
    "pandora.disparity.disparity.extract_disparity_interval_from_cost_volume",
    "pandora.refinement.refinement.AbstractRefinement.subpixel_refinement",
    "pandora.filter.median.MedianFilter.filter_disparity",
    "pandora.filter.bilateral.BilateralFilter.filter_disparity",
    "pandora.validation.validation.CrossCheckingAccurate.disparity_checking",
    "pandora.validation.interpolated_disparity.McCnnInterpolation.interpolated_disparity",
    "pandora.validation.interpolated_disparity.SgmInterpolation.interpolated_disparity",
]


def mc_cfg_of(method, w, subpix):
    return {"matching_cost_method": method, "window_size": int(w), "subpix": int(subpix)}


def nan_equal(a, b):
    return a.shape == b.shape and bool(np.array_equal(a, b, equal_nan=True))


# ------------------------------------------------------------------------------------------------ part A: slices
def check_slices(inp, pairs=None):
    """inp: dict(left,right,msk_left,msk_right,method,window,subpix,agg).  Yields (inner, outer, finite_cells, violations)"""
    L, R = np.asarray(inp["left"]), np.asarray(inp["right"])
    mL = None if inp.get("msk_left") is None else np.asarray(inp["msk_left"])
    mR = None if inp.get("msk_right") is None else np.asarray(inp["msk_right"])
    cfg, s = mc_cfg_of(inp["method"], inp["window"], inp["subpix"]), int(inp["subpix"])
    pairs = NESTED if pairs is None else [(tuple(i), tuple(o)) for i, o in pairs]
    vols = {}
    for itv in sorted({x for p in pairs for x in p}):
        try:
            vols[itv] = cost_volume(L, R, mL, mR, itv, cfg, inp["agg"])
        except Exception as e:  # pylint: disable=broad-except
            vols[itv] = e
    tag = "%s%s" % (inp["method"], "-cbca" if inp["agg"] else "")
    for inner, outer in pairs:
        vi, vo = vols[inner], vols[outer]
        viol = []
        if isinstance(vi, Exception) or isinstance(vo, Exception):
            # a run that cannot be made is not a statement about costs; it is reported apart (see `skipped` in run())
            yield inner, outer, -1, [("skipped", type(vi if isinstance(vi, Exception) else vo).__name__, "")]
            continue
        for itv, v in ((inner, vi), (outer, vo)):
            exp = np.array(planes_of(itv[0], itv[1], s))
            if v[0].shape != exp.shape or not np.array_equal(v[0], exp):
                viol.append(("C09.range", "subpix%d" % s, "disparity axis %s for interval %s, expected %s" % (v[0].tolist(), list(itv), exp.tolist())))
        if not viol:
            k0 = (inner[0] - outer[0]) * s
            sub = vo[1][:, :, k0:k0 + vi[1].shape[2]]
            if not nan_equal(vi[1], sub):
                bad = np.argwhere(~((vi[1] == sub) | (np.isnan(vi[1]) & np.isnan(sub))))
                r, c, k = (int(x) for x in bad[0])
                nanpat = bool((np.isnan(vi[1]) != np.isnan(sub)).any())
                viol.append(("C09.slice", "%s-%s" % (tag, "nan-pattern" if nanpat else "value"),
                             "interval %s vs %s: cost at (row %d, col %d, d=%s) is %r in the small volume and %r in the large one (%d cells differ)"
                             % (list(inner), list(outer), r, c, vi[0][k], float(vi[1][r, c, k]), float(sub[r, c, k]), len(bad))))
        yield inner, outer, int(np.isfinite(vi[1]).sum()), viol


# ------------------------------------------------------------------------------------------------ part B: grids
def check_grid(inp):
    """inp: as check_slices + gmin, gmax.  Returns (nontrivial, violations, skipped_exception_name)"""
    L, R = np.asarray(inp["left"]), np.asarray(inp["right"])
    mL = None if inp.get("msk_left") is None else np.asarray(inp["msk_left"])
    mR = None if inp.get("msk_right") is None else np.asarray(inp["msk_right"])
    g32min, g32max = np.asarray(inp["gmin"], dtype=np.float32), np.asarray(inp["gmax"], dtype=np.float32)  # what the real code is given
    gmin, gmax = g32min.astype(np.float64), g32max.astype(np.float64)
    fractional = not (is_integer_grid(gmin) and is_integer_grid(gmax))
    cfg, s = mc_cfg_of(inp["method"], inp["window"], inp["subpix"]), int(inp["subpix"])
    tag = "%s%s" % (inp["method"], "-cbca" if inp["agg"] else "")
    try:
        dg, vg, mg = cost_volume(L, R, mL, mR, (g32min, g32max), cfg, inp["agg"])
        if fractional:  # the scalar interval spanning the axis that the real volume reports
            glob = (int(np.floor(dg[0])), int(np.ceil(dg[-1])))
        else:
            glob = (int(gmin.min()), int(gmax.max()))
        ds_, vs, ms = cost_volume(L, R, mL, mR, glob, cfg, inp["agg"])
    except Exception as e:  # pylint: disable=broad-except
        return False, [], type(e).__name__
    viol = []
    if fractional:
        # nothing is demanded about which samples the axis holds, except that they are samples (multiples of 1/subpix)
        # of the scalar axis, so that "the scalar-interval cost" exists for each of them
        exp = dg
        pos = np.searchsorted(ds_, dg)
        if dg.size == 0 or (pos >= ds_.size).any() or not np.array_equal(ds_[np.minimum(pos, ds_.size - 1)], dg) or not (np.diff(dg) > 0).all():
            viol.append(("C09.range", "fractional-grid-subpix%d" % s, "disparity axis %s for fractional grids is not made of increasing samples of "
                         "the scalar axis %s" % (dg.tolist(), ds_.tolist())))
            return True, viol, None
        vs = vs[:, :, pos]
    else:
        exp = np.array(planes_of(glob[0], glob[1], s))
        if dg.shape != exp.shape or not np.array_equal(dg, exp):
            viol.append(("C09.range", "grid-subpix%d" % s, "disparity axis %s for grids spanning %s, expected %s" % (dg.tolist(), list(glob), exp.tolist())))
            return True, viol, None
    uniform = bool((gmin == gmin.flat[0]).all() and (gmax == gmax.flat[0]).all())
    constant = uniform and not fractional  # only then is there a scalar interval that the grids are "equivalent" to as a whole
    inside = (exp[None, None, :] >= gmin[:, :, None]) & (exp[None, None, :] <= gmax[:, :, None])
    leak = ~inside & ~np.isnan(vg)
    if leak.any():
        r, c, k = (int(x) for x in np.argwhere(leak)[0])
        below = bool(exp[k] < gmin[r, c])
        bound = gmin[r, c] if below else gmax[r, c]
        viol.append(("C09.grid.outside", tag + ("" if bound == round(bound) else ("-below-fractional-min" if below else "-above-fractional-max")),
                     "cost %r at (row %d, col %d, d=%s) outside the pixel's interval [%r,%r]"
                     % (float(vg[r, c, k]), r, c, exp[k], float(gmin[r, c]), float(gmax[r, c]))))
    if not inp["agg"] or uniform:
        # with aggregation a neighbour's NaN legitimately changes the aggregate, the statement is about the matching costs
        # (when every pixel has the same interval whole planes are NaN and the other planes aggregate as in the scalar run)
        diff = inside & ~((vg == vs) | (np.isnan(vg) & np.isnan(vs)))
        if diff.any():
            r, c, k = (int(x) for x in np.argwhere(diff)[0])
            viol.append(("C09.grid.constant" if constant else "C09.grid.inside", tag,
                         "cost at (row %d, col %d, d=%s) is %r with grids and %r with the scalar interval %s"
                         % (r, c, exp[k], float(vg[r, c, k]), float(vs[r, c, k]), list(glob))))
    if constant and not np.array_equal(mg, ms):
        r, c = (int(x) for x in np.argwhere(mg != ms)[0])
        viol.append(("C09.grid.constant", tag + "-validity-mask", "validity mask at (row %d, col %d) is %d with constant grids and %d with the scalar interval"
                     % (r, c, int(mg[r, c]), int(ms[r, c]))))
    return bool(np.isfinite(vg).any() and (constant or (~inside).any())), viol, None


# ------------------------------------------------------------------------------------------------ part C: pipelines
def describe(pipeline):
    p = pipeline
    parts = ["%s%d/%d" % (p["matching_cost"]["matching_cost_method"], p["matching_cost"]["window_size"], p["matching_cost"]["subpix"])]
    if "aggregation" in p:
        parts.append("cbca")
    parts.append("wta")
    if "refinement" in p:
        parts.append(p["refinement"]["refinement_method"])
    if "filter" in p:
        parts.append(p["filter"]["filter_method"])
    if "validation" in p:
        parts.append("cca" + ("+" + p["validation"]["interpolated_disparity"] if "interpolated_disparity" in p["validation"] else ""))
    return ">".join(parts)


def make_pipeline(method, w, subpix, agg, refinement, filt, validation):
    p = {"matching_cost": mc_cfg_of(method, w, subpix)}
    if agg:
        p["aggregation"] = {"aggregation_method": "cbca"}
    p["disparity"] = {"disparity_method": "wta", "invalid_disparity": INVALID_DISP}
    if refinement:
        p["refinement"] = {"refinement_method": refinement}
    if filt == "median":
        p["filter"] = {"filter_method": "median", "filter_size": 3}
    elif filt == "bilateral":
        p["filter"] = {"filter_method": "bilateral", "sigma_color": 2.0, "sigma_space": 6.0}
    if validation:
        p["validation"] = {"validation_method": "cross_checking_accurate", "cross_checking_threshold": 1.0}
        if validation != "cca":
            p["validation"]["interpolated_disparity"] = validation
    return p


def _outside(disp, valid, lo, hi):
    """valid pixels whose disparity is not within [lo, hi] (NaN is not within anything)"""
    with np.errstate(invalid="ignore"):
        return valid & ~((disp >= lo) & (disp <= hi))


def check_pipeline(inp):
    """inp: dict(left,right,msk_left,msk_right, interval | gmin,gmax, pipeline).  Returns (nontrivial, violations, skipped)"""
    L, R = np.asarray(inp["left"]), np.asarray(inp["right"])
    mL = None if inp.get("msk_left") is None else np.asarray(inp["msk_left"])
    mR = None if inp.get("msk_right") is None else np.asarray(inp["msk_right"])
    if inp.get("interval") is not None:
        a, b = (int(x) for x in inp["interval"])
        disp = (a, b)
        gmin, gmax = np.full(L.shape, a), np.full(L.shape, b)
    else:
        g32min, g32max = np.asarray(inp["gmin"], dtype=np.float32), np.asarray(inp["gmax"], dtype=np.float32)
        disp = (g32min, g32max)
        gmin, gmax = g32min.astype(np.float64), g32max.astype(np.float64)
    fractional = not (is_integer_grid(gmin) and is_integer_grid(gmax))
    # requested global interval (real numbers); for integer intervals it is also the interval that must be searched
    lo, hi = float(gmin.min()), float(gmax.max())
    pipeline = inp["pipeline"]
    try:
        left, right, snaps = run_pipeline(L, R, mL, mR, disp, pipeline)
    except Exception as e:  # pylint: disable=broad-except
        return False, [], "%s in %s" % (type(e).__name__, describe(pipeline))
    viol = []
    desc = describe(pipeline)
    # stored interval == interval searched, right after the disparity step and at the end.  With fractional grids the interval
    # searched is the one spanned by the disparity axis of the cost volume after the matching-cost step (no axis is demanded)
    slo, shi = (float(snaps["cv_axis"][0]), float(snaps["cv_axis"][-1])) if fractional else (lo, hi)
    for where, itv in (("disparity", snaps["disparity"][2]), ("final", np.asarray(left["disparity_interval"].data, dtype=np.float64))):
        if itv.shape != (2,) or float(itv[0]) != slo or float(itv[1]) != shi:
            viol.append(("C09.stored", "after-" + where + ("-fractional-grids" if fractional else ""),
                         "disparity_interval %s, searched interval [%r,%r]" % (itv.tolist(), slo, shi)))
    # per-pixel interval right after disparity and refinement
    for step in ("disparity", "refinement"):
        if step in snaps:
            d, m, _ = snaps[step]
            bad = _outside(d, (m & INVALID_BITS) == 0, gmin, gmax)
            if bad.any():
                r, c = (int(x) for x in np.argwhere(bad)[0])
                viol.append(("C09.pixel." + step, "nan" if np.isnan(d[r, c]) else "outside-own-interval",
                             "%s: after %s, valid pixel (row %d, col %d, mask %d) has disparity %r outside its interval [%r,%r]"
                             % (desc, step, r, c, int(m[r, c]), float(d[r, c]), float(gmin[r, c]), float(gmax[r, c]))))
    # final map, global interval
    interp = pipeline.get("validation", {}).get("interpolated_disparity")
    for side, ds, (slo, shi) in (("left", left, (lo, hi)), ("right", right, (-hi, -lo))):
        if "disparity_map" not in ds:
            continue
        d, m = ds["disparity_map"].data, ds["validity_mask"].data
        bad = _outside(d, (m & INVALID_BITS) == 0, slo, shi)
        for r, c in (tuple(int(x) for x in rc) for rc in np.argwhere(bad)):
            filled = bool(m[r, c] & (FILLED_OCC | FILLED_MIS))
            if filled and interp:  # DESIGN D6 family: written by the filling kernels, kept apart from any other cause
                what = "occlusion" if m[r, c] & FILLED_OCC else "mismatch"
                val = "nan" if np.isnan(d[r, c]) else ("zero" if d[r, c] == 0 else "other")
                clause, wclass = "C09.final.filled" + ("" if side == "left" else ".right"), "filled-%s-%s-%s" % (what, val, interp)
            else:
                last = [s for s in ("refinement", "filter", "validation") if s in pipeline]
                clause = "C09.final" + ("" if side == "left" else ".right")
                wclass = ("nan" if np.isnan(d[r, c]) else "outside") + "-after-" + (last[-1] if last else "disparity")
            viol.append((clause, wclass, "%s: %s map, valid pixel (row %d, col %d, mask %d) has final disparity %r outside the requested interval [%r,%r]"
                         % (desc, side, r, c, int(m[r, c]), float(d[r, c]), slo, shi)))
    nvalid = int(((left["validity_mask"].data & INVALID_BITS) == 0).sum())
    return nvalid > 0, viol, None


# ------------------------------------------------------------------------------------------------ domain
def _mask(rng, shape, p):
    return rng.choice([0, 1, 2], size=shape, p=[1 - 2 * p, p, p]).astype(int)


def gen_pair(rng, ny, nx, small_alphabet, related):
    """integer image pair; `related`: the left image is the right one moved by a piecewise constant disparity + outliers"""
    if small_alphabet:
        R = rng.choice([0, 1, 3], size=(ny, nx))
    else:
        R = rng.integers(0, 16, size=(ny, nx))
    if not related:
        L = rng.choice([0, 1, 3], size=(ny, nx)) if small_alphabet else rng.integers(0, 16, size=(ny, nx))
        return L, R
    L = np.zeros_like(R)
    cuts = sorted(rng.integers(1, nx - 1, size=2).tolist())
    shifts = rng.integers(-3, 4, size=3)
    for x in range(nx):
        d = int(shifts[0] if x < cuts[0] else shifts[1] if x < cuts[1] else shifts[2])
        src = x + d
        L[:, x] = R[:, src] if 0 <= src < nx else rng.integers(0, 4, size=ny)
    out = rng.random(size=(ny, nx)) < 0.08
    L[out] = rng.integers(0, 16, size=int(out.sum()))
    return L, R


def slice_inputs(tier, seed):
    rng = np.random.default_rng(seed)
    rounds = 3 if tier == "quick" else 30
    for n in range(rounds):
        for idx, (m, w) in enumerate(METHOD_WINDOWS):
            for agg in (False, True):
                s = (1, 2, 4)[(idx + n + seed + int(agg)) % 3]  # every (measure, window, cbca) meets every subpix within 3 rounds
                if n == 0:
                    ny, nx = (4, 7) if w < 5 else (5, 7)  # smallest images first
                else:
                    ny, nx = int(rng.integers(4 if w < 5 else 5, 7)), int(rng.integers(7, 10))
                L, R = gen_pair(rng, ny, nx, small_alphabet=(n % 2 == 0), related=False)
                inp = {"kind": "slice", "method": m, "window": w, "subpix": s, "agg": agg, "left": L.tolist(), "right": R.tolist(),
                       "msk_left": None, "msk_right": None}
                if n % 3 == 2:
                    inp["msk_left"], inp["msk_right"] = _mask(rng, (ny, nx), 0.05).tolist(), _mask(rng, (ny, nx), 0.05).tolist()
                yield inp


def grid_inputs(tier, seed):
    rng = np.random.default_rng(seed + 1)
    rounds = 3 if tier == "quick" else 40
    nfrac = seed  # kind of fractional grids, cycling
    for n in range(rounds):
        for (m, w) in METHOD_WINDOWS:
            for s in (1, 2, 4):
                if tier == "quick" and s != (1, 2, 4)[(METHOD_WINDOWS.index((m, w)) + n + seed) % 3]:
                    continue
                agg = bool((n + s) % 2) if n > 0 else False
                ny, nx = ((4, 7) if w < 5 else (5, 7)) if n == 0 else (int(rng.integers(4 if w < 5 else 5, 7)), int(rng.integers(7, 10)))
                L, R = gen_pair(rng, ny, nx, small_alphabet=(n % 2 == 0), related=False)
                if n % 3 == 1:  # constant grids
                    a, b = INTERVALS[int(rng.integers(0, len(INTERVALS)))]
                    gmin, gmax = np.full((ny, nx), a), np.full((ny, nx), b)
                else:
                    a, b = rng.integers(-3, 4, size=(ny, nx)), rng.integers(-3, 4, size=(ny, nx))
                    gmin, gmax = np.minimum(a, b), np.maximum(a, b)
                inp = {"kind": "grid", "method": m, "window": w, "subpix": s, "agg": agg, "left": L.tolist(), "right": R.tolist(),
                       "msk_left": None, "msk_right": None, "gmin": gmin.tolist(), "gmax": gmax.tolist()}
                if n % 4 == 3:
                    inp["msk_left"], inp["msk_right"] = _mask(rng, (ny, nx), 0.05).tolist(), _mask(rng, (ny, nx), 0.05).tolist()
                yield inp
                # the same images and masks with float32 grids off the sampling step (bounded.C02.fractional_grids, kinds by turns)
                finp = dict(inp)
                finp["gmin"], finp["gmax"] = fractional_grids(rng, ny, nx, nfrac)
                nfrac += 1
                yield finp


FIXED_PIPELINES = [
    ("sad", 3, 1, False, None, None, None),
    ("zncc", 3, 2, False, "vfit", None, None),
    ("census", 3, 1, False, "quadratic", "median", None),
    ("ssd", 3, 4, True, "vfit", "bilateral", None),
    ("sad", 3, 1, False, None, "median", "cca"),
    ("census", 5, 2, False, "vfit", "median", "mc-cnn"),
    ("zncc", 3, 1, True, None, "bilateral", "sgm"),
    ("sad", 1, 1, False, None, None, "mc-cnn"),
    ("ssd", 3, 2, False, "quadratic", None, "sgm"),
    ("sad", 3, 4, True, "vfit", "median", "mc-cnn"),
]


def pipeline_inputs(tier, seed):
    rng = np.random.default_rng(seed + 2)
    n = 0
    while True:
        if n < 3 * len(FIXED_PIPELINES):
            spec = FIXED_PIPELINES[n % len(FIXED_PIPELINES)]
        else:
            m, w = METHOD_WINDOWS[int(rng.integers(0, len(METHOD_WINDOWS)))]
            spec = (m, w, int(rng.choice([1, 2, 4])), bool(rng.integers(0, 2)), [None, None, "vfit", "quadratic"][int(rng.integers(0, 4))],
                    [None, "median", "bilateral"][int(rng.integers(0, 3))], [None, "cca", "mc-cnn", "sgm"][int(rng.integers(0, 4))])
        w = spec[1]
        ny, nx = (2 * (w // 2) + 4, 2 * (w // 2) + 7) if n < len(FIXED_PIPELINES) else (int(rng.integers(6, 11)) + 2 * (w // 2), int(rng.integers(8, 15)))
        L, R = gen_pair(rng, ny, nx, small_alphabet=bool(rng.integers(0, 2)), related=bool(n % 4 != 3))
        inp = {"kind": "pipeline", "pipeline": make_pipeline(*spec), "left": L.tolist(), "right": R.tolist(), "msk_left": None, "msk_right": None,
               "interval": None, "gmin": None, "gmax": None}
        if spec[5] is not None and n % 2 == 0:
            # an invalid_disparity marker NEAR the searched interval (any number is a legal marker): a filter that let invalid
            # neighbours into its support would then drag valid pixels out of the interval, which the default -9999 hides
            # (the bilateral range kernel gives such a far value a zero weight)
            inp["pipeline"]["disparity"]["invalid_disparity"] = [5, -5][(n // 2) % 2]
        if n % 5 == 4:  # per-pixel grids (constant by blocks of columns so that neighbours mostly agree)
            a, b = rng.integers(-3, 4, size=(1, nx)), rng.integers(-3, 4, size=(1, nx))
            inp["gmin"], inp["gmax"] = np.repeat(np.minimum(a, b), ny, 0).tolist(), np.repeat(np.maximum(a, b), ny, 0).tolist()
        elif n % 5 == 2:  # float32 per-pixel grids off the sampling step
            if (n // 5) % 2 == 0:  # column-wise: integer interval widened / shrunk by an off-step amount on each side
                a, b = rng.integers(-3, 4, size=(1, nx)), rng.integers(-3, 4, size=(1, nx))
                ea, eb = rng.choice([-0.7, -0.3, 0.0, 0.3, 0.45], size=(1, nx)), rng.choice([-0.45, -0.3, 0.0, 0.3, 0.7], size=(1, nx))
                gmin, gmax = (np.minimum(a, b) + ea).astype(np.float32), (np.maximum(a, b) + 1 + eb).astype(np.float32)
                inp["gmin"], inp["gmax"] = np.repeat(gmin, ny, 0).tolist(), np.repeat(gmax, ny, 0).tolist()
            else:
                inp["gmin"], inp["gmax"] = fractional_grids(rng, ny, nx, n // 10)
        else:
            inp["interval"] = list(INTERVALS[(n * 5 + seed) % len(INTERVALS)])
        if n % 3 == 2:
            inp["msk_left"], inp["msk_right"] = _mask(rng, (ny, nx), 0.04).tolist(), _mask(rng, (ny, nx), 0.04).tolist()
        n += 1
        yield inp


# ------------------------------------------------------------------------------------------------ entry points
def _key(inp, extra=()):
    return repr((sorted((k, repr(v)) for k, v in inp.items()), extra))


def run(tier, seed):
    rec = Recorder(max_violations=40)
    rec.functions.update(REAL_FUNCTIONS)
    quick = tier == "quick"
    t_run = time.time()
    import pandora  # noqa: F401  pylint: disable=unused-import,import-outside-toplevel  (slow import, counted in the budget)

    remaining = (72 if quick else 1000) - (time.time() - t_run)
    t_slice, t_grid, t_pipe = 0.38 * remaining, 0.16 * remaining, 0.46 * remaining
    skipped = {}
    counts = {"slice": 0, "grid": 0, "pipeline": 0, "grid-fractional": 0, "pipeline-fractional": 0}

    def fractional(inp):
        return inp.get("gmin") is not None and not (is_integer_grid(inp["gmin"]) and is_integer_grid(inp["gmax"]))

    def emit(inp, viols, extra=None):
        for clause, wclass, msg in viols:
            wit = dict(inp)
            wit.update({"clause": clause, "witness_class": wclass})
            if extra:
                wit.update(extra)
            rec.violation(clause=clause, witness_class=wclass, message=msg, witness=wit)

    t0 = time.time()
    for inp in slice_inputs(tier, seed):
        if time.time() - t0 > t_slice:
            break
        for inner, outer, nfinite, viols in check_slices(inp):
            if viols and viols[0][0] == "skipped":
                skipped["slice: " + viols[0][1]] = skipped.get("slice: " + viols[0][1], 0) + 1
                continue
            counts["slice"] += 1
            rec.case(key=_key(inp, (inner, outer)), nontrivial=nfinite > 0,
                     sample={"kind": "slice", "method": inp["method"], "window": inp["window"], "subpix": inp["subpix"], "cbca": inp["agg"],
                             "shape": list(np.shape(inp["left"])), "inner": list(inner), "outer": list(outer), "finite_cells_inner": nfinite}
                     if (inner, outer) == NESTED[40] else None)
            emit(inp, viols, {"pairs": [[list(inner), list(outer)]]})
    t0 = time.time()
    for inp in grid_inputs(tier, seed):
        if time.time() - t0 > t_grid:
            break
        nontrivial, viols, skip = check_grid(inp)
        if skip:
            skipped["grid: " + skip] = skipped.get("grid: " + skip, 0) + 1
            continue
        counts["grid"] += 1
        counts["grid-fractional"] += int(fractional(inp))
        rec.case(key=_key(inp), nontrivial=nontrivial,
                 sample={"kind": "grid", "method": inp["method"], "window": inp["window"], "subpix": inp["subpix"], "cbca": inp["agg"],
                         "shape": list(np.shape(inp["left"])), "gmin_row0": inp["gmin"][0], "gmax_row0": inp["gmax"][0]}
                 if counts["grid-fractional"] == 3 and fractional(inp) else None)
        emit(inp, viols)
    t0 = time.time()
    for inp in pipeline_inputs(tier, seed):
        if time.time() - t0 > t_pipe:
            break
        nontrivial, viols, skip = check_pipeline(inp)
        if skip:
            skipped["pipeline: " + skip] = skipped.get("pipeline: " + skip, 0) + 1
            continue
        counts["pipeline"] += 1
        counts["pipeline-fractional"] += int(fractional(inp))
        rec.case(key=_key(inp), nontrivial=nontrivial,
                 sample={"kind": "pipeline", "pipeline": describe(inp["pipeline"]), "shape": list(np.shape(inp["left"])),
                         "interval": inp["interval"], "grids": None if inp["gmin"] is None else "fractional" if fractional(inp) else "integer"}
                 if counts["pipeline"] in (3, 7) else None)
        emit(inp, viols)
    return rec.result(
        bound="A) %d nested interval pairs: every pair inner c outer of the 28 intervals within [-3,3] (182 pairs per input) on random integer image pairs "
              "4..6 x 7..9 (first round 4x7, 5x7 for window 5; values {0,1,3} or 0..15; masks over {0,1,2} in some rounds), sad/ssd/zncc x windows {1,3,5}, "
              "census x {3,5}, subpix {1,2,4}, with and without cbca; B) %d per-pixel grid inputs against the scalar interval spanning the reported "
              "disparity axis: random integer grids min<=max within [-3,3] (one third constant grids, half of them followed by cbca) and, on the same "
              "images, as many float32 grids within [-4,4] off the sampling step (%d; the 7 kinds of bounded.C02.fractional_grids by turns: constant "
              "[-1.3,1.7], constant +-[0.x,2.y], both bounds n/4 +- {0.05,0.1}, fractional min with integer max, integer min with fractional max, mixed, "
              "intervals narrower than a step); C) %d single-scale pipelines run by pandora.run on 6x9..14x14 "
              "images (right image random, left = right moved by a piecewise constant disparity + 8%% outliers, or unrelated), 10 fixed pipelines x 3 then "
              "random ones over measure x window x subpix x {none,cbca} x {none,vfit,quadratic} x {none,median,bilateral} x {none,cross-checking, "
              "+mc-cnn, +sgm}, scalar intervals cycling over the 28 intervals (3/5), column-wise integer grids (1/5) or fractional float32 grids (1/5, %d "
              "runs within [-3.7,4.7]: column-wise integer intervals moved by off-step amounts on either side, or fractional_grids), masks in 1/3.  Runs that raised were "
              "not evaluated: %s" % (counts["slice"], counts["grid"], counts["grid-fractional"], counts["pipeline"], counts["pipeline-fractional"],
                                     skipped if skipped else "none"),
        rule="seeded with np.random.default_rng(seed); each part stops at its time budget.  A: one evaluation per (input, inner, outer), volumes compared "
             "cell by cell, exactly (NaN-aware, also for zncc and after cbca: the same code runs on the same data); non-trivial = the inner volume has a finite "
             "cost.  B: one evaluation per input; a sample d of the reported axis is inside a pixel's interval iff min(r,c) <= d <= max(r,c) (real-number "
             "comparison with the float32 grid values); exact comparison inside each pixel's interval (not after cbca unless all pixels have the same "
             "interval), NaN required outside; for integer grids the axis must be int(min)..int(max), for fractional grids only samples of the scalar axis "
             "are required; validity mask compared for constant integer grids only; non-trivial = some finite cost and (constant grids or some cell outside a "
             "pixel's interval).  C: one evaluation per pipeline run; valid = validity_mask & 0b01111000011 == 0; per-pixel and global intervals compared as real "
             "numbers; stored interval == [first,last] of the cost-volume axis for fractional grids; non-trivial = the final left map has a valid pixel.  "
             "distinct = distinct full input")


def replay(witness):
    inp = {k: v for k, v in witness.items() if k not in ("clause", "witness_class", "pairs")}
    kind = inp.get("kind")
    if kind == "slice":
        viols = []
        for _i, _o, _n, v in check_slices(inp, witness.get("pairs")):
            viols.extend(x for x in v if x[0] != "skipped")
    elif kind == "grid":
        viols = check_grid(inp)[1]
    else:
        viols = check_pipeline(inp)[1]
    return any(c == witness.get("clause") and w == witness.get("witness_class") for c, w, _m in viols)
