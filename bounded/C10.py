"""Bounded stand-in for C10 -- filters change only valid pixels, to an average of their valid neighbours.

Real code: `pandora.filter.AbstractFilter(cfg=..., [image_shape=...]).filter_disparity(disp)` for the three filters
median / bilateral / median_for_intervals.

Oracle (from the property statement and userguide/step_by_step/filtering.rst: "Invalid pixels are not filtered.  If a
valid pixel contains an invalid pixel in its filter, the invalid pixel is ignored for the calculation"):

* a pixel is invalid iff `validity_mask & 0b01111000011 != 0`;
* the validity mask after the step equals the mask before (median_for_intervals with regularization: equal on every
  bit but bit 11);
* an invalid pixel keeps its disparity (NaN-aware); a pixel closer to an image edge than the filter radius keeps it;
* median: every other valid pixel == median of the valid disparities of its filter_size x filter_size window (exact:
  disparities are small integers, the median of an even count is a half-integer);
* bilateral: every other valid pixel == sum(w*d)/sum(w) over the valid pixels of its window,
  w = exp(-dist^2/(2 sigma_space^2)) * exp(-(d - d_centre)^2/(2 sigma_color^2)) (absolute tolerance 1e-4, the code
  evaluates the range Gaussian in float32), and lies between min and max of the valid window values (tolerance 1e-6).
  Window width = min(rows, cols, int(3*sigma_space+1)); R = width//2.  For an odd width this is the centred window.
  For an even width "the window" is not centred; the convention used here is the one of scipy.ndimage for even sizes
  (rows y-R .. y-R+width-1) and only the *weak* consequences are demanded for the pixels for which the statement is
  ambiguous (distance to an edge in [(width-1)//2, R)): they must lie between min and max of the valid values of the
  clipped (2R+1) window around them; pixels closer to an edge than (width-1)//2 must be untouched;
* median_for_intervals: disparity_map untouched; the bands confidence_from_interval_bounds_inf/sup[.suffix] become
  the median-filtered bands (same median, a band value being "valid" iff it is not NaN; the generated bands are NaN
  exactly on the invalid pixels, so this coincides with the mask reading); with regularization only the mask frame
  and the disparity frame are checked.

Two independent oracles are used: a shift-and-accumulate one over the whole map and a pure-python per-pixel loop on
every pixel of small maps (<= 2700 pixels) and on a sample of pixels of large maps (block-border rows/columns of the
50/100-pixel internal blocks + 150 random pixels).
"""
import hashlib
import math
import warnings

import numpy as np
import xarray as xr

from bounded.common import Recorder, same

INVALID_MASK = 0b01111000011
INVALID_BITS = [0, 1, 6, 7, 8, 9]
INFO_BITS = [2, 3, 4, 5, 10]
BIT11 = 1 << 11
LAYOUTS = ["none", "sparse", "dense", "blocks", "border", "checker", "all"]
INV_FILLS = ["-9999", "nan", "zero", "keep"]
CONTENTS = ["noise", "ramp"]
FILTER_SIZES = [1, 3, 5]
SIGMA_SPACE = [0.4, 1.0, 2.0]
SIGMA_COLOR = [1.0, 4.0]
BIG = [49, 50, 51, 99, 100, 101, 150, 201]
# behaviours on which the statement is silent/ambiguous: counted and reported, not flagged as violations
OBSERVED = {"bilateral_even_window_far_side_ring_filtered": 0, "mfi_bounds_of_mask_invalid_pixel_changed": 0}

FUNCTIONS = {
    "median": ["pandora.filter.filter.AbstractFilter.__new__", "pandora.filter.median.MedianFilter.__init__",
               "pandora.filter.median.MedianFilter.check_conf", "pandora.filter.median.MedianFilter.filter_disparity",
               "pandora.filter.median.MedianFilter.median_filter", "pandora.common.sliding_window"],
    "bilateral": ["pandora.filter.filter.AbstractFilter.__new__", "pandora.filter.bilateral.BilateralFilter.__init__",
                  "pandora.filter.bilateral.BilateralFilter.check_conf",
                  "pandora.filter.bilateral.BilateralFilter.filter_disparity",
                  "pandora.filter.bilateral.BilateralFilter.filter_bilateral",
                  "pandora.filter.bilateral.BilateralFilter.gauss_spatial_kernel",
                  "pandora.filter.bilateral.BilateralFilter.normalized_gaussian",
                  "pandora.filter.bilateral.BilateralFilter.bilateral_kernel", "pandora.common.sliding_window"],
    "mfi": ["pandora.filter.filter.AbstractFilter.__new__",
            "pandora.filter.median_for_intervals.MedianForIntervalsFilter.__init__",
            "pandora.filter.median_for_intervals.MedianForIntervalsFilter.check_conf",
            "pandora.filter.median_for_intervals.MedianForIntervalsFilter.filter_disparity",
            "pandora.filter.median.MedianFilter.median_filter", "pandora.common.sliding_window"],
    "mfi_reg": ["pandora.interval_tools.interval_regularization", "pandora.interval_tools.create_connected_graph",
                "pandora.interval_tools.graph_regularization"],
}


# ----------------------------------------------------------------------------------------------- case generation
def _rng(p, salt):
    return np.random.default_rng([p["seed"], p["h"], p["w"], LAYOUTS.index(p["layout"]), p.get("rep", 0), salt])


def gen_map(p):
    """disparity map (float32, integer valued on valid pixels) and validity mask (uint16) of the case `p`"""
    h, w = p["h"], p["w"]
    rng = _rng(p, 1)
    if p.get("content", "noise") == "noise":
        disp = rng.integers(-20, 21, size=(h, w)).astype(np.float32)
    else:  # slanted plane + a few outliers
        yy, xx = np.mgrid[0:h, 0:w]
        disp = np.floor((yy + 2 * xx) / 7.0) - 10
        out = rng.random((h, w)) < 0.08
        disp[out] = rng.integers(-20, 21, size=int(out.sum()))
        disp = np.clip(disp, -60, 60).astype(np.float32)
    layout = p["layout"]
    if layout == "none":
        inv = np.zeros((h, w), dtype=bool)
    elif layout == "sparse":
        inv = rng.random((h, w)) < 0.05
    elif layout == "dense":
        inv = rng.random((h, w)) < 0.5
    elif layout == "blocks":  # invalid rectangles, some of them across the internal block borders
        inv = np.zeros((h, w), dtype=bool)
        for _ in range(6):
            y0 = int(rng.choice([0, 47, 48, 49, 97, 98, 99, int(rng.integers(0, h))])) % h
            x0 = int(rng.choice([0, 47, 48, 49, 97, 98, 99, int(rng.integers(0, w))])) % w
            inv[y0:y0 + int(rng.integers(1, 6)), x0:x0 + int(rng.integers(1, 6))] = True
    elif layout == "border":  # pipeline-like: an invalid border + a few invalid pixels
        inv = np.zeros((h, w), dtype=bool)
        b = int(rng.integers(1, 3))
        inv[:b, :] = inv[-b:, :] = True
        inv[:, :b] = inv[:, -b:] = True
        inv |= rng.random((h, w)) < 0.03
    elif layout == "checker":
        yy, xx = np.mgrid[0:h, 0:w]
        inv = ((yy + xx) % 2 == 0)
    else:  # all
        inv = np.ones((h, w), dtype=bool)
    mask = np.zeros((h, w), dtype=np.uint16)
    for b in INFO_BITS:  # information-only bits anywhere
        mask[rng.random((h, w)) < 0.12] |= np.uint16(1 << b)
    if p.get("pre_bit11", False):
        mask[rng.random((h, w)) < 0.2] |= np.uint16(BIT11)
    first = rng.integers(0, len(INVALID_BITS), size=(h, w))
    for i, b in enumerate(INVALID_BITS):
        sel = inv & ((first == i) | (rng.random((h, w)) < 0.15))
        mask[sel] |= np.uint16(1 << b)
    fill = p.get("inv_fill", "-9999")
    if fill == "-9999":
        disp[inv] = -9999
    elif fill == "nan":
        disp[inv] = np.nan
    elif fill == "zero":
        disp[inv] = 0
    return disp, mask


def gen_bands(p, disp, mask):
    """ambiguity, lower and upper interval bound bands for median_for_intervals"""
    h, w = disp.shape
    rng = _rng(p, 2)
    inv = (mask & INVALID_MASK) != 0
    base = np.where(np.isfinite(disp) & (np.abs(disp) < 1000), disp, 0).astype(np.float32)
    lower = base - rng.integers(0, 6, size=(h, w)).astype(np.float32)
    upper = base + rng.integers(0, 6, size=(h, w)).astype(np.float32)
    if p.get("bands_at_invalid", "nan") == "nan":
        lower[inv] = np.nan
        upper[inv] = np.nan
    amb = np.ones((h, w), dtype=np.float32)
    for _ in range(4):  # a few ambiguous segments
        y0, x0 = int(rng.integers(0, h)), int(rng.integers(0, w))
        amb[y0:y0 + int(rng.integers(1, 4)), x0:x0 + int(rng.integers(1, 8))] = 0.25
    return amb, lower, upper


def band_names(p):
    sfx = p.get("interval_indicator", "")
    asfx = p.get("ambiguity_indicator", "")
    return ("confidence_from_ambiguity" + ("." + asfx if asfx else ""),
            "confidence_from_interval_bounds_inf" + ("." + sfx if sfx else ""),
            "confidence_from_interval_bounds_sup" + ("." + sfx if sfx else ""))


def build_dataset(p):
    disp, mask = gen_map(p)
    h, w = disp.shape
    data_vars = {"disparity_map": (["row", "col"], disp.copy()), "validity_mask": (["row", "col"], mask.copy())}
    coords = {"row": np.arange(h), "col": np.arange(w)}
    bands = None
    if p["filter"] == "mfi":
        amb, lower, upper = gen_bands(p, disp, mask)
        names = band_names(p)
        other = (np.arange(h * w, dtype=np.float32).reshape(h, w) % 7)
        bands = {"amb": amb, "inf": lower, "sup": upper, "other": other}
        data_vars["confidence_measure"] = (["row", "col", "indicator"],
                                           np.stack((amb, other, lower, upper), axis=2).copy())
        coords["indicator"] = [names[0], "confidence_from_left_right_consistency", names[1], names[2]]
    ds = xr.Dataset(data_vars, coords=coords)
    ds.attrs = {"offset_row_col": 0}
    return ds, disp, mask, bands


def make_filter(p):
    import pandora.filter as flt

    if p["filter"] == "median":
        return flt.AbstractFilter(cfg={"filter_method": "median", "filter_size": p["filter_size"]})
    if p["filter"] == "bilateral":
        return flt.AbstractFilter(cfg={"filter_method": "bilateral", "sigma_color": p["sigma_color"],
                                       "sigma_space": p["sigma_space"]}, image_shape=(p["h"], p["w"]))
    cfg = {"filter_method": "median_for_intervals", "filter_size": p["filter_size"],
           "interval_indicator": p.get("interval_indicator", "")}
    if p.get("regularization", False):
        cfg.update({"regularization": True, "ambiguity_indicator": p.get("ambiguity_indicator", ""),
                    "ambiguity_threshold": 0.6, "ambiguity_kernel_size": p.get("ambiguity_kernel_size", 3),
                    "vertical_depth": p.get("vertical_depth", 1), "quantile_regularization": 0.9})
    return flt.AbstractFilter(cfg=cfg)


# -------------------------------------------------------------------------------------------------------- oracles
def median_map(vals, k):
    """vals: float64 map, NaN = not valid.  Median of the non-NaN values of the centred k x k window for every non-NaN
    pixel at distance >= k//2 from every edge; all other pixels keep their value."""
    h, w = vals.shape
    r = k // 2
    exp = vals.copy()
    if h < k or w < k:
        return exp
    stack = np.stack([vals[dy:h - k + 1 + dy, dx:w - k + 1 + dx] for dy in range(k) for dx in range(k)])
    n = (~np.isnan(stack)).sum(axis=0)
    srt = np.sort(stack, axis=0)  # NaN sorted last
    lo = np.take_along_axis(srt, np.clip((n - 1) // 2, 0, None)[None], axis=0)[0]
    hi = np.take_along_axis(srt, np.clip(n // 2, 0, k * k - 1)[None], axis=0)[0]
    med = (lo + hi) / 2.0
    centre = exp[r:h - r, r:w - r]
    ok = ~np.isnan(centre)
    centre[ok] = med[ok]
    return exp


def median_pixel(vals_list, y, x, k):
    """pure python: median of the non-NaN values of the centred k x k window of pixel (y, x)"""
    r = k // 2
    win = [vals_list[yy][xx] for yy in range(y - r, y + r + 1) for xx in range(x - r, x + r + 1)]
    win = sorted(v for v in win if not math.isnan(v))
    n = len(win)
    return (win[(n - 1) // 2] + win[n // 2]) / 2.0


def bilateral_geometry(h, w, sigma_space):
    win = min(h, w, int(3 * sigma_space + 1))
    return win, win // 2, (win - 1) // 2


def bilateral_map(vals, sigma_space, sigma_color):
    """Weighted mean / min / max of the valid values of the window rows y-R..y-R+win-1 (same for columns) for the pixels
    y in [R, h-win+R], x in [R, w-win+R].  Returns (mean, mn, mx) arrays over that pixel range."""
    h, w = vals.shape
    win, rad, _ = bilateral_geometry(h, w, sigma_space)
    ny, nx = h - win + 1, w - win + 1
    centre = vals[rad:rad + ny, rad:rad + nx]
    num = np.zeros((ny, nx))
    den = np.zeros((ny, nx))
    mn = np.full((ny, nx), np.inf)
    mx = np.full((ny, nx), -np.inf)
    for i in range(win):
        for j in range(win):
            nb = vals[i:i + ny, j:j + nx]
            ok = ~np.isnan(nb)
            dist2 = (i - rad) ** 2 + (j - rad) ** 2
            wgt = np.exp(-dist2 / (2.0 * sigma_space ** 2)) * np.exp(-((nb - centre) ** 2) / (2.0 * sigma_color ** 2))
            wgt = np.where(ok & ~np.isnan(centre), wgt, 0.0)
            num += wgt * np.where(ok, nb, 0.0)
            den += wgt
            mn = np.where(ok, np.minimum(mn, nb), mn)
            mx = np.where(ok, np.maximum(mx, nb), mx)
    mean = np.where(den > 0, num / np.where(den > 0, den, 1.0), np.nan)
    return mean, mn, mx


def bilateral_pixel(vals_list, y, x, win, rad, sigma_space, sigma_color):
    c = vals_list[y][x]
    num = den = 0.0
    lo, hi = math.inf, -math.inf
    for yy in range(y - rad, y - rad + win):
        for xx in range(x - rad, x - rad + win):
            v = vals_list[yy][xx]
            if math.isnan(v):
                continue
            wgt = math.exp(-((yy - y) ** 2 + (xx - x) ** 2) / (2.0 * sigma_space ** 2)) * \
                math.exp(-((v - c) ** 2) / (2.0 * sigma_color ** 2))
            num += wgt * v
            den += wgt
            lo, hi = min(lo, v), max(hi, v)
    return num / den, lo, hi


def sample_pixels(p, h, w, chunk, rad):
    """pixels for the per-pixel reference oracle: all of a small map; block-border lines + random ones otherwise"""
    if h * w <= 2700:
        return [(y, x) for y in range(h) for x in range(w)]
    rng = _rng(p, 3)

    def lines(n):
        cand = {0, rad - 1, rad, rad + 1, n - rad - 2, n - rad - 1, n - rad, n - 1}
        for m in range(chunk, n + chunk, chunk):
            cand.update({m - 1, m, m + 1, m + rad - 1, m + rad, m + rad + 1, m - rad - 1, m - rad})
        return sorted(c for c in cand if 0 <= c < n)

    ys, xs = lines(h), lines(w)
    pix = {(y, x) for y in ys for x in xs}
    pix.update((int(rng.integers(0, h)), int(rng.integers(0, w))) for _ in range(150))
    return sorted(pix)


def _where(y, x, rad, chunk):
    return "beyond-first-block" if (y - rad >= chunk or x - rad >= chunk) else "first-block"


def _neq(a, b):
    """element-wise NaN-aware inequality"""
    a = np.asarray(a, dtype=np.float64)
    b = np.asarray(b, dtype=np.float64)
    return ~((a == b) | (np.isnan(a) & np.isnan(b)))


def _edge_distance(h, w):
    yy, xx = np.mgrid[0:h, 0:w]
    return np.minimum(np.minimum(yy, h - 1 - yy), np.minimum(xx, w - 1 - xx))


# --------------------------------------------------------------------------------------------------------- checks
def check_case(p):
    """Run the real filter on case `p`.  Returns (findings, nontrivial).  finding = (clause, class, message, extra)."""
    found = []
    ds, disp, mask, bands = build_dataset(p)
    h, w = disp.shape
    name = p["filter"]
    with warnings.catch_warnings():
        warnings.simplefilter("ignore")
        with np.errstate(all="ignore"):
            try:
                plugin = make_filter(p)
                plugin.filter_disparity(ds)
            except Exception as exc:
                return [("C10.%s.runs" % name, "exception-" + type(exc).__name__,
                         "filter raised %r" % (exc,), {})], False
    got = np.asarray(ds["disparity_map"].data)
    got_mask = np.asarray(ds["validity_mask"].data)
    invalid = (mask & INVALID_MASK) != 0
    dist = _edge_distance(h, w)

    # ---- validity mask frame
    if got_mask.shape != mask.shape:
        found.append(("C10.%s.mask_unchanged" % name, "mask-shape", "validity mask shape changed", {}))
    elif p.get("regularization", False):
        if not same(got_mask.astype(np.int64) & ~BIT11, mask.astype(np.int64) & ~BIT11):
            y, x = [int(v) for v in np.argwhere((got_mask.astype(np.int64) & ~BIT11) != (mask.astype(np.int64) & ~BIT11))[0]]
            found.append(("C10.mfi.mask_only_bit11", "other-bit-changed",
                          "mask[%d,%d] %d -> %d (a bit other than bit 11 changed)" % (y, x, mask[y, x], got_mask[y, x]),
                          {"pixel": [y, x]}))
    elif not same(got_mask, mask):
        y, x = [int(v) for v in np.argwhere(got_mask != mask)[0]]
        found.append(("C10.%s.mask_unchanged" % name, "mask-value-changed",
                      "mask[%d,%d] %d -> %d" % (y, x, mask[y, x], got_mask[y, x]), {"pixel": [y, x]}))
    if got.shape != disp.shape:
        found.append(("C10.%s.shape" % name, "disparity-shape", "disparity map shape changed", {}))
        return found, False

    if name == "mfi":
        return found + check_mfi(p, ds, disp, mask, bands, got), _mfi_nontrivial(p, ds, bands, got_mask)

    changed = _neq(got, disp)
    # ---- invalid pixels keep their disparity
    sel = changed & invalid
    if sel.any():
        y, x = [int(v) for v in np.argwhere(sel)[0]]
        found.append(("C10.%s.invalid_unchanged" % name, "invalid-pixel-changed-fill-%s" % p.get("inv_fill"),
                      "invalid pixel (%d,%d) mask %d: %r -> %r" % (y, x, mask[y, x], float(disp[y, x]), float(got[y, x])),
                      {"pixel": [y, x]}))
    vals = np.where(invalid, np.nan, disp.astype(np.float64))  # valid disparities, NaN = not valid

    if name == "median":
        k = p["filter_size"]
        rad, chunk = k // 2, 100
        rim = dist < rad
        strict = (~rim) & (~invalid)
        exp = median_map(vals, k)
        bad = strict & _neq(got, exp)
        if bad.any():
            y, x = [int(v) for v in np.argwhere(bad)[0]]
            found.append(("C10.median.value", _where(y, x, rad, chunk),
                          "pixel (%d,%d): got %r, median of the valid window values is %r (%d pixels differ)"
                          % (y, x, float(got[y, x]), float(exp[y, x]), int(bad.sum())), {"pixel": [y, x]}))
        vl = vals.tolist()
        for (y, x) in sample_pixels(p, h, w, chunk, rad):
            if strict[y, x]:
                e = median_pixel(vl, y, x, k)
                if float(got[y, x]) != e:
                    found.append(("C10.median.value", _where(y, x, rad, chunk) + "-perpixel",
                                  "pixel (%d,%d): got %r, median of the valid window values is %r"
                                  % (y, x, float(got[y, x]), e), {"pixel": [y, x]}))
                    break
        nontrivial = bool((strict & _neq(exp, disp)).any())
    else:  # bilateral
        ss, sc = p["sigma_space"], p["sigma_color"]
        win, rad, rim_r = bilateral_geometry(h, w, ss)
        chunk = 50
        rim = dist < rim_r
        ny, nx = h - win + 1, w - win + 1
        yy, xx = np.mgrid[0:h, 0:w]
        strict = (dist >= rad) & (~invalid)
        mean, mn, mx = bilateral_map(vals, ss, sc)
        exp = np.full((h, w), np.nan)
        lo = np.full((h, w), np.nan)
        hi = np.full((h, w), np.nan)
        exp[rad:rad + ny, rad:rad + nx] = mean
        lo[rad:rad + ny, rad:rad + nx] = mn
        hi[rad:rad + ny, rad:rad + nx] = mx
        g64 = got.astype(np.float64)
        with np.errstate(invalid="ignore"):
            bad = strict & ~(np.abs(g64 - exp) <= 1e-4)
            outside = strict & ~((g64 >= lo - 1e-6) & (g64 <= hi + 1e-6))
        parity = "odd-window" if win % 2 else "even-window"
        if bad.any():
            y, x = [int(v) for v in np.argwhere(bad)[0]]
            found.append(("C10.bilateral.value", "%s-%s" % (parity, _where(y, x, rad, chunk)),
                          "pixel (%d,%d): got %r, weighted mean of the valid window values is %r (window %d, %d pixels "
                          "differ)" % (y, x, float(got[y, x]), float(exp[y, x]), win, int(bad.sum())), {"pixel": [y, x]}))
        if outside.any():
            y, x = [int(v) for v in np.argwhere(outside)[0]]
            found.append(("C10.bilateral.between", "%s-%s" % (parity, _where(y, x, rad, chunk)),
                          "pixel (%d,%d): got %r outside [%r, %r] of the valid window values"
                          % (y, x, float(got[y, x]), float(lo[y, x]), float(hi[y, x])), {"pixel": [y, x]}))
        vl = vals.tolist()
        for (y, x) in sample_pixels(p, h, w, chunk, rad):
            if strict[y, x]:
                e, l_, h_ = bilateral_pixel(vl, y, x, win, rad, ss, sc)
                g = float(got[y, x])
                if not abs(g - e) <= 1e-4 or not (l_ - 1e-6 <= g <= h_ + 1e-6):
                    found.append(("C10.bilateral.value", "%s-%s-perpixel" % (parity, _where(y, x, rad, chunk)),
                                  "pixel (%d,%d): got %r, weighted mean %r, valid window range [%r, %r]"
                                  % (y, x, g, e, l_, h_), {"pixel": [y, x]}))
                    break
        # even window: ambiguous ring (distance in [rim_r, rad)): only "between min and max of the clipped window"
        ring = (~rim) & (dist < rad) & (~invalid)
        for (y, x) in np.argwhere(ring):
            sub = vals[max(0, y - rad):y + rad + 1, max(0, x - rad):x + rad + 1]
            g = float(got[y, x])
            if not (np.nanmin(sub) - 1e-6 <= g <= np.nanmax(sub) + 1e-6):
                found.append(("C10.bilateral.between", "even-window-ring",
                              "pixel (%d,%d) (distance %d to the edge, window %d): got %r outside [%r, %r] of the valid "
                              "values around it" % (y, x, int(dist[y, x]), win, g, float(np.nanmin(sub)),
                                                    float(np.nanmax(sub))), {"pixel": [int(y), int(x)]}))
                break
        if (ring & changed).any():
            OBSERVED["bilateral_even_window_far_side_ring_filtered"] += 1
        with np.errstate(invalid="ignore"):
            nontrivial = bool((strict & (np.abs(exp - disp) > 1e-3)).any())
    # ---- rim untouched
    sel = changed & rim
    if sel.any():
        y, x = [int(v) for v in np.argwhere(sel)[0]]
        found.append(("C10.%s.rim_unchanged" % name, "rim-pixel-changed",
                      "pixel (%d,%d) at distance %d from the edge: %r -> %r" % (y, x, int(dist[y, x]), float(disp[y, x]),
                                                                             float(got[y, x])), {"pixel": [y, x]}))
    return found, nontrivial


def check_mfi(p, ds, disp, mask, bands, got):
    found = []
    h, w = disp.shape
    k = p["filter_size"]
    rad, chunk = k // 2, 100
    # disparity map untouched
    if not same(got, disp):
        y, x = [int(v) for v in np.argwhere(_neq(got, disp))[0]]
        found.append(("C10.mfi.disparity_untouched", "disparity-changed",
                      "disparity (%d,%d): %r -> %r" % (y, x, float(disp[y, x]), float(got[y, x])), {"pixel": [y, x]}))
    if p.get("regularization", False):
        return found
    names = band_names(p)
    dist = _edge_distance(h, w)
    for key, nm in (("inf", names[1]), ("sup", names[2])):
        try:
            out = np.asarray(ds["confidence_measure"].sel(indicator=nm).data)
        except Exception as exc:
            found.append(("C10.mfi.band", "band-missing", "band %s not readable after the step: %r" % (nm, exc), {}))
            continue
        src = bands[key]
        diff = _neq(out, src)
        rim = dist < rad
        if (diff & rim).any():
            y, x = [int(v) for v in np.argwhere(diff & rim)[0]]
            found.append(("C10.mfi.rim_unchanged", "rim-pixel-changed-" + key,
                          "%s (%d,%d): %r -> %r" % (nm, y, x, float(src[y, x]), float(out[y, x])), {"pixel": [y, x]}))
        if p.get("bands_at_invalid", "nan") != "nan":
            # finite bounds on invalid pixels: the statement does not say which reading applies
            if key == "inf" and (diff & ((mask & INVALID_MASK) != 0)).any():
                OBSERVED["mfi_bounds_of_mask_invalid_pixel_changed"] += 1
            continue
        exp = median_map(src.astype(np.float64), k)
        bad = _neq(out, exp)
        if bad.any():
            y, x = [int(v) for v in np.argwhere(bad)[0]]
            found.append(("C10.mfi.value", "%s-%s" % (key, _where(y, x, rad, chunk)),
                          "%s (%d,%d): got %r, expected %r (median of the valid window values; %d pixels differ)"
                          % (nm, y, x, float(out[y, x]), float(exp[y, x]), int(bad.sum())), {"pixel": [y, x]}))
        vl = src.astype(np.float64).tolist()
        for (y, x) in sample_pixels(p, h, w, chunk, rad):
            if dist[y, x] >= rad and not math.isnan(vl[y][x]):
                e = median_pixel(vl, y, x, k)
                if float(out[y, x]) != e:
                    found.append(("C10.mfi.value", "%s-%s-perpixel" % (key, _where(y, x, rad, chunk)),
                                  "%s (%d,%d): got %r, expected %r" % (nm, y, x, float(out[y, x]), e), {"pixel": [y, x]}))
                    break
    return found


def _mfi_nontrivial(p, ds, bands, got_mask):
    if p.get("regularization", False):
        return bool((got_mask.astype(np.int64) & BIT11).any())
    exp = median_map(bands["inf"].astype(np.float64), p["filter_size"])
    return bool(_neq(exp, bands["inf"]).any())


# ---------------------------------------------------------------------------------------------------- enumeration
def size_pairs(k, tier, rng, small_only=False, limit=None):
    small = [k, k + 1]
    sizes = small + [s for s in BIG if s > k + 1 and (limit is None or s <= limit)]
    pairs = [(a, b) for a in small for b in small]
    if small_only:
        return pairs
    if tier == "quick":
        big = [s for s in sizes if s not in small]
        for a in big:
            pairs.append((a, int(rng.choice(sizes))))
        for b in big[::2]:
            pairs.append((int(rng.choice(small)), b))
    else:
        pairs = [(a, b) for a in sizes for b in sizes]
    return pairs


def _draw(rng, p):
    p["layout"] = LAYOUTS[int(rng.integers(len(LAYOUTS)))]
    p["inv_fill"] = INV_FILLS[int(rng.integers(len(INV_FILLS)))]
    p["content"] = CONTENTS[int(rng.integers(len(CONTENTS)))]
    return p


def cases(tier, seed):
    rng = np.random.default_rng([seed, 10])
    nlay = 1 if tier == "quick" else 4
    # tiny maps first (smallest witnesses): every layout on the smallest sizes
    for k in FILTER_SIZES:
        for (h, w) in size_pairs(k, tier, rng, small_only=True):
            for layout in LAYOUTS:
                for name in ("median", "mfi"):
                    yield {"filter": name, "filter_size": k, "h": h, "w": w, "seed": seed, "rep": 0, "layout": layout,
                           "inv_fill": INV_FILLS[int(rng.integers(len(INV_FILLS)))], "content": "noise",
                           "bands_at_invalid": "nan", "interval_indicator": ""}
    for ss in SIGMA_SPACE:
        k = int(3 * ss + 1)
        for sc in SIGMA_COLOR:
            for (h, w) in size_pairs(k, tier, rng, small_only=True) + [(k + 2, k + 3), (2 * k + 1, 2 * k)]:
                for layout in LAYOUTS:
                    yield {"filter": "bilateral", "sigma_space": ss, "sigma_color": sc, "h": h, "w": w, "seed": seed,
                           "rep": 0, "layout": layout, "inv_fill": INV_FILLS[int(rng.integers(len(INV_FILLS)))],
                           "content": "noise"}
    # the size grid
    for k in FILTER_SIZES:
        for (h, w) in size_pairs(k, tier, rng):
            for rep in range(nlay):
                yield _draw(rng, {"filter": "median", "filter_size": k, "h": h, "w": w, "seed": seed, "rep": 1 + rep})
                yield _draw(rng, {"filter": "mfi", "filter_size": k, "h": h, "w": w, "seed": seed, "rep": 1 + rep,
                                  "bands_at_invalid": "nan" if rng.random() < 0.75 else "finite",
                                  "interval_indicator": "" if rng.random() < 0.5 else "int"})
    for ss in SIGMA_SPACE:
        k = int(3 * ss + 1)
        for sc in SIGMA_COLOR:
            for (h, w) in size_pairs(k, tier, rng):
                for rep in range(nlay):
                    yield _draw(rng, {"filter": "bilateral", "sigma_space": ss, "sigma_color": sc, "h": h, "w": w,
                                      "seed": seed, "rep": 1 + rep})
    # median_for_intervals with regularization (mask frame: only bit 11 may change), maps up to 101 x 101
    for k in FILTER_SIZES:
        pairs = size_pairs(k, tier, rng, limit=101)
        if tier == "quick":
            pairs = pairs[:4] + pairs[4::3]
        for (h, w) in pairs:
            yield _draw(rng, {"filter": "mfi", "filter_size": k, "h": h, "w": w, "seed": seed, "rep": 5,
                              "regularization": True, "pre_bit11": bool(rng.random() < 0.5),
                              "bands_at_invalid": "nan" if rng.random() < 0.5 else "finite",
                              "interval_indicator": "" if rng.random() < 0.5 else "int",
                              "ambiguity_indicator": "" if rng.random() < 0.5 else "amb",
                              "ambiguity_kernel_size": int(rng.choice([1, 3, 5])),
                              "vertical_depth": int(rng.integers(0, 3))})


def _key(p):
    disp, mask = gen_map(p)
    cfg = tuple(sorted((k, str(v)) for k, v in p.items() if k not in ("seed", "rep", "layout", "inv_fill", "content")))
    return (cfg, hashlib.sha1(np.nan_to_num(disp, nan=-12345.0).tobytes() + mask.tobytes()).hexdigest())


def _witness(p, clause, extra):
    wit = {"params": p, "clause": clause}
    wit.update(extra)
    if p["h"] * p["w"] <= 64:
        disp, mask = gen_map(p)
        wit["disparity_map"] = disp
        wit["validity_mask"] = mask.astype(np.int64)
    return wit


def run(tier: str, seed: int) -> dict:
    rec = Recorder()
    n_sample = {"median": 0, "bilateral": 0, "mfi": 0}
    for name in OBSERVED:
        OBSERVED[name] = 0
    for p in cases(tier, seed):
        rec.functions.update(FUNCTIONS[p["filter"]])
        if p.get("regularization", False):
            rec.functions.update(FUNCTIONS["mfi_reg"])
        found, nontrivial = check_case(p)
        sample = None
        if nontrivial and n_sample[p["filter"]] < (2 if p["filter"] != "bilateral" else 1):
            n_sample[p["filter"]] += 1
            sample = {"params": p}
        rec.case(key=_key(p), nontrivial=nontrivial, sample=sample)
        for clause, wclass, message, extra in found:
            rec.violation(clause=clause, witness_class=wclass, message=message, witness=_witness(p, clause, extra))
    grid = ("every pair, 4 random layouts each" if tier != "quick" else "the 4 smallest pairs + one random partner per large size")
    bound = ("median & median_for_intervals: filter_size in {1,3,5}, maps h,w in {k,k+1,49,50,51,99,100,101,150,201} ("
             + grid + "), 7 invalid layouts (none/5%/50%/rectangles across block borders/invalid border/checkerboard/"
             "all invalid) with invalid bits drawn from 0b01111000011 and information bits 2,3,4,5,10 anywhere, invalid "
             "pixels holding -9999/NaN/0/an ordinary value; all 7 layouts on the 4 smallest maps of every filter_size. "
             "bilateral: sigma_space in {0.4,1,2} x sigma_color in {1,4}, same size grid with k=int(3*sigma_space+1) "
             "(window 2, 4, 7). median_for_intervals with regularization: maps up to 101x101, bit 11 pre-set or not. "
             "Disparities are integers in [-20,20] (noise) or a slanted integer plane with outliers.")
    rule = ("One case = one (filter configuration, disparity map, validity mask); seeded random maps "
            "(np.random.default_rng([seed, h, w, layout, rep, salt])).  The real filter output is compared with the "
            "naive oracles described in the module docstring: exact NaN-aware equality for mask, invalid pixels, rim, "
            "median values and interval bands; bilateral values with absolute tolerance 1e-4 against the float64 "
            "weighted mean (the code computes the range Gaussian in float32) and 1e-6 for the min/max enclosure.  For "
            "even bilateral windows (sigma_space 0.4 and 1) the pixels whose distance to an edge is in "
            "[(win-1)//2, win//2) are only required to stay within [min,max] of the valid values around them.  "
            "Distinct = distinct (configuration, sha1 of map and mask).  Non-trivial = the oracle output differs from the "
            "input on at least one pixel that must be filtered (median/bilateral: disparity; median_for_intervals: "
            "lower bound band; with regularization: bit 11 set somewhere after the step).")
    res = rec.result(bound=bound, rule=rule)
    res["observations"] = {
        "bilateral_even_window_far_side_ring_filtered":
            "%d cases: with an even window (sigma_space 0.4 -> 2, 1 -> 4) the code filters the pixels at distance "
            "win//2-1 from the bottom/right edge but not those at the same distance from the top/left edge (window rows "
            "y-win//2 .. y+win//2-1); not flagged: DESIGN section 3 lists even-sized windows as 'not a defect' and the "
            "statement does not define the radius of an even window" % OBSERVED["bilateral_even_window_far_side_ring_filtered"],
        "mfi_bounds_of_mask_invalid_pixel_changed":
            "%d cases: median_for_intervals ignores the validity mask: a pixel that is invalid in the mask but has finite "
            "interval bounds is filtered and is used in its neighbours' medians (only NaN bounds are skipped); not "
            "flagged: the statement only says 'the same median on the interval-bound bands'"
            % OBSERVED["mfi_bounds_of_mask_invalid_pixel_changed"]}
    return res


def replay(witness: dict) -> bool:
    found, _ = check_case(witness["params"])
    clause = witness.get("clause")
    return any(clause is None or f[0] == clause for f in found)
