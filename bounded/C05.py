"""Bounded stand-in for C05 -- configuration checking completes, preserves and polices every parameter.

The oracle is the table SPEC below, transcribed from the property statement (defaults window_size 5, subpix 1, cbca
30.0/5, invalid_disparity -9999, filter_size 3, sigma 2.0/6.0, eta 0.7/0.01, cross_checking_threshold 1.0, num_scales 2,
scale_factor 2, marge 1, nodata -9999; rejected: even window/filter size, census window not 3/5, subpix not 1 or even,
non-positive cbca/sigma/eta, scales < 2, unknown method, wrong type, band absent from the image, step != 1) and from the
parameter tables of docs/source/userguide/step_by_step/*.rst and input.rst -- never from the schemas of the code.

Two clause families:
  core  C05.default.* / C05.keep.* / C05.domain.* / C05.method.* / C05.order / C05.nomutate.* / C05.idem.* /
        C05.strings.*            parameters and rules named in the property statement;
  doc   C05.docdefault.* / C05.docdomain.*   parameters that only the user-guide tables describe (interval / regularization
        parameters, normalization, possibility_threshold, interpolated_disparity).  A mismatch there is a code-vs-user-guide
        divergence; whether the guide or the code is right is for the reader of the report to judge.

Where statement and guide disagree or are silent no verdict is asked (value not on the grid): subpix 6/8, eta >= 1,
int given for a float parameter, bool given for an int parameter (json_checker accepts True for int), 'inf' for nodata,
band None on a multiband image, negative cross_checking_threshold, unknown extra keys.

Levels:  L1 the step class through its registry dispatcher (AbstractX(**cfg).cfg);  L2 PandoraMachine.check_conf on a
minimal pipeline containing the step;  L3 pandora.check_configuration.check_conf on a whole configuration (8-step pipeline,
GeoTIFF crops of the images under /repo/tests/pandora, monoband and multiband);  L2p (band checks only)
pandora.check_configuration.check_pipeline_section on image metadata.

Band checks ("band absent from the image" -- from EITHER image -- is rejected before any processing): besides the pairs
with identical band sets, pairs whose left and right images carry DIFFERENT band sets (BAND_PAIRS: (r,g,b)|(g,b,n) and
its mirror, (r,g,b)|(r,g) and mirror, multiband|monoband and mirror; synthetic GeoTIFFs written by write_band_pair, band
names = rasterio band descriptions) are checked at L2 / L2p / L3 with pipelines without and with a validation step (the
validation step makes the machine check a second time with the images swapped, which can mask a one-sided check).
Oracle: a named band is accepted iff it is a band of the left AND of the right image.  Band names are whole strings
(MULTICHAR_PAIRS: 'red' on (red, nir) is a band, 'rg' on (r, g) is not); witness classes 'multi-character-band-name/...'.
"""
import copy
import itertools
import math
import os
import tempfile
import warnings

import numpy as np

from bounded.common import Recorder
from bounded import _pipe as P

from pandora import (aggregation, check_configuration, cost_volume_confidence, disparity, matching_cost, multiscale,
                     refinement, validation)
from pandora import filter as flt
from pandora.state_machine import PandoraMachine

NAN = float("nan")
NODEF = object()          # no default to check (required, or statement/guide ambiguous)
ACC, REJ = "accept", "reject"


# ---------------------------------------------------------------------------------------------------------------------
# the documented parameter table
# ---------------------------------------------------------------------------------------------------------------------
class Par:
    def __init__(self, name, typ, default, domain, grid, fam="core", extra=()):
        self.name, self.typ, self.default, self.domain, self.fam = name, typ, default, domain, fam
        self.grid = list(grid)          # values of the right type, on and around the domain edges
        self.extra = list(extra)        # (value, verdict, label, family) special documented values


def odd_pos(v):
    return v > 0 and v % 2 == 1


def wrong_type_values(typ):
    """(label, value) of the wrong type; combinations the statement/guide leave open are not listed"""
    cand = {"int": 3, "float": 2.5, "str": "abc", "bool": True, "None": None, "list": [3]}
    skip = {"int": {"int", "bool"}, "float": {"float", "int"}, "number": {"int", "float", "bool"}, "str": {"str"},
            "bool": {"bool"}, "band": {"str", "None"}}[typ]
    return [("type=" + t, v) for t, v in cand.items() if t not in skip]


def _mc(method):
    win = Par("window_size", "int", 5, (lambda v: v in (3, 5)) if method == "census" else odd_pos,
              [1, 2, 3, 4, 5, 6, 7] if method == "census" else [-1, 0, 1, 2, 3, 4, 5, 6, 7, 10, 11, 99, 100])
    return [win,
            Par("subpix", "int", 1, lambda v: v in (1, 2, 4), [-2, -1, 0, 1, 2, 3, 4, 5]),
            Par("band", "band", None, lambda v: True, [None]),          # monoband context: see band checks at L3
            Par("step", "int", 1, lambda v: v == 1, [-1, 0, 1, 2, 3])]


def _interval_params():
    return [Par("regularization", "bool", False, lambda v: True, [True, False], "doc"),
            Par("ambiguity_indicator", "str", "", lambda v: True, ["", "amb"], "doc"),
            Par("ambiguity_threshold", "float", 0.6, lambda v: 0 < v < 1, [-0.1, 0.0, 0.3, 0.6, 0.9, 1.0, 1.1], "doc"),
            Par("ambiguity_kernel_size", "int", 5, lambda v: v >= 0, [-1, 0, 1, 2, 3, 5], "doc"),
            Par("vertical_depth", "int", 2, lambda v: v >= 0, [-1, 0, 1, 2, 5], "doc"),
            Par("quantile_regularization", "float", 0.9, lambda v: 0 <= v <= 1, [-0.1, 0.0, 0.5, 0.9, 1.0, 1.1], "doc")]


def _eta():
    return [Par("eta_max", "float", 0.7, lambda v: v > 0, [-0.5, 0.0, 0.01, 0.5, 0.7, 0.99]),
            Par("eta_step", "float", 0.01, lambda v: v > 0, [-0.1, 0.0, 0.001, 0.01, 0.5])]


SPEC = [
    # id, kind, method key, method, params
    ("matching_cost.sad", "matching_cost", "matching_cost_method", "sad", _mc("sad")),
    ("matching_cost.ssd", "matching_cost", "matching_cost_method", "ssd", _mc("ssd")),
    ("matching_cost.zncc", "matching_cost", "matching_cost_method", "zncc", _mc("zncc")),
    ("matching_cost.census", "matching_cost", "matching_cost_method", "census", _mc("census")),
    ("aggregation.cbca", "aggregation", "aggregation_method", "cbca",
     [Par("cbca_intensity", "float", 30.0, lambda v: v > 0, [-1.0, 0.0, 0.5, 30.0, 1e6]),
      Par("cbca_distance", "int", 5, lambda v: v > 0, [-1, 0, 1, 2, 5, 100])]),
    ("disparity.wta", "disparity", "disparity_method", "wta",
     [Par("invalid_disparity", "number", -9999, lambda v: True, [-9999, 0, 5, -1.5, 3.7, NAN],
          extra=[("NaN", ACC, "string-NaN", "core")])]),
    ("refinement.vfit", "refinement", "refinement_method", "vfit", []),
    ("refinement.quadratic", "refinement", "refinement_method", "quadratic", []),
    ("filter.median", "filter", "filter_method", "median",
     [Par("filter_size", "int", 3, lambda v: v >= 1 and v % 2 == 1, [-1, 0, 1, 2, 3, 4, 5, 6, 7])]),
    ("filter.bilateral", "filter", "filter_method", "bilateral",
     [Par("sigma_color", "float", 2.0, lambda v: v > 0, [-1.0, 0.0, 0.1, 2.0, 50.0]),
      Par("sigma_space", "float", 6.0, lambda v: v > 0, [-1.0, 0.0, 0.1, 6.0, 50.0])]),
    ("filter.median_for_intervals", "filter", "filter_method", "median_for_intervals",
     [Par("filter_size", "int", 3, lambda v: v >= 1 and v % 2 == 1, [-1, 0, 1, 2, 3, 4, 5]),
      Par("interval_indicator", "str", NODEF, lambda v: True, ["", "int"], "doc")] + _interval_params()),
    ("validation.cross_checking_accurate", "validation", "validation_method", "cross_checking_accurate",
     [Par("cross_checking_threshold", "number", 1.0, lambda v: True, [0, 1, 0.5, 1.0, 2.5]),
      Par("interpolated_disparity", "str", NODEF, lambda v: v in ("mc_cnn", "sgm"), ["sgm", "foo"], "doc",
          extra=[("mc_cnn", ACC, "value='mc_cnn'", "doc")])]),
    ("cost_volume_confidence.std_intensity", "cost_volume_confidence", "confidence_method", "std_intensity", []),
    ("cost_volume_confidence.ambiguity", "cost_volume_confidence", "confidence_method", "ambiguity",
     _eta() + [Par("normalization", "bool", NODEF, lambda v: True, [True, False], "doc")]),
    ("cost_volume_confidence.risk", "cost_volume_confidence", "confidence_method", "risk", _eta()),
    ("cost_volume_confidence.interval_bounds", "cost_volume_confidence", "confidence_method", "interval_bounds",
     [Par("possibility_threshold", "float", 0.9, lambda v: 0 <= v <= 1, [-0.1, 0.0, 0.5, 0.9, 1.0, 1.1], "doc")]
     + _interval_params()),
    ("multiscale.fixed_zoom_pyramid", "multiscale", "multiscale_method", "fixed_zoom_pyramid",
     [Par("num_scales", "int", 2, lambda v: v >= 2, [-1, 0, 1, 2, 3, 5]),
      Par("scale_factor", "int", 2, lambda v: v >= 2, [-1, 0, 1, 2, 3, 5]),
      Par("marge", "int", 1, lambda v: v >= 0, [-2, -1, 0, 1, 2, 10])]),
]
SPEC_BY_ID = {s[0]: s for s in SPEC}
METHOD_KEY = {s[1]: s[2] for s in SPEC}


def label(v):
    return "value=%r" % (v,)


def param_cases(par):
    """[(value, verdict, label, family)] for one parameter"""
    out = [(v, ACC if par.domain(v) else REJ, label(v), par.fam) for v in par.grid]
    out += [(v, REJ, lab, par.fam) for lab, v in wrong_type_values(par.typ)]
    out += list(par.extra)
    return out


# ---------------------------------------------------------------------------------------------------------------------
# running the real code at the three levels
# ---------------------------------------------------------------------------------------------------------------------
class Ctx:
    """images of the run (written once)"""

    def __init__(self, tmp):
        self.shape = (24, 32)
        self.inp_mono = P.write_small_images(tmp, self.shape)
        self.inp_multi = P.write_small_images(tmp, self.shape, tag="_rgb", bands=["r", "g", "b"])
        self.meta_mono = P.metadata(self.inp_mono)
        self.meta_multi = P.metadata(self.inp_multi)
        # image pairs whose left and right band sets differ
        self.pairs = {}
        for name, (lb, rb) in list(BAND_PAIRS.items()) + list(MULTICHAR_PAIRS.items()):
            inp = write_band_pair(tmp, self.shape, name, lb, rb)
            self.pairs[name] = (inp, P.metadata(inp))

    def images(self, images=None, multiband=False):
        """-> (input section, (left metadata, right metadata))"""
        if images is not None:
            return self.pairs[images]
        return (self.inp_multi, self.meta_multi) if multiband else (self.inp_mono, self.meta_mono)


# name -> (left band names, right band names); None = monoband image (no band description)
BAND_PAIRS = {"rgb-gbn": (["r", "g", "b"], ["g", "b", "n"]), "gbn-rgb": (["g", "b", "n"], ["r", "g", "b"]),
              "rgb-rg": (["r", "g", "b"], ["r", "g"]), "rg-rgb": (["r", "g"], ["r", "g", "b"]),
              "rgb-mono": (["r", "g", "b"], None), "mono-rgb": (None, ["r", "g", "b"])}


# same band set on both sides, band names of several characters / band sets whose single-letter names can be
# concatenated into a string that is NOT a band: a band name is compared as a whole, never character by character
MULTICHAR_PAIRS = {"rednir": (["red", "nir"], ["red", "nir"]), "rg": (["r", "g"], ["r", "g"]),
                   "redgreenblue": (["red", "green", "blue"], ["red", "green", "blue"])}
MULTICHAR_BANDS = {"rednir": ["red", "nir", "r", "rn", "redx", "rednir"],
                   "rg": ["r", "g", "rg", "gr", "rr"],
                   "redgreenblue": ["green", "red", "blue", "gre", "ed", "greenred"]}


def write_band_pair(tmpdir, shape, name, left_bands, right_bands):
    """Two synthetic GeoTIFFs of the same size (integer-valued float32 ramps, right = left shifted by 2 columns) whose
    band descriptions are the given names; returns the 'input' section.  Only the metadata matter for checking."""
    import rasterio
    rows, cols = shape
    base = (np.arange(rows)[:, None] * 7 + np.arange(cols + 2)[None, :] * 13) % 251
    paths = {}
    with warnings.catch_warnings():
        warnings.simplefilter("ignore")
        for side, bands, shift in (("left", left_bands, 0), ("right", right_bands, 2)):
            count = 1 if bands is None else len(bands)
            arr = np.stack([(base[:, shift:shift + cols] + 17 * i) % 251 for i in range(count)]).astype(np.float32)
            path = os.path.join(tmpdir, "%s_%s_%dx%d.tif" % (side, name, rows, cols))
            with rasterio.open(path, "w", driver="GTiff", height=rows, width=cols, count=count, dtype="float32") as dst:
                dst.write(arr)
                for i, b in enumerate(bands or ()):
                    dst.set_band_description(i + 1, b)
            paths[side] = path
    return {"left": {"img": paths["left"], "disp": [-3, 1]}, "right": {"img": paths["right"]}}


def call_l1(kind, cfg, ctx):
    """the step class through its dispatcher, with the very dictionary of the user"""
    if kind == "matching_cost":
        return matching_cost.AbstractMatchingCost(**cfg).cfg
    if kind == "aggregation":
        return aggregation.AbstractAggregation(**cfg).cfg
    if kind == "disparity":
        return disparity.AbstractDisparity(**cfg).cfg
    if kind == "refinement":
        return refinement.AbstractRefinement(**cfg).cfg
    if kind == "filter":
        return flt.AbstractFilter(cfg=cfg, image_shape=ctx.shape, step=1).cfg
    if kind == "validation":
        return validation.AbstractValidation(**cfg).cfg
    if kind == "cost_volume_confidence":
        return cost_volume_confidence.AbstractCostVolumeConfidence(**cfg).cfg
    if kind == "multiscale":
        return multiscale.AbstractMultiscale(ctx.meta_mono[0], ctx.meta_mono[1], **cfg).cfg
    raise ValueError(kind)


BEFORE = {"matching_cost": [], "aggregation": ["matching_cost"], "cost_volume_confidence": ["matching_cost"],
          "disparity": ["matching_cost"], "filter": ["matching_cost", "disparity"],
          "refinement": ["matching_cost", "disparity"], "validation": ["matching_cost", "disparity"],
          "multiscale": ["matching_cost", "disparity"]}
PLAIN = {"matching_cost": {"matching_cost_method": "zncc"}, "aggregation": {"aggregation_method": "cbca"},
         "cost_volume_confidence": {"confidence_method": "ambiguity"}, "disparity": {"disparity_method": "wta"},
         "refinement": {"refinement_method": "vfit"}, "filter": {"filter_method": "median"},
         "validation": {"validation_method": "cross_checking_accurate"},
         "multiscale": {"multiscale_method": "fixed_zoom_pyramid"}}
LONG = ["matching_cost", "aggregation", "cost_volume_confidence", "disparity", "refinement", "filter", "validation",
        "multiscale"]
LONG_CLS = {"matching_cost": "matching_cost.zncc", "aggregation": "aggregation.cbca",
            "cost_volume_confidence": "cost_volume_confidence.ambiguity", "disparity": "disparity.wta",
            "refinement": "refinement.vfit", "filter": "filter.median",
            "validation": "validation.cross_checking_accurate", "multiscale": "multiscale.fixed_zoom_pyramid"}


def pipe_l2(kind, cfg):
    pipe = {k: copy.deepcopy(PLAIN[k]) for k in BEFORE[kind]}
    pipe[kind] = cfg
    return pipe


def pipe_l3(kind, cfg):
    pipe = {k: copy.deepcopy(PLAIN[k]) for k in LONG}
    pipe[kind] = cfg
    return pipe


def build_pipe(level, kind, cfg, pipe=None):
    """pipe: None (the level's usual pipeline) | 'min' | 'min+validation' | 'long-novalidation' | 'long'"""
    if pipe is None:
        pipe = "long" if level == "L3" else "min"
    if pipe == "min":
        return pipe_l2(kind, cfg)
    if pipe == "min+validation":
        out = pipe_l2(kind, cfg)
        for k in ("disparity", "validation"):
            out.setdefault(k, copy.deepcopy(PLAIN[k]))
        return out
    out = pipe_l3(kind, cfg)
    if pipe == "long-novalidation":
        del out["validation"]
    return out


def attempt(fun):
    """-> (True, result) | (False, 'ExcType: msg')"""
    try:
        return True, fun()
    except Exception as exc:  # pylint: disable=broad-except
        return False, "%s: %s" % (type(exc).__name__, str(exc).replace("\n", " ")[:90])


def run_level(level, kind, cfg, ctx, multiband=False, images=None, pipe=None):
    """-> (accepted, completed step cfg or error text, mutated?, whole result or None, user_cfg)"""
    inp, metas = ctx.images(images, multiband)
    if level == "L1":
        user = cfg
        before = copy.deepcopy(user)
        ok, res = attempt(lambda: call_l1(kind, user, ctx))
        return ok, res, not P.cfg_equal(before, user, ordered=True), None, before
    if level == "L2":
        user = {"pipeline": build_pipe(level, kind, cfg, pipe)}
        before = copy.deepcopy(user)
        machine = PandoraMachine()
        ok, res = attempt(lambda: machine.check_conf(user, metas[0], metas[1]))
        step = machine.pipeline_cfg["pipeline"].get(kind) if ok else res
        return ok, step, not P.cfg_equal(before, user, ordered=True), (machine.pipeline_cfg if ok else None), before
    if level == "L2p":
        user = {"pipeline": build_pipe(level, kind, cfg, pipe)}
        before = copy.deepcopy(user)
        ok, res = attempt(lambda: check_configuration.check_pipeline_section(user, metas[0], metas[1], PandoraMachine()))
        step = res["pipeline"].get(kind) if ok else res
        return ok, step, not P.cfg_equal(before, user, ordered=True), (res if ok else None), before
    user = {"input": copy.deepcopy(inp), "pipeline": build_pipe(level, kind, cfg, pipe)}
    before = copy.deepcopy(user)
    ok, res = attempt(lambda: check_configuration.check_conf(user, PandoraMachine()))
    step = res["pipeline"].get(kind) if ok else res
    return ok, step, not P.cfg_equal(before, user, ordered=True), (res if ok else None), before


def converted(v):
    """documented string conversions"""
    return {"NaN": NAN, "inf": math.inf, "-inf": -math.inf}.get(v, v) if isinstance(v, str) else v


def same_value(a, b):
    return P.cfg_equal(a, b) and (isinstance(a, float) == isinstance(b, float) or not isinstance(a, (int, float)))


# ---------------------------------------------------------------------------------------------------------------------
# judging one case
# ---------------------------------------------------------------------------------------------------------------------
def judge(level, cls_id, cfg, verdict, fam, lab, ctx, multiband=False, focus=None, images=None, pipe=None):
    """cfg: the user's step configuration (method key + some parameters); verdict: ACC / REJ (oracle);
    -> list of (clause, witness_class, message)"""
    _, kind, mkey, _, params = SPEC_BY_ID[cls_id]
    user_step = copy.deepcopy(cfg)
    ok, step, mutated, whole, before = run_level(level, kind, cfg, ctx, multiband, images, pipe)
    dom = "C05.domain" if fam == "core" else "C05.docdomain"
    pname = focus or "+".join(k for k in user_step if k != mkey) or "method"
    out = []
    if verdict == ACC and not ok:
        out.append(("%s.%s.%s" % (dom, cls_id, pname), "in-domain-rejected:%s" % lab,
                    "%s %s with %s is inside the documented domain but was rejected: %s" % (level, cls_id, user_step, step)))
        return out
    if verdict == REJ and ok:
        out.append(("%s.%s.%s" % (dom, cls_id, pname), "out-of-domain-accepted:%s" % lab,
                    "%s %s with %s is outside the documented domain but was accepted -> %s"
                    % (level, cls_id, user_step, step)))
    if mutated:
        where = {"L1": "class", "L2": "machine", "L2p": "check_pipeline_section", "L3": "check_conf"}[level]
        out.append(("C05.nomutate.%s.%s" % (where, kind), "user-dict-mutated@%s" % level,
                    "%s %s: the dictionary handed in was modified: before %s" % (level, cls_id, before)))
    if not ok:
        return out
    if not isinstance(step, dict):
        out.append(("C05.result.%s" % cls_id, "no-step-cfg", "no completed cfg for step %s" % kind))
        return out
    # keep: value and relative position of the user's keys
    for k, v in user_step.items():
        if k not in step or not same_value(step[k], converted(v)):
            fam_k = next((p.fam for p in params if p.name == k), "core")
            out.append((("C05.keep" if fam_k == "core" else "C05.dockeep") + ".%s.%s" % (cls_id, k), "value-changed",
                        "%s %s: user value %s=%r became %r" % (level, cls_id, k, v, step.get(k, "<absent>"))))
    if [k for k in step if k in user_step] != list(user_step):
        out.append(("C05.order.step.%s" % cls_id, "user-keys-reordered",
                    "%s %s: user keys %s appear as %s" % (level, cls_id, list(user_step), list(step))))
    # defaults of the omitted parameters
    for par in params:
        if par.name in user_step or par.default is NODEF:
            continue
        if par.name not in step or not same_value(step[par.name], par.default):
            out.append((("C05.default" if par.fam == "core" else "C05.docdefault") + ".%s.%s" % (cls_id, par.name),
                        "default-differs",
                        "%s %s: omitted %s should default to %r, got %r"
                        % (level, cls_id, par.name, par.default, step.get(par.name, "<absent>"))))
    # idempotence
    if level == "L1":
        ok2, again = attempt(lambda: call_l1(kind, copy.deepcopy(step), ctx))
        if not ok2 or not P.cfg_equal(again, step, ordered=True):
            out.append(("C05.idem.%s" % cls_id, "recheck-differs", "checking the result %s again gives %s" % (step, again)))
    elif level == "L3":
        out += judge_whole(whole, before, ctx)
    elif level in ("L2", "L2p"):
        if list(whole["pipeline"]) != list(before["pipeline"]):
            out.append(("C05.order.pipeline", "steps-reordered", "steps %s checked as %s"
                        % (list(before["pipeline"]), list(whole["pipeline"]))))
    return out


def judge_whole(res, user, ctx):
    """structure of a whole returned configuration (L3)"""
    out = []
    if list(res.get("pipeline", {})) != list(user["pipeline"]):
        out.append(("C05.order.pipeline", "steps-reordered", "pipeline steps %s returned as %s"
                    % (list(user["pipeline"]), list(res.get("pipeline", {})))))
    for side in ("left", "right"):
        got = res.get("input", {}).get(side, {})
        for k, v in user["input"][side].items():
            if k not in got or not same_value(got[k], converted(v)):
                out.append(("C05.keep.input.%s" % k, "value-changed", "input.%s.%s=%r became %r"
                            % (side, k, v, got.get(k, "<absent>"))))
        if "nodata" not in user["input"][side] and not same_value(got.get("nodata", "<absent>"), -9999):
            out.append(("C05.default.input.nodata", "default-differs", "input.%s.nodata defaults to %r"
                        % (side, got.get("nodata", "<absent>"))))
        for k in ("mask", "classif", "segm") + (("disp",) if side == "right" else ()):
            if k not in user["input"][side] and (k not in got or got[k] is not None):
                out.append(("C05.docdefault.input.%s" % k, "default-differs", "input.%s.%s defaults to %r"
                            % (side, k, got.get(k, "<absent>"))))
    ok2, again = attempt(lambda: check_configuration.check_conf(copy.deepcopy(res), PandoraMachine()))
    if not ok2 or not P.cfg_equal(again, res, ordered=True):
        out.append(("C05.idem.check_conf", "recheck-differs",
                    "checking the returned configuration again gives %s instead of %s" % (again, res)))
    return out


# ---------------------------------------------------------------------------------------------------------------------
# enumeration
# ---------------------------------------------------------------------------------------------------------------------
def enc(x):
    """repr with a '=' prefix: survives the json round trip of the witness (a bare 'nan'/'inf' string would not)"""
    return "=" + repr(x)


def dec(s):
    return eval(s[1:], {"__builtins__": {}}, {"nan": NAN, "inf": math.inf, "True": True, "False": False, "None": None})  # pylint: disable=eval-used


class Driver:
    def __init__(self, rec, ctx):
        self.rec, self.ctx = rec, ctx
        self.failed_single = set()      # (class, parameter, label) whose verdict already failed alone

    def case(self, level, cls_id, cfg, verdict, fam, lab, multiband=False, focus=None, part="grid", images=None,
             pipe=None):
        witness = {"part": part, "level": level, "cls": cls_id, "cfg": enc(cfg), "verdict": verdict, "fam": fam,
                   "label": lab, "multiband": multiband, "focus": focus, "images": images, "pipe": pipe}
        probs = judge(level, cls_id, cfg, verdict, fam, lab, self.ctx, multiband, focus, images, pipe)
        self.rec.case(key=(part, level, cls_id, witness["cfg"], multiband, images, pipe), nontrivial=True,
                      sample={"level": level, "class": cls_id, "cfg": witness["cfg"], "oracle": verdict}
                      if level == "L3" and verdict == REJ and fam == "core" else None)
        for clause, wcl, msg in probs:
            self.rec.violation(clause=clause, witness_class=wcl, message=msg, witness=dict(witness, clause=clause))
            if part == "grid" and (".domain." in clause or ".docdomain." in clause):
                self.failed_single.add((cls_id, focus, lab))

    def usable(self, cls_id, par, cases):
        """grid values whose single-value verdict held (a known single failure must not flood the combinations)"""
        return [c for c in cases if (cls_id, par.name, c[2]) not in self.failed_single]


def reduced(cases):
    """per parameter: first accepted, last accepted, the rejected values next to the domain, one wrong type"""
    acc = [c for c in cases if c[1] == ACC]
    rej = [c for c in cases if c[1] == REJ and c[2].startswith("value=")]
    wrong = [c for c in cases if c[2].startswith("type=")]
    pick = acc[:1] + acc[-1:] + rej[:1] + rej[-1:] + wrong[:1]
    out = []
    for c in pick:
        if not any(c is d for d in out):
            out.append(c)
    return out


def run(tier, seed):
    rng = np.random.default_rng(seed)
    rec = Recorder(max_violations=80)
    for f in ("pandora.check_configuration.check_conf", "pandora.check_configuration.check_input_section",
              "pandora.check_configuration.check_pipeline_section", "pandora.check_configuration.update_conf",
              "pandora.state_machine.PandoraMachine.check_conf", "pandora.state_machine.PandoraMachine.check_band_pipeline",
              "pandora.state_machine.PandoraMachine.<step>_check_conf",
              "pandora.matching_cost.matching_cost.AbstractMatchingCost.check_conf",
              "pandora.matching_cost.sad_ssd.SadSsd.check_conf", "pandora.matching_cost.census.Census.check_conf",
              "pandora.matching_cost.zncc.Zncc.check_conf", "pandora.aggregation.cbca.CrossBasedCostAggregation.check_conf",
              "pandora.disparity.disparity.WinnerTakesAll.check_conf", "pandora.refinement.vfit.Vfit.check_conf",
              "pandora.refinement.quadratic.Quadratic.check_conf", "pandora.filter.median.MedianFilter.check_conf",
              "pandora.filter.bilateral.BilateralFilter.check_conf",
              "pandora.filter.median_for_intervals.MedianForIntervalsFilter.check_conf",
              "pandora.validation.validation.CrossCheckingAccurate.check_conf",
              "pandora.cost_volume_confidence.ambiguity.Ambiguity.check_conf",
              "pandora.cost_volume_confidence.risk.Risk.check_conf",
              "pandora.cost_volume_confidence.interval_bounds.IntervalBounds.check_conf",
              "pandora.cost_volume_confidence.std_intensity.StdIntensity.check_conf",
              "pandora.multiscale.fixed_zoom_pyramid.FixedZoomPyramid.check_conf",
              "<every Abstract*.__new__ registry dispatcher>"):
        rec.functions.add(f)
    smoke = tier == "smoke"
    with P.quiet(), tempfile.TemporaryDirectory() as tmp:
        ctx = Ctx(tmp)
        drv = Driver(rec, ctx)

        # 1. every class: defaults only, then each parameter alone on its grid, at the three levels
        for cls_id, kind, mkey, method, params in SPEC:
            base = {mkey: method}
            levels = ("L1", "L2", "L3") if (not smoke) else ("L1", "L2")
            for level in levels:
                drv.case(level, cls_id, dict(base), ACC, "core", "defaults-only", focus="defaults")
            for par in params:
                for value, verdict, lab, fam in param_cases(par):
                    for level in levels:
                        # parameter first / method first: position of user keys
                        cfg = {mkey: method, par.name: copy.deepcopy(value)} if level != "L2" else \
                              {par.name: copy.deepcopy(value), mkey: method}
                        v = verdict
                        drv.case(level, cls_id, cfg, v, fam, lab, focus=par.name)

        # 2. method names: unknown, of another step kind, wrong type, missing
        other = {"matching_cost": "median", "aggregation": "sad", "disparity": "vfit", "refinement": "wta", "filter": "cbca",
                 "validation": "fixed_zoom_pyramid", "cost_volume_confidence": "cross_checking_accurate",
                 "multiscale": "ambiguity"}
        for kind, mkey in METHOD_KEY.items():
            cls_id = LONG_CLS[kind]
            bad = [("unknown-name", "foo"), ("empty-name", ""), ("other-kind-name", other[kind]), ("type=int", 3),
                   ("type=None", None), ("type=list", [PLAIN[kind][mkey]]), ("type=float", 2.5)]
            for lab, name in bad:
                for level in ("L1", "L2", "L3"):
                    drv.case(level, cls_id, {mkey: name}, REJ, "core", lab, focus="method", part="method")
            for level in ("L1", "L2", "L3"):
                drv.case(level, cls_id, {}, REJ, "core", "method-key-missing", focus="method", part="method")

        # 3. parameters combined: pairs inside one class (L1), reduced grids in quick, full grids in thorough
        for cls_id, kind, mkey, method, params in SPEC:
            for pa, pb in itertools.combinations(params, 2):
                ca, cb = drv.usable(cls_id, pa, param_cases(pa)), drv.usable(cls_id, pb, param_cases(pb))
                if tier != "thorough":
                    ca, cb = reduced(ca), reduced(cb)
                for (va, vda, la, fa), (vb, vdb, lb, fb) in itertools.product(ca, cb):
                    cfg = {pa.name: copy.deepcopy(va), mkey: method, pb.name: copy.deepcopy(vb)}
                    verdict = ACC if (vda == ACC and vdb == ACC) else REJ
                    fam = "core" if (fa == "core" and fb == "core") else "doc"
                    drv.case("L1", cls_id, cfg, verdict, fam, la + "&" + lb, focus=pa.name + "+" + pb.name, part="pair")

        # 4. parameters combined across the steps of one whole configuration (L3): one class per step kind, every step
        #    gets one grid value at the same time; accept iff every value is in its domain
        n_combo = 15 if smoke else (120 if tier == "quick" else 1500)
        by_kind = {}
        for cls_id, kind, mkey, method, params in SPEC:
            by_kind.setdefault(kind, []).append(cls_id)
        for i in range(n_combo):
            pipe, verdict, fam, labs = {}, ACC, "core", []
            p_bad = (0.0, 0.08, 0.25)[i % 3]
            for kind in LONG:
                cls_id = by_kind[kind][int(rng.integers(len(by_kind[kind])))]
                _, _, mkey, method, params = SPEC_BY_ID[cls_id]
                step = {mkey: method}
                for par in params:
                    if rng.random() < 0.5:
                        continue
                    cases = drv.usable(cls_id, par, param_cases(par))
                    good = [c for c in cases if c[1] == ACC]
                    bad = [c for c in cases if c[1] == REJ]
                    pool = bad if (bad and rng.random() < p_bad) else good
                    if not pool:
                        continue
                    value, vd, lab, fm = pool[int(rng.integers(len(pool)))]
                    step[par.name] = copy.deepcopy(value)
                    if vd == REJ:
                        verdict = REJ
                        labs.append("%s.%s:%s" % (kind, par.name, lab))
                    if fm != "core":
                        fam = "doc"
                pipe[kind] = step
            judge_combo(drv, pipe, verdict, fam, labs)

        # 5. band of the matching cost against the bands of the images, mono / multiband (L2, L3)
        for method in ("sad", "zncc", "census"):
            cls_id = "matching_cost." + method
            for multiband, band, verdict, lab in ((True, "r", ACC, "band-present"), (True, "b", ACC, "band-present"),
                                                  (True, "n", REJ, "band-absent-multiband"),
                                                  (True, "R", REJ, "band-absent-multiband"),
                                                  (False, "r", REJ, "band-absent-monoband"),
                                                  (False, None, ACC, "no-band-monoband")):
                for level in ("L2", "L3"):
                    drv.case(level, cls_id, {"matching_cost_method": method, "band": band}, verdict, "core", lab,
                             multiband=multiband, focus="band", part="band")

        # 5b. left and right images with DIFFERENT band sets: a named band is accepted iff BOTH images carry it.
        #     Smallest pipelines first; without and with a validation step (second round with the images swapped).
        for pipe in ("min", "min+validation", "long-novalidation", "long"):
            val = "validation" if pipe in ("min+validation", "long") else "novalidation"
            for method in ("sad", "ssd", "zncc", "census"):
                cls_id = "matching_cost." + method
                for pair, (lb, rb) in BAND_PAIRS.items():
                    for band in sorted(set(lb or ()) | set(rb or ())) + ["x"]:
                        in_l, in_r = band in (lb or ()), band in (rb or ())
                        verdict = ACC if (in_l and in_r) else REJ
                        lab = {(True, True): "band-in-both", (True, False): "band-absent-from-right",
                               (False, True): "band-absent-from-left", (False, False): "band-absent-from-both"}[in_l, in_r]
                        for level in ("L2", "L2p", "L3"):
                            drv.case(level, cls_id, {"matching_cost_method": method, "band": band}, verdict, "core",
                                     "%s/%s" % (lab, val), focus="band", part="band-pair", images=pair, pipe=pipe)

        # 5c. band names of several characters (same band set left and right): the name is a band iff it equals a band
        #     description; 'red' on (red, nir) is in the domain, 'rg' on (r, g) is not
        for pipe in ("min", "min+validation", "long-novalidation", "long"):
            for method in ("sad", "ssd", "zncc", "census"):
                cls_id = "matching_cost." + method
                for pair, (lb, _) in MULTICHAR_PAIRS.items():
                    for band in MULTICHAR_BANDS[pair]:
                        verdict = ACC if band in lb else REJ
                        lab = "multi-character-band-name/" + ("band-present" if verdict == ACC else "band-absent")
                        for level in ("L2", "L2p", "L3"):
                            drv.case(level, cls_id, {"matching_cost_method": method, "band": band}, verdict, "core", lab,
                                     focus="band", part="band-multichar", images=pair, pipe=pipe)

        # 6. the shared matching-cost schema: the verdict on B must not depend on which class was checked before
        for first, second in itertools.permutations(("sad", "census", "zncc", "ssd"), 2):
            cls_id = "matching_cost." + second
            win = SPEC_BY_ID[cls_id][4][0]
            for value, verdict, lab, fam in param_cases(win):
                attempt(lambda: matching_cost.AbstractMatchingCost(matching_cost_method=first, window_size=3))
                drv.case("L1", cls_id, {"matching_cost_method": second, "window_size": value}, verdict, fam,
                         lab + "/after-" + first, focus="window_size", part="interleave:" + first)

        # 7. input section: nodata default / values / string conversion; 'NaN', 'inf', '-inf' strings in the pipeline
        for side in ("left", "right"):
            for value, verdict, lab in ((-9999, ACC, "value=-9999"), (0, ACC, "value=0"), (255, ACC, "value=255"),
                                        (2.5, REJ, "type=float"),
                                        ("abc", REJ, "type=str"), (None, REJ, "type=None"), ([0], REJ, "type=list")):
                judge_input(drv, side, "nodata", value, verdict, lab)
        for value in ("NaN", "inf", "-inf"):
            drv.case("L3", "disparity.wta", {"disparity_method": "wta", "invalid_disparity": value}, ACC, "core",
                     "string-" + value, focus="invalid_disparity", part="strings")

    # Divergences between the code and the user-guide TABLES for parameters the property statement does not name
    # (stale guide: vertical_depth, quantile_regularization, ambiguity_*, the "mc_cnn" spelling), and mutation of the
    # argument of the class-level API (the property speaks of checking a user configuration: check_conf does not mutate
    # it), are outside the statement: they are reported as observations, never as violations.
    _outside = ("C05.docdefault.", "C05.docdomain.", "C05.nomutate.class.")
    observations = [v for v in rec.violations if v["clause"].startswith(_outside)]
    rec.violations = [v for v in rec.violations if not v["clause"].startswith(_outside)]
    _res = _result(rec, tier, n_combo)
    _res["observations"] = [{"clause": v["clause"], "message": v["message"]} for v in observations]
    return _res


def _result(rec, tier, n_combo):
    return rec.result(
        bound="17 built-in method classes of the 8 built-in step kinds; per parameter the grid {domain edges +-1, a far "
              "value, wrong types from int/float/str/bool/None/list}; every single value at L1 (class), L2 "
              "(PandoraMachine.check_conf, minimal pipeline) and L3 (pandora.check_configuration.check_conf, 8-step "
              "pipeline, 24x32 GeoTIFF crops of tests/pandora left/right and left_rgb/right_rgb); all parameter pairs "
              "inside a class at L1 (%s grids); %d whole configurations with one grid value per parameter drawn at "
              "random in every step; method names {unknown, empty, other kind's, int, float, None, list, missing} x 8 "
              "kinds x 3 levels; matching-cost band x {mono, multiband (same bands left and right)}; matching-cost band x "
              "{4 methods} x {image pairs with different left/right band sets: rgb|gbn, gbn|rgb, rgb|rg, rg|rgb, "
              "rgb|mono, mono|rgb (synthetic GeoTIFFs)} x {every band name of either image + one of neither} x "
              "{minimal / 7-8 step pipeline, without / with a validation step} x {PandoraMachine.check_conf, "
              "check_pipeline_section, check_configuration.check_conf}; matching-cost band names of several characters "
              "on pairs (red,nir), (r,g), (red,green,blue) (same bands both sides; bands present, absent, "
              "concatenations / substrings of band names) x the same methods, pipelines and levels; ordered pairs of matching-cost classes "
              "(shared schema); nodata grid on both sides; 'NaN'/'inf'/'-inf' strings"
              % ("full" if tier == "thorough" else "reduced", n_combo),
        rule="verdicts come from SPEC (statement + user-guide tables); accepted = no exception, rejected = any "
             "exception; on acceptance: user values kept (documented string conversions applied), relative order of user "
             "keys and order of pipeline steps kept, documented default for every omitted parameter, argument not "
             "mutated (deep comparison), re-checking the result returns it unchanged (key order included).  A case is "
             "(level, class, user cfg); all cases are non-trivial (each carries a verdict); distinct = distinct "
             "(part, level, class, cfg, image pair, pipeline shape).  Band oracle: a named band is in the domain iff it is "
             "a band (rasterio description) of the left AND of the right image (a monoband image has no named band).  "
             "Values on which statement and guide disagree or are silent are not on the "
             "grid.  Exact comparisons (nan-aware).  seed drives the random whole configurations only.")


def judge_combo(drv, pipe, verdict, fam, labs):
    ctx, rec = drv.ctx, drv.rec
    user = {"input": copy.deepcopy(ctx.inp_mono), "pipeline": copy.deepcopy(pipe)}
    witness = {"part": "combo", "cfg": enc(pipe), "verdict": verdict, "fam": fam}
    probs = combo_problems(pipe, verdict, fam, labs, ctx)
    rec.case(key=("combo", witness["cfg"]), nontrivial=True,
             sample={"level": "L3", "pipeline": witness["cfg"], "oracle": verdict} if verdict == ACC else None)
    for clause, wcl, msg in probs:
        rec.violation(clause=clause, witness_class=wcl, message=msg, witness=dict(witness, clause=clause, labs=labs))
    del user


def combo_problems(pipe, verdict, fam, labs, ctx):
    user = {"input": copy.deepcopy(ctx.inp_mono), "pipeline": copy.deepcopy(pipe)}
    before = copy.deepcopy(user)
    ok, res = attempt(lambda: check_configuration.check_conf(user, PandoraMachine()))
    dom = "C05.domain" if fam == "core" else "C05.docdomain"
    out = []
    if verdict == ACC and not ok:
        return [(dom + ".combined", "in-domain-rejected", "whole configuration with in-domain values rejected: %s | %s"
                 % (res, pipe))]
    if verdict == REJ and ok:
        out.append((dom + ".combined", "out-of-domain-accepted:%s" % ",".join(labs)[:80],
                    "whole configuration accepted although %s out of domain" % labs))
    if not P.cfg_equal(before, user, ordered=True):
        out.append(("C05.nomutate.check_conf.combined", "user-dict-mutated@L3", "user configuration modified by check_conf"))
    if not ok:
        return out
    out += judge_whole(res, before, ctx)
    for kind, ustep in pipe.items():
        step = res["pipeline"].get(kind, {})
        cls_id = "%s.%s" % (kind, ustep[METHOD_KEY[kind]])
        params = SPEC_BY_ID[cls_id][4]
        for k, v in ustep.items():
            if k not in step or not same_value(step[k], converted(v)):
                out.append(("C05.keep.%s.%s" % (cls_id, k), "value-changed", "%s=%r became %r"
                            % (k, v, step.get(k, "<absent>"))))
        if [k for k in step if k in ustep] != list(ustep):
            out.append(("C05.order.step.%s" % cls_id, "user-keys-reordered", "%s -> %s" % (list(ustep), list(step))))
        for par in params:
            if par.name in ustep or par.default is NODEF:
                continue
            if par.name not in step or not same_value(step[par.name], par.default):
                out.append((("C05.default" if par.fam == "core" else "C05.docdefault") + ".%s.%s" % (cls_id, par.name),
                            "default-differs", "omitted %s should default to %r, got %r"
                            % (par.name, par.default, step.get(par.name, "<absent>"))))
    return out


def input_problems(side, key, value, verdict, ctx):
    user = {"input": copy.deepcopy(ctx.inp_mono),
            "pipeline": {"matching_cost": {"matching_cost_method": "sad"}, "disparity": {"disparity_method": "wta"}}}
    user["input"][side][key] = copy.deepcopy(value)
    before = copy.deepcopy(user)
    ok, res = attempt(lambda: check_configuration.check_conf(user, PandoraMachine()))
    out = []
    if verdict == ACC and not ok:
        return [("C05.domain.input.%s" % key, "in-domain-rejected", "input.%s.%s=%r rejected: %s" % (side, key, value, res))]
    if verdict == REJ and ok:
        out.append(("C05.domain.input.%s" % key, "out-of-domain-accepted", "input.%s.%s=%r accepted" % (side, key, value)))
    if not P.cfg_equal(before, user, ordered=True):
        out.append(("C05.nomutate.check_conf.input", "user-dict-mutated@L3", "user configuration modified by check_conf"))
    if ok:
        out += judge_whole(res, before, ctx)
    return out


def judge_input(drv, side, key, value, verdict, lab):
    witness = {"part": "input", "side": side, "key": key, "cfg": enc(value), "verdict": verdict}
    probs = input_problems(side, key, value, verdict, drv.ctx)
    drv.rec.case(key=("input", side, key, witness["cfg"]), nontrivial=True)
    for clause, wcl, msg in probs:
        if clause.startswith("C05.domain.input"):
            wcl = wcl + ":" + lab + "/" + side
        drv.rec.violation(clause=clause, witness_class=wcl, message=msg,
                          witness=dict(witness, clause=clause))


def replay(witness):
    clause = witness["clause"]
    with P.quiet(), tempfile.TemporaryDirectory() as tmp:
        ctx = Ctx(tmp)
        part = witness["part"]
        if part == "combo":
            probs = combo_problems(dec(witness["cfg"]), witness["verdict"], witness["fam"], witness.get("labs", []), ctx)
        elif part == "input":
            probs = input_problems(witness["side"], witness["key"], dec(witness["cfg"]), witness["verdict"], ctx)
        else:
            if part.startswith("interleave:"):
                attempt(lambda: matching_cost.AbstractMatchingCost(matching_cost_method=part.split(":")[1], window_size=3))
            probs = judge(witness["level"], witness["cls"], dec(witness["cfg"]), witness["verdict"], witness["fam"],
                          witness["label"], ctx, bool(witness["multiband"]), witness.get("focus"),
                          witness.get("images"), witness.get("pipe"))
        return any(c == clause for c, _, _ in probs)
