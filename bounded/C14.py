"""Bounded stand-in for C14 - occlusion / mismatch filling touches only flagged pixels and fills from valid ones.

Real code executed: pandora.validation.interpolated_disparity.{McCnnInterpolation, SgmInterpolation}
.interpolated_disparity (through AbstractInterpolation(**{'interpolated_disparity': m})), hence the four @njit kernels
interpolate_{occlusion,mismatch}_{mc_cnn,sgm}, pandora.img_tools.find_valid_neighbors, pandora.criteria.mask_border;
and, in the 'validation_run' family, PandoraMachine.validation_run with 'interpolated_disparity' in the step
(interpolation of the left and right maps after both cross-checks).

Oracle (from the property statement and userguide/step_by_step/validation.rst; plain python, pixel by pixel).
Let valid(p) <=> mask_in(p) & 0b01111000011 == 0, V = {disp_in(p) : valid(p)}.
  * pixel without bit 8 (256) and bit 9 (512): disparity and mask identical bit for bit (C14.frame.*);
    with offset_row_col > 0 the input border is 1 (what the cross-check guarantees) and must end == 1 (C14.border);
  * pixel carrying 256 (resp. 512): the mask ends either unchanged (still flagged), or with 256 replaced by 16
    (resp. 512 by 32) = "filled"; for 'sgm' a mismatch with an occlusion in its 3x3 neighbourhood (input flags) may
    also end as an occlusion (512 replaced by 256) or as a filled occlusion (512 replaced by 16); every other mask is a
    violation (C14.flags.transition);
  * filled  =>  V non empty (else C14.novalid.stays_flagged: no valid pixel exists anywhere, so none "can be found")
                and the new disparity is finite and min(V) <= disparity <= max(V)   (C14.filled.value);
  * still flagged: nothing more is required (the statement does not say when a pixel must be filled).
Not checked (statement silent / would copy the implementation): which valid pixel is chosen, the exact median, the
disparity of a pixel that stays flagged.
"""
import multiprocessing as mp
import os
import warnings

import numpy as np

from bounded.common import Recorder, jsonable, same

INVALID = 0b01111000011
OCC, MIS, F_OCC, F_MIS = 256, 512, 16, 32
FLAGS = np.array([0, 256, 512, 1, 64], dtype=np.uint16)
DISPS = np.array([-1, 0, 2], dtype=np.float32)
NSYM = len(FLAGS) * len(DISPS)          # 15 (flag, disparity) symbols per pixel
METHODS = ("mc-cnn", "sgm")

# values used by the validation_run family (cross-check first): no NaN, so that every valid pixel has a finite disparity
P_VALS = np.array([-2, -1.5, -1, 0, 0.5, 1, 2], dtype=np.float32)
P_MASKS = np.array([0, 4, 64, 1, 2], dtype=np.uint16)


# ----------------------------------------------------------------------------------------------------------------------
# real code
# ----------------------------------------------------------------------------------------------------------------------
def _mk(disp, mask, offset, itv=None):
    import xarray as xr

    nrow, ncol = disp.shape
    data = {"disparity_map": (["row", "col"], np.array(disp, dtype=np.float32, copy=True)),
            "validity_mask": (["row", "col"], np.array(mask, dtype=np.uint16, copy=True))}
    if itv is not None:
        data["disparity_interval"] = xr.DataArray([int(itv[0]), int(itv[1])], coords=[("disparity", ["min", "max"])])
    ds = xr.Dataset(data, coords={"row": np.arange(nrow), "col": np.arange(ncol)})
    ds.attrs["offset_row_col"] = int(offset)
    return ds


def _state(ds):
    return np.array(ds["disparity_map"].data), np.array(ds["validity_mask"].data)


def execute(case):
    """-> list of (label, disp_in, mask_in, disp_out, mask_out): one entry per interpolated map."""
    from pandora import validation

    with warnings.catch_warnings():
        warnings.simplefilter("ignore")
        if case["mode"] == "direct":
            ds = _mk(case["disp"], case["mask"], case["offset"])
            validation.AbstractInterpolation(**{"interpolated_disparity": case["method"]}).interpolated_disparity(ds)
            d1, m1 = _state(ds)
            return [("", np.array(case["disp"], dtype=np.float32), np.array(case["mask"], dtype=np.uint16), d1, m1)]
        # validation_run family: the interpolation input is what the real cross-check produces
        from pandora.state_machine import PandoraMachine

        itv = case["itv"]
        ritv = (-itv[1], -itv[0])
        cfg = {"validation_method": "cross_checking_accurate", "cross_checking_threshold": case["thr"]}

        def fresh():
            return (_mk(case["left_disp"], case["left_mask"], case["offset"], itv),
                    _mk(case["right_disp"], case["right_mask"], case["offset"], ritv))

        left, right = fresh()
        checker = validation.AbstractValidation(**cfg)
        left = checker.disparity_checking(left, right)
        right = checker.disparity_checking(right, left)
        (ld0, lm0), (rd0, rm0) = _state(left), _state(right)
        left, right = fresh()
        pm = PandoraMachine()
        pm.left_disparity, pm.right_disparity, pm.right_disp_map = left, right, "cross_checking_accurate"
        pm.validation_run({"pipeline": {"validation": dict(cfg, interpolated_disparity=case["method"])}}, "validation")
        (ld1, lm1), (rd1, rm1) = _state(pm.left_disparity), _state(pm.right_disparity)
        return [("[left after validation_run] ", ld0, lm0, ld1, lm1), ("[right after validation_run] ", rd0, rm0, rd1, rm1)]


# ----------------------------------------------------------------------------------------------------------------------
# oracle
# ----------------------------------------------------------------------------------------------------------------------
RAYS = [(0, 1), (-1, 1), (-1, 0), (-1, -1), (0, -1), (1, -1), (1, 0), (1, 1)]


def _valid_rays(m0, r, c):
    """number of the 8 straight rays from (r,c) holding at least one valid pixel (only used to name the witness)"""
    nrow, ncol = len(m0), len(m0[0])
    n = 0
    for dr, dc in RAYS:
        rr, cc = r + dr, c + dc
        while 0 <= rr < nrow and 0 <= cc < ncol:
            if m0[rr][cc] & INVALID == 0:
                n += 1
                break
            rr, cc = rr + dr, cc + dc
    return n


def check_map(d0, m0, d1, m1, method, offset, found, tag=""):
    """d0/m0 input, d1/m1 output (numpy arrays).  found: (clause, class) -> (row, col, message), first occurrence kept."""
    if d1.shape != d0.shape or m1.shape != m0.shape:
        found.setdefault(("C14.frame.shape", method + ":shape-changed"), (0, 0, tag + "shape changed"))
        return
    nrow, ncol = d0.shape
    D0, M0, D1, M1 = d0.tolist(), m0.tolist(), d1.tolist(), m1.tolist()
    vals = [D0[r][c] for r in range(nrow) for c in range(ncol) if M0[r][c] & INVALID == 0 and D0[r][c] == D0[r][c]]
    lo, hi = (min(vals), max(vals)) if vals else (None, None)
    for r in range(nrow):
        for c in range(ncol):
            m, o, v0, v1 = M0[r][c], M1[r][c], D0[r][c], D1[r][c]
            if not m & (OCC | MIS):
                border = offset > 0 and (r < offset or r >= nrow - offset or c < offset or c >= ncol - offset)
                if o != m:
                    key = ("C14.border", method + ":border-pixel-not-bit0-only") if border else \
                        ("C14.frame.mask", "%s:unflagged-pixel-mask-%d-changed" % (method, m))
                    if key not in found:
                        found[key] = (r, c, "%s%s: pixel (%d,%d) without bit 8/9: mask %d -> %d" % (tag, method, r, c, m, o))
                if not (v0 == v1 or (v0 != v0 and v1 != v1)):
                    key = ("C14.frame.disparity", "%s:unflagged-pixel-mask-%d-disparity-changed" % (method, m))
                    if key not in found:
                        found[key] = (r, c, "%s%s: pixel (%d,%d) mask %d without bit 8/9: disparity %s -> %s"
                                      % (tag, method, r, c, m, v0, v1))
                continue
            kind = "occlusion" if m & OCC else "mismatch"
            if m & OCC and m & MIS:
                continue  # outside the enumerated domain (cross-check never sets both)
            still = {m}
            filled = {m - OCC + F_OCC} if kind == "occlusion" else {m - MIS + F_MIS}
            if method == "sgm" and kind == "mismatch":
                touching = any(M0[rr][cc] & OCC for rr in range(max(0, r - 1), min(nrow, r + 2))
                               for cc in range(max(0, c - 1), min(ncol, c + 2)))
                if touching:
                    still.add(m - MIS + OCC)
                    filled.add(m - MIS + F_OCC)
            if o in still:
                continue
            if o not in filled:
                key = ("C14.flags.transition", "%s:%s:mask-%d->%d" % (method, kind, m, o))
                if key not in found:
                    found[key] = (r, c, "%s%s: %s pixel (%d,%d): mask %d -> %d is neither 'still flagged' nor 'filled'"
                                  % (tag, method, kind, r, c, m, o))
                continue
            if o == m - MIS + F_OCC and kind == "mismatch":
                kind = "mismatch-treated-as-occlusion"
            isnan = v1 != v1
            finite = not isnan and abs(v1) != float("inf")
            if not vals:
                key = ("C14.novalid.stays_flagged", "%s:%s:no-valid-pixel-in-map:%s"
                       % (method, kind, "finite-value-flagged-filled" if finite else "nan-flagged-filled"))
                if key not in found:
                    found[key] = (r, c, "%s%s: %s pixel (%d,%d) flagged filled (mask %d -> %d, disparity %s -> %s) although "
                                        "the map has no valid pixel at all" % (tag, method, kind, r, c, m, o, v0, v1))
            elif not finite or v1 < lo or v1 > hi:
                rays = _valid_rays(M0, r, c)
                sym = "finite-value-outside-valid-range" if finite else "nan-flagged-filled"
                wc = "%s:%s:%s" % (method, kind, sym)
                if not finite:
                    wc += ":valid-on-8-rays=%s" % (rays if rays < 2 else "2+")
                key = ("C14.filled.value", wc)
                if key not in found:
                    found[key] = (r, c, "%s%s: %s pixel (%d,%d) flagged filled (mask %d -> %d) with disparity %s; valid "
                                        "disparities of the map span [%s, %s]; %d of the 8 straight rays reach a valid pixel"
                                  % (tag, method, kind, r, c, m, o, v1, lo, hi, rays))


def check(case, outs):
    found = {}
    for tag, d0, m0, d1, m1 in outs:
        check_map(d0, m0, d1, m1, case["method"], case["offset"], found, tag)
    return found


# ----------------------------------------------------------------------------------------------------------------------
# witnesses
# ----------------------------------------------------------------------------------------------------------------------
def _direct(disp, mask, method, offset=0):
    return {"mode": "direct", "disp": np.array(disp, dtype=np.float32), "mask": np.array(mask, dtype=np.uint16),
            "method": method, "offset": int(offset)}


def _pipeline(ld, lm, rd, rm, thr, itv, method, offset=0):
    return {"mode": "validation_run", "left_disp": np.array(ld, dtype=np.float32),
            "left_mask": np.array(lm, dtype=np.uint16), "right_disp": np.array(rd, dtype=np.float32),
            "right_mask": np.array(rm, dtype=np.uint16), "thr": thr, "itv": [int(itv[0]), int(itv[1])],
            "method": method, "offset": int(offset)}


def _reproduces(case, key):
    try:
        return key in check(case, execute(case))
    except Exception:
        return False


def minimise(case, key):
    """Greedy shrinking (direct cases only), keeping the same (clause, witness_class)."""
    cur = dict(case)
    if cur["mode"] != "direct":
        # try to restate the finding on the interpolation input produced by the real cross-check
        for tag, d0, m0, _, _ in execute(cur):
            cand = _direct(d0, m0, cur["method"], cur["offset"])
            if _reproduces(cand, key):
                cur = cand
                break
        else:
            return cur
    if cur["offset"] > 0:
        cand = dict(cur, offset=0)
        if _reproduces(cand, key):
            cur = cand
    changed = True
    while changed and cur["offset"] == 0:
        changed = False
        nrow, ncol = cur["disp"].shape
        cands = []
        if nrow > 1:
            cands += [{k: np.delete(cur[k], i, axis=0) for k in ("disp", "mask")} for i in (0, nrow - 1)]
        if ncol > 1:
            cands += [{k: np.delete(cur[k], i, axis=1) for k in ("disp", "mask")} for i in (0, ncol - 1)]
        for upd in cands:
            cand = dict(cur, **upd)
            if _reproduces(cand, key):
                cur, changed = cand, True
                break
    for name, simple in (("mask", 64), ("disp", 0.0)):
        nrow, ncol = cur[name].shape
        for r in range(nrow):
            for c in range(ncol):
                if cur[name][r, c] == simple:
                    continue
                a = cur[name].copy()
                a[r, c] = simple
                cand = dict(cur, **{name: a})
                if _reproduces(cand, key):
                    cur = cand
    return cur


def _witness(case, key, message):
    w = dict(case)
    w["clause"], w["witness_class"], w["message"] = key[0], key[1], message
    return jsonable(w)


def replay(witness):
    if witness.get("mode", "direct") == "direct":
        case = _direct(witness["disp"], witness["mask"], witness["method"], witness.get("offset", 0))
    else:
        case = _pipeline(witness["left_disp"], witness["left_mask"], witness["right_disp"], witness["right_mask"],
                         witness["thr"], witness["itv"], witness["method"], witness.get("offset", 0))
    return (witness["clause"], witness["witness_class"]) in check(case, execute(case))


# ----------------------------------------------------------------------------------------------------------------------
# enumeration
# ----------------------------------------------------------------------------------------------------------------------
def _digits(idx, base, n):
    return (np.asarray(idx, dtype=np.int64)[:, None] // (base ** np.arange(n, dtype=np.int64))[None, :]) % base


def _gen(fam, shape, start, stop, seed, draws):
    """Yields (disp, mask, offset) of the cases number start..stop-1 of a family."""
    nrow, ncol = shape
    n = nrow * ncol
    rng = np.random.default_rng([seed, {"all": 1, "flags": 2, "random": 3, "border": 4}[fam], nrow, ncol, start])
    if fam == "all":                       # every (flag, disparity) assignment: index in base 15
        sym = _digits(np.arange(start, stop), NSYM, n)
        for s in sym:
            yield DISPS[s % 3].reshape(shape), FLAGS[s // 3].reshape(shape), 0
    elif fam == "flags":                   # every flag layout (index in base 5) x `draws` seeded disparity assignments
        fl = _digits(np.arange(start, stop), 5, n)
        for f in fl:
            for _ in range(draws):
                yield DISPS[rng.integers(3, size=n)].reshape(shape), FLAGS[f].reshape(shape), 0
    elif fam == "random":                  # seeded; per-case flag frequencies so that sparse layouts occur too
        for _ in range(start, stop):
            p = rng.dirichlet(np.full(5, 0.7))
            yield DISPS[rng.integers(3, size=n)].reshape(shape), FLAGS[rng.choice(5, size=n, p=p)].reshape(shape), 0
    elif fam == "border":                  # offset 1: border = 1 (as after cross-checking), interior enumerated
        ni = (nrow - 2) * (ncol - 2)
        total = NSYM ** ni
        for i in range(start, stop):
            s = _digits([i % total], NSYM, ni)[0] if draws else rng.integers(NSYM, size=ni)   # draws=0: sampled
            mask = np.ones(shape, dtype=np.uint16)
            disp = DISPS[rng.integers(3, size=n)].reshape(shape).copy()
            mask[1:-1, 1:-1] = FLAGS[s // 3].reshape(nrow - 2, ncol - 2)
            disp[1:-1, 1:-1] = DISPS[s % 3].reshape(nrow - 2, ncol - 2)
            yield disp, mask, 1


def job_direct(args):
    fam, shape, start, stop, seed, draws, want_keys = args
    keys, viol, evaluations, sample = set(), {}, 0, None
    for disp, mask, offset in _gen(fam, shape, start, stop, seed, draws):
        nontrivial = bool((mask & (OCC | MIS)).any())
        for method in METHODS:
            case = _direct(disp, mask, method, offset)
            outs = execute(case)
            found = check(case, outs)
            evaluations += 1
            if nontrivial:
                keys.add((method, offset, shape, disp.tobytes(), mask.tobytes()))
            if sample is None and nontrivial and start == 0 and evaluations > 20:
                sample = {"family": fam, "method": method, "offset": offset, "disp": disp, "mask": mask,
                          "disp_after": outs[0][3], "mask_after": outs[0][4]}
            for key, (r, c, msg) in found.items():
                if key not in viol:
                    viol[key] = (case, msg)
    return {"evaluations": evaluations, "keys": keys if want_keys else None, "distinct": len(keys), "viol": viol,
            "sample": sample}


def job_pipeline(args):
    seed, chunk, n = args
    rng = np.random.default_rng([seed, 9, chunk])
    shapes = [(2, 4), (3, 5), (1, 5), (3, 4), (4, 4)]
    keys, viol, evaluations, sample = set(), {}, 0, None
    for i in range(n):
        shape = shapes[i % len(shapes)]
        ld = P_VALS[rng.integers(len(P_VALS), size=shape)]
        rd = P_VALS[rng.integers(len(P_VALS), size=shape)]
        lm = P_MASKS[rng.choice(5, size=shape, p=[0.7, 0.1, 0.1, 0.05, 0.05])]
        rm = P_MASKS[rng.choice(5, size=shape, p=[0.7, 0.1, 0.1, 0.05, 0.05])]
        thr = [0, 0.5, 1.0][rng.integers(3)]
        itv = [(-2, 2), (-1, 1), (0, 2)][rng.integers(3)]
        offset = int(rng.integers(2)) if shape[0] >= 3 else 0
        method = METHODS[i % 2] if rng.integers(2) else METHODS[rng.integers(2)]
        case = _pipeline(ld, lm, rd, rm, thr, itv, method, offset)
        outs = execute(case)
        found = check(case, outs)
        evaluations += 1
        if any((m0 & (OCC | MIS)).any() for _, _, m0, _, _ in outs):
            keys.add((method, offset, shape, thr, itv, ld.tobytes(), lm.tobytes(), rd.tobytes(), rm.tobytes()))
        if sample is None and chunk == 0 and i == 3:
            sample = {"family": "validation_run", "method": method, "left_disp": ld, "left_mask": lm, "right_disp": rd,
                      "right_mask": rm, "thr": thr, "interval": itv, "offset": offset,
                      "left_mask_after_crosscheck": outs[0][2], "left_mask_after": outs[0][4],
                      "left_disp_after": outs[0][3]}
        for key, (r, c, msg) in found.items():
            if key not in viol:
                viol[key] = (case, msg)
    return {"evaluations": evaluations, "keys": keys, "distinct": len(keys), "viol": viol, "sample": sample}


def _run_job(job):
    fn, args = job
    return fn(args)


def _plan(tier, seed):
    """List of jobs, smallest maps first."""
    jobs = []

    def add(fam, shape, total, per_job, draws=1, want_keys=False):
        for s in range(0, total, per_job):
            jobs.append((job_direct, (fam, shape, s, min(total, s + per_job), seed, draws, want_keys)))

    add("all", (1, 1), NSYM, NSYM)
    add("all", (1, 2), NSYM ** 2, NSYM ** 2)
    add("all", (2, 1), NSYM ** 2, NSYM ** 2)
    add("all", (1, 3), NSYM ** 3, NSYM ** 3)
    add("border", (3, 3), 3 * NSYM, 3 * NSYM, want_keys=True)
    if tier == "thorough":
        add("all", (3, 1), NSYM ** 3, NSYM ** 3)
        add("all", (2, 2), NSYM ** 4, 4000)
        add("flags", (1, 6), 5 ** 6, 500, draws=8)
        add("flags", (3, 3), 5 ** 9, 5 ** 9 // 400 + 1, draws=1)
        add("random", (4, 4), 120000, 3000, want_keys=True)
        add("border", (4, 4), NSYM ** 4, 4000)
        add("random", (1, 6), 40000, 4000, want_keys=True)
        add("random", (3, 3), 80000, 4000, want_keys=True)
        for chunk in range(10):
            jobs.append((job_pipeline, (seed, chunk, 500)))
    else:
        add("random", (2, 2), 1500, 1500, want_keys=True)
        add("random", (1, 6), 2000, 2000, want_keys=True)
        add("random", (3, 3), 3000, 3000, want_keys=True)
        add("random", (4, 4), 1500, 1500, want_keys=True)
        add("border", (4, 4), 1000, 1000, draws=0, want_keys=True)
        jobs.append((job_pipeline, (seed, 0, 250)))
    return jobs


BOUND_TXT = {
    "quick": "ALL 1x1, 1x2, 2x1, 1x3 maps and all 3x3 offset-1 interiors; seeded samples: 1500 2x2, 2000 1x6, 3000 3x3, "
             "1500 4x4, 1000 4x4 offset-1 maps, each with both methods; 250 validation_run pipelines",
    "thorough": "ALL 1x1, 1x2, 2x1, 1x3, 3x1, 2x2 maps; ALL 5^6 flag layouts of 1x6 x 8 seeded disparity draws; ALL 5^9 "
                "flag layouts of 3x3 x 1 seeded disparity draw; ALL 15^4 interiors of 4x4 offset-1 maps; seeded samples: "
                "120000 4x4, 40000 1x6, 80000 3x3 maps; each with both methods; 5000 validation_run pipelines",
}


def run(tier, seed):
    rec = Recorder(max_violations=40)
    rec.functions.update([
        "pandora.validation.interpolated_disparity.AbstractInterpolation.__new__",
        "pandora.validation.interpolated_disparity.McCnnInterpolation.interpolated_disparity",
        "pandora.validation.interpolated_disparity.McCnnInterpolation.interpolate_occlusion_mc_cnn",
        "pandora.validation.interpolated_disparity.McCnnInterpolation.interpolate_mismatch_mc_cnn",
        "pandora.validation.interpolated_disparity.SgmInterpolation.interpolated_disparity",
        "pandora.validation.interpolated_disparity.SgmInterpolation.interpolate_occlusion_sgm",
        "pandora.validation.interpolated_disparity.SgmInterpolation.interpolate_mismatch_sgm",
        "pandora.img_tools.find_valid_neighbors",
        "pandora.criteria.mask_border",
        "pandora.state_machine.PandoraMachine.validation_run",
        "pandora.validation.validation.CrossCheckingAccurate.disparity_checking",
    ])
    jobs = _plan(tier, seed)
    for method in METHODS:      # import pandora and compile the kernels once, before forking
        execute(_direct([[0, 0], [0, 0]], [[256, 0], [512, 0]], method))
    if tier == "thorough":
        nproc = max(1, min(8, (os.cpu_count() or 2) // 2))
        with mp.get_context("fork").Pool(nproc) as pool:
            results = pool.map(_run_job, jobs, chunksize=1)
    else:
        results = [_run_job(j) for j in jobs]

    evaluations, distinct, keys, cands = 0, 0, set(), {}
    for res in results:
        evaluations += res["evaluations"]
        if res["keys"] is not None:
            keys |= res["keys"]             # sampled families: union, duplicates between jobs removed
        else:
            distinct += res["distinct"]     # exhaustive families: jobs cover disjoint index ranges of one enumeration
        if res["sample"] is not None and len(rec.samples) < 5:
            rec.samples.append(jsonable(res["sample"]))
        for key, (case, msg) in res["viol"].items():
            cands.setdefault(key, (case, msg))
    for key, (case, msg) in cands.items():
        small = minimise(case, key)
        found = check(small, execute(small))
        if key in found:
            case, msg = small, found[key][2]
        rec.violation(clause=key[0], witness_class=key[1], message=msg, witness=_witness(case, key, msg))
    out = rec.result(
        bound="maps with flags over {0,256,512,1,64} and disparities over {-1,0,2}, methods {mc-cnn, sgm}: "
              + BOUND_TXT[tier],
        rule="one evaluation = one call of AbstractInterpolation(...).interpolated_disparity on a fresh dataset (or one "
             "validation_run pipeline: real cross-check of seeded 2x4/3x5/1x5/3x4/4x4 left/right maps over "
             "{-2,-1.5,-1,0,0.5,1,2}, then the oracle relates the cross-checked maps to the interpolated ones, left and "
             "right). 'ALL' families enumerate the index of the layout in base 15 (flag, disparity) or base 5 (flag); "
             "sampled families draw per-case flag frequencies (Dirichlet) with the seed. offset-1 maps have their "
             "border set to 1 as the cross-check leaves it. Distinct = distinct (method, offset, shape, disparity bytes, "
             "mask bytes); non-trivial = at least one pixel carries 256 or 512. Comparisons exact (integer-valued "
             "disparities).")
    out["evaluations"] = evaluations
    out["distinct_nontrivial"] = distinct + len(keys)
    return out
