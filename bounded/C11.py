"""Bounded stand-in for C11 - cross-based cost aggregation (cbca) averages the computable costs over the combined
cross-based support region.

Oracle (written from the property statement and aggregation.rst, Zhang et al. 2009; naive region enumeration, no integral
images):

* image used for the arms = the image with masked pixels (msk != valid_pixels) excluded, 3x3-median-filtered (the real
  pandora median filter is called for that - C10 covers the filter itself), restricted to the area on which the cost volume
  is computed (rim of `offset_row_col` pixels removed);
* a plane of disparity d compares the left pixel of column c with the right image at the position c + d ("the window
  centred at column + disparity in the right image, linearly interpolated for fractional disparities"): with
  fl = floor(d) and f = d - fl in [0, 1), that is column c + fl of the right image shifted by f, i.e. of the image
  (1 - f) * I[:, j] + f * I[:, j + 1] (one column less).  So d = -0.75 pairs with the 0.25-shift at column c - 1,
  d = -1.25 with the 0.75-shift at column c - 2, d = 0.75 with the 0.75-shift at column c (sub-pixel precisions 1, 2, 4).
  The shifted images are those of the real `shift_right_img` (order-1 interpolation) after each of them has been checked
  against the linear interpolation above (the naive interpolation is used instead should they differ); a shifted pixel
  is masked as soon as one of the two columns it interpolates is masked;
* arm(p, direction) = 0 for a masked anchor, otherwise the longest run of pixels p' with |I(p) - I(p')| < cbca_intensity,
  distance(p, p') < cbca_distance, inside the image and not masked; if that is 0 and the immediate neighbour exists and is
  not masked the arm is 1 (one-pixel minimum);
* combined arm = min(left-image arm at (r, c), right-image arm at (r, c + d));
* region(r, c, d) = rows r-top .. r+bot of the combined vertical arm of (r, c); on each row r' the columns
  c-left(r') .. c+right(r') of the combined horizontal arms of (r', c);
* out[r, c, d] = NaN iff in[r, c, d] is NaN, else sum of the non-NaN in[r', c', d] over the region / |region|;
* aggregating a volume == aggregating each of its planes alone.

The value clause is only evaluated where the right correspondent column c + d exists (the statement is silent otherwise);
the NaN clauses are evaluated everywhere.  Costs are small integers, so the float32 sums are exact; the quotient is
compared with a relative tolerance of 1e-5.

Kernels (cross_support, cbca_step_1..4) are also run alone against naive loops, on integer data, compared exactly.

Mask conventions: the value that means "valid" in a mask is the `valid_pixels` attribute of the dataset that carries the
mask (`no_data_mask` is its no-data value, every other value is "invalid"); the two images of a pair need not use the same
values.  A case therefore carries `lconv` / `rconv` = (valid_pixels, no_data_mask) of the left / right dataset and its
masks are written with these values; a pixel of an image is masked iff its msk differs from the valid_pixels of THAT
image.  About half of the cases that carry a mask are written with two different conventions (e.g. left 0 / 1, right
255 / 0).  A failure of such a case that disappears when the same pair (same masked pixels) is written with one common
convention gets the suffix `-mask-conventions-differ` in its witness class.
"""
import itertools
import time

import numpy as np
import xarray as xr

from bounded.common import Recorder, same, jsonable  # noqa: F401  (interface)

VALID, NODATA, INVALID = 0, 1, 2
CONV_DEFAULT = (VALID, NODATA)
# (valid_pixels, no_data_mask, value used for the other, "invalid", pixels); the valid_pixels values are pairwise different
CONVENTIONS = ((0, 1, 2), (255, 0, 1), (1, 0, 2), (2, 1, 0), (7, 3, 5))
DIFFCONV = "-mask-conventions-differ"
RTOL = 1e-5
DIRS = ((0, -1), (0, 1), (-1, 0), (1, 0))  # left, right, top, bottom  (axis-0 = row, axis-1 = col)


# --------------------------------------------------------------------------------------------------------------------
# naive oracle
# --------------------------------------------------------------------------------------------------------------------
def naive_arm(img, r, c, dr, dc, dist, tau):
    """img : 2D float array, masked pixels are non-finite"""
    n0, n1 = img.shape
    if not np.isfinite(img[r, c]):
        return 0
    arm = 0
    k = 1
    while k < dist:
        rr, cc = r + k * dr, c + k * dc
        if not (0 <= rr < n0 and 0 <= cc < n1):
            break
        if not np.isfinite(img[rr, cc]):
            break
        if not abs(float(img[r, c]) - float(img[rr, cc])) < tau:
            break
        arm = k
        k += 1
    if arm == 0:
        rr, cc = r + dr, c + dc
        if 0 <= rr < n0 and 0 <= cc < n1 and np.isfinite(img[rr, cc]):
            arm = 1
    return arm


def naive_arms(img, dist, tau):
    n0, n1 = img.shape
    out = np.zeros((n0, n1, 4), dtype=np.int64)
    for r in range(n0):
        for c in range(n1):
            for k, (dr, dc) in enumerate(DIRS):
                out[r, c, k] = naive_arm(img, r, c, dr, dc, dist, tau)
    return out


def _median3(masked):
    from pandora.filter import AbstractFilter

    filt = AbstractFilter(cfg={"filter_method": "median", "filter_size": 3})
    return filt.median_filter(masked)


def _crop(a, offset):
    return a[offset:a.shape[0] - offset, offset:a.shape[1] - offset] if offset > 0 else a


def oracle_supports(case):
    """arms of the left image and of every (shifted) right image, on the area of the cost volume"""
    from pandora.img_tools import shift_right_img

    left, right = case["left"], case["right"]
    offset, subpix, dist, tau = case["offset"], case["subpix"], case["distance"], case["intensity"]
    lm = np.array(left, dtype=np.float32)
    if case["lmsk"] is not None:
        lm[np.asarray(case["lmsk"]) != _conv(case, "lconv")[0]] = np.nan  # masked iff != valid_pixels of the LEFT dataset
    img_left = _crop(_median3(lm), offset)
    arms_left = naive_arms(img_left, dist, tau)

    ds_right = _dataset(right, None)
    arms_right, imgs_right = [], []
    real_shifts = shift_right_img(ds_right, subpix)
    for k in range(subpix):
        # entry k of the list = right image shifted by the fraction k / subpix
        im = _naive_shift(right, k / float(subpix))
        if k < len(real_shifts):
            real = np.array(real_shifts[k]["im"].data, dtype=np.float32)
            if real.shape == im.shape and np.allclose(real, im, rtol=0, atol=1e-3):
                im = real  # same image up to rounding: share the rounding of the real interpolation
        if case["rmsk"] is not None:
            bad = np.asarray(case["rmsk"]) != _conv(case, "rconv")[0]  # masked iff != valid_pixels of the RIGHT dataset
            if k > 0:
                bad = bad[:, :-1] | bad[:, 1:]
            im[bad] = np.nan
        imgs_right.append(_crop(_median3(im), offset))
        arms_right.append(naive_arms(imgs_right[-1], dist, tau))
    return arms_left, arms_right, img_left, imgs_right


def _naive_shift(right, frac):
    """right image linearly interpolated at the positions col + frac, 0 <= frac < 1 (one column less when frac > 0)"""
    im = np.array(right, dtype=np.float64)
    if frac == 0:
        return im.astype(np.float32)
    return ((1.0 - frac) * im[:, :-1] + frac * im[:, 1:]).astype(np.float32)


def oracle_plane(plane, d, arms_left, arms_right, subpix, swap_fraction=False):
    """plane : 2D (row, col) costs of the computed area; returns (expected, has_correspondent, region_size).
    `swap_fraction` (statistics only, never used as expectation): pair the plane with the shift 1 - frac(d) instead of
    frac(d), to measure whether the case can tell the two pairings apart."""
    n0, n1 = plane.shape
    fl = int(np.floor(d))
    idx = int(round((d - fl) * subpix))  # position c + d = column c + floor(d) of the image shifted by d - floor(d)
    if swap_fraction and idx != 0:
        idx = subpix - idx
    ar = arms_right[idx]
    exp = np.full((n0, n1), np.nan)
    has = np.zeros((n0, n1), dtype=bool)
    size = np.zeros((n0, n1), dtype=np.int64)
    for r in range(n0):
        for c in range(n1):
            cr = c + fl  # column of the correspondent in the (shifted) right image
            if not 0 <= cr < ar.shape[1]:
                continue
            has[r, c] = True
            top = min(arms_left[r, c, 2], ar[r, cr, 2])
            bot = min(arms_left[r, c, 3], ar[r, cr, 3])
            total, count = 0.0, 0
            for rr in range(r - top, r + bot + 1):
                lft = min(arms_left[rr, c, 0], ar[rr, cr, 0])
                rgt = min(arms_left[rr, c, 1], ar[rr, cr, 1])
                for cc in range(c - lft, c + rgt + 1):
                    count += 1
                    if not np.isnan(plane[rr, cc]):
                        total += float(plane[rr, cc])
            size[r, c] = count
            if not np.isnan(plane[r, c]):
                exp[r, c] = total / count
    return exp, has, size


# --------------------------------------------------------------------------------------------------------------------
# real code
# --------------------------------------------------------------------------------------------------------------------
def _conv(case, name):
    """(valid_pixels, no_data_mask) of the left ("lconv") / right ("rconv") dataset of the case"""
    conv = case.get(name)
    return CONV_DEFAULT if conv is None else (int(conv[0]), int(conv[1]))


def _conv_differ(case):
    return _conv(case, "lconv") != _conv(case, "rconv")


def _dataset(im, msk, conv=CONV_DEFAULT):
    im = np.array(im, dtype=np.float32)
    var = {"im": (["row", "col"], im)}
    if msk is not None:
        var["msk"] = (["row", "col"], np.array(msk, dtype=np.int16))
    ds = xr.Dataset(var, coords={"row": np.arange(im.shape[0]), "col": np.arange(im.shape[1])})
    ds.attrs = {"valid_pixels": int(conv[0]), "no_data_mask": int(conv[1]), "crs": None, "transform": None}
    return ds


def _disp_range(dmin, dmax, subpix):
    if subpix == 1:
        return np.arange(dmin, dmax + 1)
    rng_ = np.arange(dmin, dmax, 1 / float(subpix), dtype=np.float64)
    return np.append(rng_, [dmax])


def _arm_diff_classes(got, exp, img, dist):
    """classes of the differences between a real arm table and the naive one (empty when equal)"""
    got = np.asarray(got, dtype=np.int64)
    if got.shape != exp.shape:
        return ["shape"]
    classes = []
    for r, c, k in zip(*np.nonzero(got != exp)):
        nb_r, nb_c = r + DIRS[k][0], c + DIRS[k][1]
        nb_masked = 0 <= nb_r < img.shape[0] and 0 <= nb_c < img.shape[1] and not np.isfinite(img[nb_r, nb_c])
        cls = ("dist1-" if dist == 1 else "dist>1-") + ("masked-neighbour" if nb_masked else "other") + \
              ("-longer" if got[r, c, k] > exp[r, c, k] else "-shorter")
        if cls not in classes:
            classes.append(cls)
    return sorted(classes)


def diagnose(case, cost, disps, oracle):
    """why a value differs: are the real supports (computes_cross_supports) those of the statement ?"""
    from pandora import aggregation

    arms_left, arms_right, img_left, imgs_right = oracle
    cv = xr.Dataset(
        {"cost_volume": (["row", "col", "disp"], np.array(cost, dtype=np.float32))},
        coords={"row": np.arange(cost.shape[0]), "col": np.arange(cost.shape[1]), "disp": np.asarray(disps)},
    )
    cv.attrs = {"subpixel": int(case["subpix"]), "offset_row_col": int(case["offset"]), "cmax": 20}
    agg = aggregation.AbstractAggregation(**{"aggregation_method": "cbca", "cbca_intensity": float(case["intensity"]),
                                             "cbca_distance": int(case["distance"])})
    try:
        c_left, c_right = agg.computes_cross_supports(_dataset(case["left"], case["lmsk"], _conv(case, "lconv")),
                                                      _dataset(case["right"], case["rmsk"], _conv(case, "rconv")), cv)
    except Exception as exc:  # pylint: disable=broad-except
        return "supports-crash-" + type(exc).__name__, None
    classes = _arm_diff_classes(c_left, arms_left, img_left, case["distance"])
    if len(c_right) != len(arms_right):
        return "support-right-count", None
    for got, exp, img in zip(c_right, arms_right, imgs_right):
        classes += [c for c in _arm_diff_classes(got, exp, img, case["distance"]) if c not in classes]
    if classes:
        return "support-" + "+".join(sorted(classes)), (np.asarray(c_left, dtype=np.int64),
                                                         [np.asarray(c, dtype=np.int64) for c in c_right])
    return "supports-agree", None


def real_aggregate(case, cost, disps):
    """runs the real cbca on a copy; cost : (row, col, disp) float32 of image size"""
    from pandora import aggregation

    left = _dataset(case["left"], case["lmsk"], _conv(case, "lconv"))
    right = _dataset(case["right"], case["rmsk"], _conv(case, "rconv"))
    cost = np.array(cost, dtype=np.float32)
    cv = xr.Dataset(
        {"cost_volume": (["row", "col", "disp"], cost.copy())},
        coords={"row": np.arange(cost.shape[0]), "col": np.arange(cost.shape[1]), "disp": np.asarray(disps)},
    )
    cv.attrs = {"measure": "sad", "subpixel": int(case["subpix"]), "offset_row_col": int(case["offset"]), "cmax": 20,
                "window_size": 2 * int(case["offset"]) + 1, "type_measure": "min"}
    agg = aggregation.AbstractAggregation(**{"aggregation_method": "cbca", "cbca_intensity": float(case["intensity"]),
                                             "cbca_distance": int(case["distance"])})
    agg.cost_volume_aggregation(left, right, cv)
    return np.array(cv["cost_volume"].data)


# --------------------------------------------------------------------------------------------------------------------
# checks of one case
# --------------------------------------------------------------------------------------------------------------------
def _arm_reason(case):
    """short class of the features of the case, to keep different failures of the same clause apart"""
    parts = ["dist1" if case["distance"] == 1 else "dist>1"]
    parts.append("mask" if (case["lmsk"] is not None or case["rmsk"] is not None) else "nomask")
    parts.append("subpix%d" % case["subpix"])
    parts.append("offset%d" % case["offset"])
    return "-".join(parts)


def encode_mask(msk, conv3):
    """mask over {VALID, NODATA, INVALID} written with the convention (valid_pixels, no_data_mask, invalid value)"""
    if msk is None:
        return None
    msk = np.asarray(msk)
    out = np.empty(msk.shape, dtype=np.int16)
    out[msk == VALID] = conv3[0]
    out[msk == NODATA] = conv3[1]
    out[(msk != VALID) & (msk != NODATA)] = conv3[2]
    return out


def _common_convention(case):
    """the same pair (same masked pixels on each side) written with the one convention VALID / NODATA"""
    com = dict(case, lconv=CONV_DEFAULT, rconv=CONV_DEFAULT)
    for name, cname in (("lmsk", "lconv"), ("rmsk", "rconv")):
        if case[name] is not None:
            valid, nodata = _conv(case, cname)
            msk = np.asarray(case[name])
            com[name] = np.where(msk == valid, VALID, np.where(msk == nodata, NODATA, INVALID)).astype(np.int16)
    return com


def check_case(case, planes_alone=True, alone_max=None):
    """returns (list of (clause, witness_class, message), info dict); `alone_max`: at most that many planes (evenly
    spaced, first and last included) are also aggregated alone (None = every plane).
    When the two datasets declare different mask conventions and something fails, the same pair written with one common
    convention is evaluated too: the failures it does not show get the suffix DIFFCONV in their witness class (the others
    keep the class they have in the common-convention domain)."""
    out, info = _check_case(case, planes_alone, alone_max)
    if out and _conv_differ(case):
        common, _ = _check_case(_common_convention(case), planes_alone, alone_max)
        seen = {(f[0], f[1]) for f in common}
        lconv, rconv = _conv(case, "lconv"), _conv(case, "rconv")
        note = " [left valid_pixels=%d no_data_mask=%d, right valid_pixels=%d no_data_mask=%d; does not fail with a " \
               "common convention]" % (lconv + rconv)
        out = [f if (f[0], f[1]) in seen else (f[0], f[1] + DIFFCONV, f[2] + note) for f in out]
    return out, info


def _check_case(case, planes_alone=True, alone_max=None):
    out = []
    cost = np.array(case["cost"], dtype=np.float32)
    disps = _disp_range(case["dmin"], case["dmax"], case["subpix"])
    offset = case["offset"]
    lcopy, rcopy = np.array(case["left"], dtype=np.float32), np.array(case["right"], dtype=np.float32)
    try:
        got = real_aggregate(case, cost, disps)
    except Exception as exc:  # pylint: disable=broad-except
        return [("C11.agg.crash", type(exc).__name__ + "-" + _arm_reason(case), "cbca raised %r" % (exc,))], \
            {"nontrivial": False, "maxsize": 0}
    if not (same(lcopy, case["left"]) and same(rcopy, case["right"])):
        out.append(("C11.agg.frame", "input-image-written", "input arrays modified"))
    if got.shape != cost.shape:
        return [("C11.agg.shape", "shape-changed", "%s -> %s" % (cost.shape, got.shape))], {"nontrivial": False, "maxsize": 0}

    oracle = oracle_supports(case)
    arms_left, arms_right = oracle[0], oracle[1]
    why, real_sup = None, None
    nan_in, nan_out = np.isnan(cost), np.isnan(got)
    stay = nan_in & ~nan_out
    if stay.any():
        r, c, k = [int(v[0]) for v in np.nonzero(stay)]
        out.append(("C11.nan.stays", "nan-cost-became-number-" + _arm_reason(case),
                    "input NaN at (row %d, col %d, disp %s) became %r" % (r, c, disps[k], float(got[r, c, k]))))
    new = ~nan_in & nan_out
    if new.any():
        r, c, k = [int(v[0]) for v in np.nonzero(new)]
        out.append(("C11.nan.no_new", "number-became-nan-" + _arm_reason(case),
                    "input %r at (row %d, col %d, disp %s) became NaN" % (float(cost[r, c, k]), r, c, disps[k])))

    maxsize, partial = 0, False
    negfrac, discr = 0, False  # planes d < 0 with frac(d) not in {0, 1/2}; can the case tell frac(d) from 1 - frac(d) ?
    full = (2 * case["distance"] - 1) ** 2
    inner_in, inner_out = _crop(cost, offset), _crop(got, offset)
    for k, d in enumerate(disps):
        exp, has, size = oracle_plane(inner_in[:, :, k], float(d), arms_left, arms_right, case["subpix"])
        chk = has & ~np.isnan(exp) & ~np.isnan(inner_out[:, :, k])
        if chk.any():
            maxsize = max(maxsize, int(size[chk].max()))
            partial = partial or bool(((size[chk] > 1) & (size[chk] < full)).any())
        fpart = float(d) - np.floor(d)
        if float(d) < 0 and fpart not in (0.0, 0.5):
            negfrac += 1
            if not discr and chk.any():
                exp_sw, has_sw, _ = oracle_plane(inner_in[:, :, k], float(d), arms_left, arms_right, case["subpix"],
                                                 swap_fraction=True)
                discr = bool((chk & has_sw & ~np.isclose(exp_sw, exp, rtol=RTOL, atol=1e-7, equal_nan=True)).any())
        bad = chk & ~np.isclose(inner_out[:, :, k], exp, rtol=RTOL, atol=1e-7)
        if bad.any():
            r, c = [int(v[0]) for v in np.nonzero(bad)]
            frac = "sub" if float(d) != np.floor(d) else "int"
            if fpart not in (0.0, 0.5):
                frac = "negquarter" if float(d) < 0 else "quarter"
            if why is None:
                why, real_sup = diagnose(case, cost, disps, oracle)
            wclass = why if why != "supports-agree" else "supports-agree-%s-disp-%s" % (_arm_reason(case), frac)
            if real_sup is not None:
                # the real supports are not those of the statement; is the rest (mean over the region spanned by the
                # real supports) right ?  if not, a second cause exists and is reported under its own class
                exp2, has2, _ = oracle_plane(inner_in[:, :, k], float(d), real_sup[0], real_sup[1], case["subpix"])
                chk2 = has2 & ~np.isnan(exp2) & ~np.isnan(inner_out[:, :, k])
                bad2 = chk2 & ~np.isclose(inner_out[:, :, k], exp2, rtol=RTOL, atol=1e-7)
                if bad2.any():
                    r2, c2 = [int(v[0]) for v in np.nonzero(bad2)]
                    out.append(("C11.value.region_mean", "mean-over-real-supports-%s-disp-%s" % (_arm_reason(case), frac),
                                "(row %d, col %d, disp %s): real %r, mean over the region spanned by the real supports %r"
                                % (r2, c2, d, float(inner_out[r2, c2, k]), float(exp2[r2, c2]))))
            out.append(("C11.value.region_mean", wclass,
                        "(row %d, col %d, disp %s) of the computed area: real %r, region mean %r over %d pixels"
                        % (r, c, d, float(inner_out[r, c, k]), float(exp[r, c]), int(size[r, c]))))
    # (the statement is silent on the values of the rim when offset_row_col > 0: only the NaN clauses apply there)

    if planes_alone and len(disps) > 1:
        chosen = range(len(disps))
        if alone_max is not None and len(disps) > alone_max:
            chosen = sorted({int(round(v)) for v in np.linspace(0, len(disps) - 1, alone_max)})
        for k in chosen:
            d = disps[k]
            alone_case = dict(case)
            try:
                alone = real_aggregate(alone_case, cost[:, :, k:k + 1], np.asarray(disps)[k:k + 1])
            except Exception as exc:  # pylint: disable=broad-except
                out.append(("C11.planes.independent", "single-plane-crash-" + type(exc).__name__,
                            "aggregating plane disp=%s alone raised %r" % (d, exc)))
                continue
            if not same(alone[:, :, 0], got[:, :, k]):
                out.append(("C11.planes.independent", "plane-differs-" + _arm_reason(case),
                            "plane disp=%s aggregated alone differs from the same plane aggregated within the volume" % (d,)))
    return out, {"nontrivial": maxsize > 1, "maxsize": maxsize, "partial": partial, "negfrac": negfrac, "discr": discr}


# --------------------------------------------------------------------------------------------------------------------
# kernels alone
# --------------------------------------------------------------------------------------------------------------------
def _rand_plane(rng, n0, n1, pnan):
    pl = rng.integers(0, 21, size=(n0, n1)).astype(np.float32)
    pl[rng.random((n0, n1)) < pnan] = np.nan
    return pl


def _rand_cross(rng, n0, n1, bounded):
    """random arm table; `bounded` -> arms stay inside the (n0, n1) image (what cross_support guarantees)"""
    cr = np.zeros((n0, n1, 4), dtype=np.int16)
    for r in range(n0):
        for c in range(n1):
            if bounded:
                lim = (c, n1 - 1 - c, r, n0 - 1 - r)
            else:
                lim = (4, 4, 4, 4)
            for k in range(4):
                cr[r, c, k] = rng.integers(0, lim[k] + 1)
    return cr


def cross_support_case(img, dist, tau):
    """cross_support alone on one image (masked pixels = inf, as computes_cross_supports passes them)"""
    from pandora.aggregation import cbca

    fails = []
    img = np.ascontiguousarray(img, dtype=np.float32)
    got = cbca.cross_support(img, np.int16(dist), np.float32(tau))
    exp = naive_arms(img, dist, tau)
    if not same(np.asarray(got, dtype=np.int64), exp):
        r, c, k = [int(v[0]) for v in np.nonzero(np.asarray(got, dtype=np.int64) != exp)]
        cls = "+".join(_arm_diff_classes(got, exp, img, dist))
        fails.append(("C11.kernel.cross_support", cls,
                      "arm %s of (row %d, col %d): real %d, naive %d" % (("left", "right", "top", "bottom")[k], r, c,
                                                                          int(got[r, c, k]), int(exp[r, c, k])),
                      {"kind": "cross_support", "img": img, "distance": dist, "intensity": tau}))
    return ("cross_support", img.tobytes(), img.shape, dist, tau), \
        {"kind": "cross_support", "shape": list(img.shape), "distance": dist, "intensity": tau}, fails


def cross_support_small_scope():
    """every image over {0, 5, 10, 40, masked} of shape 1x1..1x4, 2x1..4x1 and 2x2, smallest first (differences 5 and 30
    sit exactly on the two thresholds)"""
    vals = (0.0, 5.0, 10.0, 40.0, np.inf)
    shapes = [(1, 1), (1, 2), (2, 1), (1, 3), (3, 1), (1, 4), (4, 1), (2, 2)]
    for shp in shapes:
        for px in itertools.product(vals, repeat=shp[0] * shp[1]):
            img = np.array(px, dtype=np.float32).reshape(shp)
            for dist in (1, 2, 3, 5):
                for tau in (5.0, 30.0):
                    yield img, dist, tau


def kernel_case(kind, rng):
    """returns (key, sample, failures) for one random evaluation of a kernel"""
    from pandora.aggregation import cbca

    fails = []
    if kind == "cross_support":
        n0, n1 = int(rng.integers(1, 6)), int(rng.integers(1, 8))
        img = rng.choice(np.array([0, 5, 10, 40, 50], dtype=np.float32), size=(n0, n1))
        if rng.random() < 0.5:
            run_r = rng.random((n0, n1)) < 0.6
            for r in range(n0):
                for c in range(1, n1):
                    if run_r[r, c]:
                        img[r, c] = img[r, c - 1]
        pinf = float(rng.choice([0.0, 0.15, 0.4]))
        img[rng.random((n0, n1)) < pinf] = np.inf
        return cross_support_case(img, int(rng.choice([1, 2, 3, 5])), float(rng.choice([5.0, 30.0])))

    n0, n1 = int(rng.integers(1, 6)), int(rng.integers(1, 8))
    plane = _rand_plane(rng, n0, n1, float(rng.choice([0.0, 0.2, 0.5])))
    nn = np.where(np.isnan(plane), 0.0, plane).astype(np.float64)
    if kind == "step1":
        got = cbca.cbca_step_1(plane)
        exp = np.zeros((n0, n1 + 1))
        for r in range(n0):
            for c in range(n1):
                exp[r, c] = sum(nn[r, :c + 1])
        if got.shape != exp.shape or not same(got.astype(np.float64), exp):
            fails.append(("C11.kernel.step1", "prefix-sum", "horizontal integral image differs from the naive prefix sums",
                          {"kind": kind, "plane": plane}))
        return (kind, plane.tobytes(), plane.shape), {"kind": kind, "shape": [n0, n1]}, fails

    if kind == "step3":
        got = cbca.cbca_step_3(np.ascontiguousarray(nn.astype(np.float32)))
        exp = np.zeros((n0 + 1, n1))
        for r in range(n0):
            for c in range(n1):
                exp[r, c] = sum(nn[:r + 1, c])
        if got.shape != exp.shape or not same(got.astype(np.float64), exp):
            fails.append(("C11.kernel.step3", "prefix-sum", "vertical integral image differs from the naive prefix sums",
                          {"kind": kind, "plane": nn.astype(np.float32)}))
        return (kind, plane.tobytes(), plane.shape), {"kind": kind, "shape": [n0, n1]}, fails

    # step 2 / step 4 : arm tables + listed columns
    disp = int(rng.integers(-2, 3))
    n1r = n1 if rng.random() < 0.7 else max(1, n1 - 1)  # the shifted right support has one column less
    cl = _rand_cross(rng, n0, n1, True)
    cr = _rand_cross(rng, n0, n1r, False)
    cols = np.array([c for c in range(n1) if 0 <= c + disp < n1r], dtype=np.int64)
    cols_r = cols + disp
    wit = {"kind": kind, "plane": plane, "cross_left": cl, "cross_right": cr, "cols": cols, "cols_right": cols_r}
    key = (kind, plane.tobytes(), plane.shape, cl.tobytes(), cr.tobytes(), cr.shape, disp)
    sample = {"kind": kind, "shape": [n0, n1], "right_cols": n1r, "disp": disp}
    e2 = np.zeros((n0, n1))
    s2 = np.zeros((n0, n1))
    for r in range(n0):
        for c, c_r in zip(cols, cols_r):
            lft = min(cl[r, c, 0], cr[r, c_r, 0])
            rgt = min(cl[r, c, 1], cr[r, c_r, 1])
            e2[r, c] = sum(nn[r, c - lft:c + rgt + 1])
            s2[r, c] = lft + rgt
    if kind == "step2":
        step1 = np.zeros((n0, n1 + 1), dtype=np.float32)
        step1[:, :n1] = np.cumsum(nn, axis=1)
        g2, gs2 = cbca.cbca_step_2(step1, cl, cr, cols, cols_r)
        if g2.shape != e2.shape or not same(g2.astype(np.float64), e2):
            fails.append(("C11.kernel.step2", "horizontal-sum", "horizontal matching cost differs from the naive arm sum", wit))
        if gs2.shape != s2.shape or not same(gs2.astype(np.float64), s2):
            fails.append(("C11.kernel.step2", "horizontal-count", "number of horizontal support pixels differs", wit))
        return key, sample, fails

    # step4
    e4 = np.zeros((n0, n1))
    s4 = np.zeros((n0, n1))
    for r in range(n0):
        for c, c_r in zip(cols, cols_r):
            top = min(cl[r, c, 2], cr[r, c_r, 2])
            bot = min(cl[r, c, 3], cr[r, c_r, 3])
            e4[r, c] = sum(e2[r - top:r + bot + 1, c])
            s4[r, c] = sum(s2[r - top:r + bot + 1, c] + 1) - 1  # region size minus the anchor
    step3 = np.zeros((n0 + 1, n1), dtype=np.float32)
    step3[:n0, :] = np.cumsum(e2, axis=0)
    g4, gs4 = cbca.cbca_step_4(step3, s2.astype(np.float32), cl, cr, cols, cols_r)
    if g4.shape != e4.shape or not same(g4.astype(np.float64), e4):
        fails.append(("C11.kernel.step4", "vertical-sum", "aggregated cost differs from the naive sum over the vertical arm", wit))
    if gs4.shape != s4.shape or not same(gs4.astype(np.float64), s4):
        fails.append(("C11.kernel.step4", "region-count", "number of support pixels differs from the naive count", wit))
    return key, sample, fails


# --------------------------------------------------------------------------------------------------------------------
# domain
# --------------------------------------------------------------------------------------------------------------------
def _rand_image(rng, n0, n1, style):
    vals = np.array([0, 10, 50], dtype=np.float32)
    if style == "const":
        return np.full((n0, n1), rng.choice(vals), dtype=np.float32)
    if style == "vedges":
        # vertical intensity edges (columns piecewise constant, a few deviating pixels): they survive the 3x3 median
        # filter, and the 1/4- and 3/4-shifted images then see different jumps (2.5 / 7.5 on 0|10, 10 / 30 on 10|50 ...)
        line = np.empty(n1, dtype=np.float32)
        cur = rng.choice(vals)
        for c in range(n1):
            if c > 0 and rng.random() < 0.45:
                cur = rng.choice(vals[vals != cur])
            line[c] = cur
        img = np.tile(line, (n0, 1))
        spot = rng.random((n0, n1)) < 0.08
        img[spot] = rng.choice(vals, size=int(spot.sum()))
        return img
    img = rng.choice(vals, size=(n0, n1)).astype(np.float32)
    if style == "blocks":
        keep = rng.random((n0, n1))
        for r in range(n0):
            for c in range(n1):
                if keep[r, c] < 0.4 and c > 0:
                    img[r, c] = img[r, c - 1]
                elif keep[r, c] < 0.8 and r > 0:
                    img[r, c] = img[r - 1, c]
    return img


def _rand_mask(rng, n0, n1, style):
    if style == "none":
        return None
    msk = np.zeros((n0, n1), dtype=np.int16)
    if style == "allvalid":
        return msk
    if style == "one":
        msk[rng.integers(0, n0), rng.integers(0, n1)] = rng.choice([NODATA, INVALID])
        return msk
    hit = rng.random((n0, n1)) < (0.15 if style == "sparse" else 0.4)
    msk[hit] = rng.choice([NODATA, INVALID], size=int(hit.sum()))
    return msk


def make_case(rng, n0, n1, offset, subpix, distance, intensity, directed=False, maxwidth=4):
    """`directed` (used for subpix 4): right image with vertical edges, few masked pixels, negative first disparity;
    `maxwidth`: largest dmax - dmin"""
    style = str(rng.choice(["iid", "blocks", "blocks", "const"]))
    if directed:
        style = "vedges"
    left = _rand_image(rng, n0, n1, style)
    mode = rng.random()
    if directed and rng.random() < 0.5:
        # uniform left image: the left arms are as long as cbca_distance allows, the right arms decide the region
        left = _rand_image(rng, n0, n1, "const")
        mode = 1.0
    if mode < 0.4:  # right = left translated (true disparity) with fresh values entering
        sh = int(rng.integers(-1, 2))
        right = _rand_image(rng, n0, n1, style)
        if sh >= 0:
            right[:, sh:] = left[:, :n1 - sh]
        else:
            right[:, :n1 + sh] = left[:, -sh:]
    elif mode < 0.55:
        right = left.copy()
    else:
        right = _rand_image(rng, n0, n1, style)
    mstyles = ["none", "none", "allvalid", "one", "sparse", "sparse", "dense"]
    if directed:
        mstyles = ["none", "none", "none", "allvalid", "one", "one", "sparse"]
    lmsk = _rand_mask(rng, n0, n1, str(rng.choice(mstyles)))
    rmsk = _rand_mask(rng, n0, n1, str(rng.choice(mstyles)))
    dmin = int(rng.integers(-2, 1))
    dmax = int(rng.integers(max(dmin, -1), 3))
    if directed:
        dmin = int(rng.integers(-2, 0))
        dmax = int(rng.integers(dmin + 1, 2))
    dmax = min(dmax, dmin + maxwidth)
    disps = _disp_range(dmin, dmax, subpix)
    cost = rng.integers(0, 21, size=(n0, n1, len(disps))).astype(np.float32)
    pnan = float(rng.choice([0.0, 0.1, 0.3]))
    cost[rng.random(cost.shape) < pnan] = np.nan
    # as the matching-cost step does: no cost on the rim, and (usually) none where the correspondent does not exist
    if offset > 0:
        rim = np.ones((n0, n1), dtype=bool)
        rim[offset:-offset, offset:-offset] = False
        cost[rim] = np.nan
    if rng.random() < 0.8:
        w_in = n1 - 2 * offset
        for k, d in enumerate(disps):
            for c in range(w_in):
                if not 0 <= c + d <= w_in - 1:
                    cost[:, c + offset, k] = np.nan
    return {"left": left, "right": right, "lmsk": lmsk, "rmsk": rmsk, "cost": cost, "dmin": dmin, "dmax": dmax,
            "subpix": int(subpix), "offset": int(offset), "distance": int(distance), "intensity": float(intensity)}


def _shapes(offset, subpix):
    """image shapes, smallest first"""
    lo0 = 2 if offset == 0 else 3
    if offset == 0:
        lo1 = 2 if subpix == 1 else 3  # the shifted image (one column less) must be filterable
    else:
        lo1 = 3 if subpix == 1 else 4  # at least one computed column in the shifted support
    shapes = [(a, b) for a in range(lo0, 6) for b in range(lo1, 8)]
    return sorted(shapes, key=lambda s: (s[0] * s[1], s))


def _case_key(case):
    def byt(a):
        return None if a is None else (np.asarray(a).tobytes(), np.asarray(a).shape)
    return ("agg", byt(case["left"]), byt(case["right"]), byt(case["lmsk"]), byt(case["rmsk"]), byt(case["cost"]),
            case["dmin"], case["dmax"], case["subpix"], case["offset"], case["distance"], case["intensity"]) + \
        ((_conv(case, "lconv"), _conv(case, "rconv")) if (case.get("lconv") or case.get("rconv")) else ())


def _witness(case):
    wit = dict(case)
    wit["kind"] = "agg"
    return wit


def _shrink(case, clause, wclass, budget=60):
    """greedy reduction of a failing aggregation witness (keeps clause and witness class)"""
    def fails(cand):
        try:
            res, _ = check_case(cand)
        except Exception:  # pylint: disable=broad-except
            return False
        return any(f[0] == clause and f[1] == wclass for f in res)

    best = case
    tries = 0
    changed = True
    while changed and tries < budget:
        changed = False
        cands = []
        if best["dmin"] < best["dmax"]:
            step = len(_disp_range(best["dmin"], best["dmax"], best["subpix"]))
            for lo, hi in ((best["dmin"] + 1, best["dmax"]), (best["dmin"], best["dmax"] - 1)):
                cand = dict(best, dmin=lo, dmax=hi)
                nd = len(_disp_range(lo, hi, best["subpix"]))
                cost = np.asarray(best["cost"])
                cand["cost"] = cost[:, :, step - nd:] if lo > best["dmin"] else cost[:, :, :nd]
                cands.append(cand)
        for name, cname in (("lmsk", "lconv"), ("rmsk", "rconv")):
            if best[name] is not None:
                cands.append(dict(best, **{name: None}))
                msk = np.asarray(best[name])
                valid = _conv(best, cname)[0]
                for r, c in zip(*np.nonzero(msk != valid)):
                    m2 = msk.copy()
                    m2[r, c] = valid
                    cands.append(dict(best, **{name: m2}))
        for cand in cands:
            tries += 1
            if tries > budget:
                break
            if fails(cand):
                best, changed = cand, True
                break
    return best


# --------------------------------------------------------------------------------------------------------------------
# entry points
# --------------------------------------------------------------------------------------------------------------------
def run(tier: str, seed: int) -> dict:
    t_start = time.time()
    rng = np.random.default_rng(seed)
    rec = Recorder()
    for name in ("cross_support", "cbca_step_1", "cbca_step_2", "cbca_step_3", "cbca_step_4"):
        rec.functions.add("pandora.aggregation.cbca." + name)
    rec.functions.add("pandora.aggregation.cbca.CrossBasedCostAggregation.cost_volume_aggregation")
    rec.functions.add("pandora.aggregation.cbca.CrossBasedCostAggregation.computes_cross_supports")

    quick = tier != "thorough"
    n_kernel = 150 if quick else 3000
    passes = 2 if quick else 30
    deadline = t_start + (70.0 if quick else 1000.0)  # wall budget, counted from the start (numba compilation included)

    # ---- kernels alone : cross_support exhaustively on the smallest images, then random inputs for the five kernels
    for img, dist, tau in cross_support_small_scope():
        key, sample, fails = cross_support_case(img, dist, tau)
        rec.case(key=key, nontrivial=True, sample=None)
        for clause, wclass, msg, wit in fails:
            rec.violation(clause=clause, witness_class=wclass, message=msg, witness=wit)
    n_exhaustive = rec.evaluations
    for kind in ("cross_support", "step1", "step2", "step3", "step4"):
        for i in range(n_kernel):
            key, sample, fails = kernel_case(kind, rng)
            rec.case(key=key, nontrivial=True, sample=sample if (i == 0 and kind in ("cross_support", "step4")) else None)
            for clause, wclass, msg, wit in fails:
                rec.violation(clause=clause, witness_class=wclass, message=msg, witness=wit)
    n_kernel_eval = rec.evaluations

    # ---- full aggregation, smallest images first
    configs = list(itertools.product((0, 1), (1, 2, 4), (1, 2, 3, 5), (5.0, 30.0)))
    shapes_of = {(o, s): _shapes(o, s) for o in (0, 1) for s in (1, 2, 4)}
    n_rounds = max(len(v) for v in shapes_of.values())
    sizes_seen, partial_cases = set(), 0
    n_sub4 = n_negfrac = n_discr = 0  # subpix-4 volumes / with a plane d < 0, frac(d) in {1/4, 3/4} / that tell the shifts apart
    found = set()
    sampled = sampled4 = 0
    # mask conventions: drawn from a generator of their own, so that the images, masked pixels and costs of the cases are
    # those of the single-convention enumeration; about half of the cases that carry a mask are written with two
    # different conventions
    rng_conv = np.random.default_rng([int(seed), 11])
    n_conv = {1: 0, 2: 0, 4: 0}      # volumes whose datasets declare different conventions, by subpix
    n_conv_r = {1: 0, 2: 0, 4: 0}    # ... that are non-trivial and carry a right mask
    n_conv_rm = {1: 0, 2: 0, 4: 0}   # ... with at least one masked right pixel
    work = [(ps, rnd, cfg) for ps in range(passes) for rnd in range(n_rounds) for cfg in configs]
    for ps, rnd, (offset, subpix, distance, intensity) in work:
        if time.time() > deadline:
            break
        if subpix == 4 and not quick and ps % 2 == 1:
            continue  # thorough: the (4 times more expensive) quarter-pixel volumes take part in every other pass
        shapes = shapes_of[(offset, subpix)]
        if rnd >= len(shapes):
            continue
        n0, n1 = shapes[rnd]
        if subpix == 4:
            # quarter-pixel planes: mostly directed cases (vertical edges in the right image, negative first disparity),
            # disparity range at most 2 (thorough: sometimes 4) wide = at most 9 (17) planes
            wide = (not quick) and rng.random() < 0.3
            case = make_case(rng, n0, n1, offset, subpix, distance, intensity, directed=bool(rng.random() < 0.65),
                             maxwidth=4 if wide else 2)
        else:
            case = make_case(rng, n0, n1, offset, subpix, distance, intensity)
        u_conv = rng_conv.random()
        i_l, i_r = [int(v) for v in rng_conv.choice(len(CONVENTIONS), size=2, replace=False)]
        differ = (case["lmsk"] is not None or case["rmsk"] is not None) and u_conv < 0.5
        if differ:
            case["lmsk"], case["rmsk"] = encode_mask(case["lmsk"], CONVENTIONS[i_l]), encode_mask(case["rmsk"], CONVENTIONS[i_r])
            case["lconv"], case["rconv"] = CONVENTIONS[i_l][:2], CONVENTIONS[i_r][:2]
        # (subpix 4: 3 (quick) / 5 (thorough) of the up to 9 / 17 planes are also aggregated alone: wall budget)
        fails, info = check_case(case, planes_alone=True, alone_max=None if subpix != 4 else (3 if quick else 5))
        if subpix == 4:
            n_sub4 += 1
            n_negfrac += info.get("negfrac", 0) > 0
            n_discr += bool(info.get("discr"))
        if differ:
            n_conv[subpix] += 1
            if info["nontrivial"] and case["rmsk"] is not None:
                n_conv_r[subpix] += 1
                n_conv_rm[subpix] += bool((np.asarray(case["rmsk"]) != case["rconv"][0]).any())
        sample = None
        if subpix == 4 and info.get("discr") and sampled4 < 1:
            sample = {"kind": "agg", "shape": [n0, n1], "offset": offset, "subpix": subpix, "distance": distance,
                      "intensity": intensity, "disp": [case["dmin"], case["dmax"]],
                      "planes": [float(d) for d in _disp_range(case["dmin"], case["dmax"], subpix)],
                      "right": case["right"], "rmsk": case["rmsk"],
                      "valid_pixels_no_data_mask": [list(_conv(case, "lconv")), list(_conv(case, "rconv"))],
                      "negative_quarter_planes": info["negfrac"], "largest_region": info["maxsize"]}
            sampled4 += 1
        elif info["nontrivial"] and sampled < 2 and rnd in (0, 3, 8):  # (5 samples kept: 2 kernels, 2 + 1 volumes)
            sample = {"kind": "agg", "shape": [n0, n1], "offset": offset, "subpix": subpix, "distance": distance,
                      "intensity": intensity, "disp": [case["dmin"], case["dmax"]],
                      "masks": [case["lmsk"] is not None, case["rmsk"] is not None],
                      "valid_pixels_no_data_mask": [list(_conv(case, "lconv")), list(_conv(case, "rconv"))],
                      "largest_region": info["maxsize"]}
            sampled += 1
        rec.case(key=_case_key(case), nontrivial=info["nontrivial"], sample=sample)
        sizes_seen.add(info["maxsize"])
        partial_cases += bool(info.get("partial"))
        for clause, wclass, msg in fails:
            if (clause, wclass) in found:
                continue
            found.add((clause, wclass))
            small = _shrink(case, clause, wclass) if clause != "C11.agg.crash" else case
            res, _ = check_case(small)
            msg2 = next((f[2] for f in res if f[0] == clause and f[1] == wclass), msg)
            rec.violation(clause=clause, witness_class=wclass, message=msg2,
                          witness=dict(_witness(small), clause=clause, witness_class=wclass))
    n_agg = rec.evaluations - n_kernel_eval
    _conv_text = ", ".join("subpix %d: %d volumes, %d non-trivial with a right mask (%d with a masked right pixel)"
                           % (sp, n_conv[sp], n_conv_r[sp], n_conv_rm[sp]) for sp in (1, 2, 4))
    bound = ("full cbca: image pairs from 2x2 up to 5x7 over {0,10,50} (iid / blocky / constant; right = translated left, copy "
             "or independent), masks none/all-valid/one/sparse/dense over {valid,nodata,invalid} on each side, integer costs "
             "0..20 with NaN holes (p in {0,.1,.3}), disparity ranges within [-2,2], subpix {1,2,4}, offset_row_col {0,1}, "
             "cbca_distance {1,2,3,5}, cbca_intensity {5.,30.}; %d sampled volumes (seed %d, tier %s), every plane also "
             "aggregated alone%s; kernel cross_support alone on all %d (image over {0,5,10,40,masked} of shape 1x1..1x4, 2x1..4x1, "
             "2x2; distance; intensity) and kernels cross_support/cbca_step_1..4 alone on %d random integer inputs up to 5x7 "
             "(arbitrary arm tables bounded by the left image). subpix 4 (planes ..,-1.25,-1,-0.75,-0.5,-0.25,0,0.25,..): "
             "65%% of the volumes are directed (right image with vertical intensity edges over {0,10,50} + 8%% deviating "
             "pixels, masks none/all-valid/one/sparse, first disparity in {-2,-1}, last <= 1), range at most 2 wide"
             "%s: %d subpix-4 volumes, %d with a plane d < 0 whose fraction d - floor(d) is 1/4 or 3/4, %d of them able to "
             "tell the pairing with the frac(d)-shifted right image from the pairing with the (1 - frac(d))-shifted one "
             "(the expected value of a checked cell differs). Mask conventions: (valid_pixels, no_data_mask) of each dataset "
             "in {(0,1),(255,0),(1,0),(2,1),(7,3)} (other pixels: 2,1,2,0,5), each mask read with the attributes of its own "
             "dataset; half of the volumes that carry a mask (generator of its own, default_rng([seed, 11])) declare two "
             "different conventions: %s; the others 0/1 on both sides"
             % (n_agg, seed, tier, " (subpix 4: %d evenly spaced planes)" % (3 if quick else 5), n_exhaustive,
                n_kernel_eval - n_exhaustive, "" if quick else " (4 wide for 30%)", n_sub4, n_negfrac, n_discr, _conv_text))
    rule = ("cases drawn with numpy default_rng(seed), %d passes over the shapes (subpix 4: every other pass in the thorough tier), smallest first, one volume for each "
            "of the 48 (offset, subpix, distance, intensity) configurations and each shape, stopped early only if the wall "
            "budget is exhausted; a case is distinct by the "
            "bytes of all its inputs; an aggregation case is non-trivial when at least one checked output (non-NaN input cost, "
            "right correspondent exists) has a support region of more than one pixel (region sizes seen: %d..%d; %d cases have "
            "a checked region that is neither a single pixel nor the full (2*distance-1)^2 square); kernel cases always count. "
            "Oracle image = real 3x3 median filter of the masked image (sub-pixel plane d: column c + floor(d) of the right image "
            "shifted by d - floor(d); real shift_right_img checked against (1-f)*I[j] + f*I[j+1], atol 1e-3) cropped "
            "to the computed area; value clause only where column c+d exists in the right support; quotient compared with "
            "rtol 1e-5, everything else exactly; failing witnesses are greedily reduced (planes, masks) before being recorded; "
            "a failure of a pair with two mask conventions that the same pair written with one convention does not show "
            "is recorded under <class>-mask-conventions-differ."
            % (passes, min(sizes_seen) if sizes_seen else 0, max(sizes_seen) if sizes_seen else 0, partial_cases))
    res = rec.result(bound=bound, rule=rule)
    res["seconds_run"] = round(time.time() - t_start, 1)
    return res


def replay(witness: dict) -> bool:
    kind = witness.get("kind", "agg")
    if kind == "agg":
        case = {k: witness[k] for k in ("left", "right", "lmsk", "rmsk", "cost", "dmin", "dmax", "subpix", "offset",
                                        "distance", "intensity")}
        for name in ("left", "right", "cost"):
            case[name] = np.array(case[name], dtype=np.float32)
        for name in ("lmsk", "rmsk"):
            case[name] = None if case[name] is None else np.array(case[name], dtype=np.int16)
        for name in ("lconv", "rconv"):  # (valid_pixels, no_data_mask) of each dataset; older witnesses: 0 / 1 on both sides
            if witness.get(name) is not None:
                case[name] = (int(witness[name][0]), int(witness[name][1]))
        fails, _ = check_case(case)
        if "clause" in witness:
            return any(f[0] == witness["clause"] and f[1] == witness.get("witness_class", f[1]) for f in fails)
        return bool(fails)
    return _replay_kernel(witness)


def _replay_kernel(witness):
    from pandora.aggregation import cbca

    kind = witness["kind"]
    if kind == "cross_support":
        img = np.array(witness["img"], dtype=np.float32)
        got = cbca.cross_support(img, np.int16(witness["distance"]), np.float32(witness["intensity"]))
        return not same(np.asarray(got, dtype=np.int64), naive_arms(img, int(witness["distance"]), float(witness["intensity"])))
    plane = np.array(witness["plane"], dtype=np.float32)
    nn = np.where(np.isnan(plane), 0.0, plane).astype(np.float64)
    n0, n1 = plane.shape
    if kind == "step1":
        exp = np.zeros((n0, n1 + 1))
        exp[:, :n1] = np.cumsum(nn, axis=1)
        got = cbca.cbca_step_1(plane)
        return got.shape != exp.shape or not same(got.astype(np.float64), exp)
    if kind == "step3":
        exp = np.zeros((n0 + 1, n1))
        exp[:n0, :] = np.cumsum(nn, axis=0)
        got = cbca.cbca_step_3(np.ascontiguousarray(plane))
        return got.shape != exp.shape or not same(got.astype(np.float64), exp)
    cl = np.array(witness["cross_left"], dtype=np.int16)
    cr = np.array(witness["cross_right"], dtype=np.int16)
    cols = np.array(witness["cols"], dtype=np.int64)
    cols_r = np.array(witness["cols_right"], dtype=np.int64)
    e2, s2 = np.zeros((n0, n1)), np.zeros((n0, n1))
    for r in range(n0):
        for c, c_r in zip(cols, cols_r):
            lft, rgt = min(cl[r, c, 0], cr[r, c_r, 0]), min(cl[r, c, 1], cr[r, c_r, 1])
            e2[r, c] = sum(nn[r, c - lft:c + rgt + 1])
            s2[r, c] = lft + rgt
    if kind == "step2":
        step1 = np.zeros((n0, n1 + 1), dtype=np.float32)
        step1[:, :n1] = np.cumsum(nn, axis=1)
        g2, gs2 = cbca.cbca_step_2(step1, cl, cr, cols, cols_r)
        return not (same(g2.astype(np.float64), e2) and same(gs2.astype(np.float64), s2))
    e4, s4 = np.zeros((n0, n1)), np.zeros((n0, n1))
    for r in range(n0):
        for c, c_r in zip(cols, cols_r):
            top, bot = min(cl[r, c, 2], cr[r, c_r, 2]), min(cl[r, c, 3], cr[r, c_r, 3])
            e4[r, c] = sum(e2[r - top:r + bot + 1, c])
            s4[r, c] = sum(s2[r - top:r + bot + 1, c] + 1) - 1
    step3 = np.zeros((n0 + 1, n1), dtype=np.float32)
    step3[:n0, :] = np.cumsum(e2, axis=0)
    g4, gs4 = cbca.cbca_step_4(step3, s2.astype(np.float32), cl, cr, cols, cols_r)
    return not (same(g4.astype(np.float64), e4) and same(gs4.astype(np.float64), s4))
