"""Bounded stand-in for C12 -- confidence bands follow their definitions, bracket the winner, only add bands.

Real code executed (never re-implemented): pandora.run, PandoraMachine.cost_volume_confidence_run / disparity_run,
the four cost_volume_confidence classes (confidence_prediction -> allocate_confidence_map and the numba kernels),
WinnerTakesAll.to_disp, pandora.interval_tools.interval_regularization.

Oracle (written from the property statement and docs/source/userguide/step_by_step/cost_volume_confidence.rst and
output.rst only):

  names      a step 'cost_volume_confidence[.sfx]' appends, after the existing bands, exactly its own band(s)
             confidence_from_{ambiguity | risk_max,risk_min | intensity_std | interval_bounds_inf,interval_bounds_sup}[.sfx]
             (clause C12.name: after every step the indicator coordinate is the list of the documented names in step order,
             whole -- not cut --, none missing, none twice; checked on the products step after step, never assumed)
  total      the real code raises nothing on a well-formed case (clause C12.total, witness class = exception type + the
             real entry point that raised); an exception of the oracle / harness itself is never caught
  frame      existing bands, cost volume, later disparity map and validity mask are bit-identical with / without a step
  ambiguity  1 - sum_{eta = k*eta_step < eta_max} Card{d : |cv(d) - best| / (max(cv) - min(cv)) <= eta}      (naive loops)
             normalised variant: finite values in [0,1] and order-reversing w.r.t. the raw count (nothing more is stated)
  risk       risk_max = mean_eta(spread), risk_min = mean_eta(1 + spread - count), spread = max d - min d over the same sets
  intervals  D = {d : 1 - |cv(d) - best| / (max(cv)-min(cv)) >= threshold}; [min D, max D], an end that is a best cost is
             moved one sample outwards (clipped); inf <= WTA <= sup; regularisation with quantile 1 only widens
  std        population standard deviation of the window_size x window_size left window (where the window fits)

`best` is the minimum cost for a min-type measure and the maximum for a max-type measure (the statement says "the
pixel's best" and quantifies over min and max measures).

Where statement and user guide are silent or disagree with each other the oracle accepts every reading and only counts
which one the code takes (result key `observations`):
  * a disparity whose cost is NaN: either ignored or counted as "within eta" (in count and spread alike);
  * a cost whose normalised distance to the best is within 1e-6 of eta (statement: "within eta", rst: "<"): either in or out;
  * the same for a possibility within 1e-6 of a threshold that float32 cannot represent exactly.
"""
import copy
import itertools
import math
import warnings
from fractions import Fraction

import numpy as np

from bounded.common import Recorder, same, jsonable

TOL = 1e-6  # tie window for eta / threshold comparisons
VTOL = 1e-5  # tolerance on risk means and on std_intensity
VALUES = (float("nan"), 0.0, 1.0, 2.0, 4.0)
FINITE = (0.0, 1.0, 2.0, 4.0)
ETA_CFGS = [(0.2, 0.1), (0.2, 0.3), (0.7, 0.3), (0.7, 0.1), (0.2, 0.01), (0.7, 0.01)]
THRESHOLDS = [0.9, 0.7, 0.5, 1.0, 0.0]

OWN_BANDS = {
    "ambiguity": ["ambiguity"],
    "risk": ["risk_max", "risk_min"],
    "std_intensity": ["intensity_std"],
    "interval_bounds": ["interval_bounds_inf", "interval_bounds_sup"],
}


# --------------------------------------------------------------------------------------------------------------
# naive oracle
# --------------------------------------------------------------------------------------------------------------
def expected_names(key, cfg):
    parts = key.split(".", 1)
    sfx = "." + parts[1] if len(parts) == 2 else ""
    return ["confidence_from_" + b + sfx for b in OWN_BANDS[cfg["confidence_method"]]]


def eta_grid(eta_max, eta_step):
    """eta = 0, step, 2 step, ... strictly below eta_max (exact decimal arithmetic)"""
    emax, step = Fraction(str(eta_max)), Fraction(str(eta_step))
    etas, k = [], 0
    while k * step < emax:
        etas.append(float(k * step))
        k += 1
    return etas


def best_cost(curve, type_measure):
    fin = [c for c in curve if not math.isnan(c)]
    return min(fin) if type_measure == "min" else max(fin)


def within_sets(curve, gmin, gmax, type_measure, etas):
    """per eta: (disparity indices surely within eta of the best, indices within TOL of the boundary)"""
    best = best_cost(curve, type_measure)
    out = []
    for eta in etas:
        sure, tie = [], []
        for d, c in enumerate(curve):
            if math.isnan(c):
                continue
            dist = abs(c - best) / (gmax - gmin)
            if c == best or dist <= eta - TOL:
                sure.append(d)
            elif dist <= eta + TOL:
                tie.append(d)
        out.append((sure, tie))
    return out


_MEMO = {}


def amb_risk_variants(curve, gmin, gmax, type_measure, eta_cfg):
    """{(nan_counted, ties_in): (count summed over eta, mean spread, mean(1 + spread - count))}"""
    key = (tuple(None if math.isnan(c) else c for c in curve), gmin, gmax, type_measure, eta_cfg)
    if key in _MEMO:
        return _MEMO[key]
    etas = eta_grid(*eta_cfg)
    nan_idx = [d for d, c in enumerate(curve) if math.isnan(c)]
    sets = within_sets(curve, gmin, gmax, type_measure, etas)
    res = {}
    for nan_counted in (False, True):
        for ties_in in (True, False):
            total, spreads, rmins = 0, [], []
            for sure, tie in sets:
                inside = list(sure) + (list(tie) if ties_in else []) + (nan_idx if nan_counted else [])
                count = len(inside)
                spread = max(inside) - min(inside)
                total += count
                spreads.append(spread)
                rmins.append(1 + spread - count)
            res[(nan_counted, ties_in)] = (total, sum(spreads) / len(spreads), sum(rmins) / len(rmins))
    if len(_MEMO) < 400000:
        _MEMO[key] = res
    return res


def interval_variants(curve, gmin, gmax, type_measure, thr):
    """{(ties_in, widened): (index of inf, index of sup)}"""
    best = best_cost(curve, type_measure)
    exact_thr = float(np.float32(thr)) == float(thr)
    res = {}
    for ties_in in (True, False):
        possible = []
        for d, c in enumerate(curve):
            if math.isnan(c):
                continue
            poss = 1.0 - abs(c - best) / (gmax - gmin)
            if c == best or poss >= thr + TOL or (exact_thr and poss >= thr):
                possible.append(d)
            elif poss >= thr - TOL and not exact_thr and ties_in:
                possible.append(d)
        lo, hi = min(possible), max(possible)
        res[(ties_in, False)] = (lo, hi)
        if curve[lo] == best:
            lo = max(0, lo - 1)
        if curve[hi] == best:
            hi = min(len(curve) - 1, hi + 1)
        res[(ties_in, True)] = (lo, hi)
    return res


def window_std(img, r, c, w):
    h = w // 2
    vals = [float(img[i, j]) for i in range(r - h, r + h + 1) for j in range(c - h, c + h + 1)]
    mean = sum(vals) / len(vals)
    return math.sqrt(sum((v - mean) ** 2 for v in vals) / len(vals))


def close(a, b, tol=VTOL):
    return abs(float(a) - float(b)) <= tol * (1.0 + abs(float(b)))


def n_distinct_finite(curve):
    return len({c for c in curve if not math.isnan(c)})


# --------------------------------------------------------------------------------------------------------------
# real code runners
# --------------------------------------------------------------------------------------------------------------
class RealFailure(Exception):
    """an exception raised by the code under test on a well-formed case (never by the oracle or the harness)"""

    def __init__(self, where, exc, step=None):
        super().__init__("%s raised %s: %s" % (where, type(exc).__name__, str(exc)[:300]))
        self.where, self.exc_type, self.step = where, type(exc).__name__, step
        self.partial = None  # products obtained before the exception, when the caller can use them

    @property
    def wclass(self):
        return "%s-in-%s" % (self.exc_type, self.where)


def real(where, step, fn, *args, **kwargs):
    """call into /repo; only what is raised inside this call is attributed to the code under test"""
    try:
        return fn(*args, **kwargs)
    except (Exception, SystemExit) as exc:  # pandora refuses configurations with sys.exit
        raise RealFailure(where, exc, step) from exc


def _quiet():
    warnings.simplefilter("ignore")
    np.seterr(all="ignore")


def _set_threads():
    import numba

    # harness-side knob only: on a shared 16-core box every tiny prange launch costs 25..250 ms with 16 threads (14 ms with 4
    # under load) against ~20 us with 2; two threads keep the kernels parallel (prange still splits its rows).
    numba.set_num_threads(min(2, numba.config.NUMBA_NUM_THREADS))


def make_cv(vol, type_measure, dmin):
    import xarray as xr

    n_row, n_col, n_disp = vol.shape
    cv = xr.Dataset(
        {
            "cost_volume": (["row", "col", "disp"], np.array(vol, dtype=np.float32)),
            "validity_mask": (["row", "col"], np.zeros((n_row, n_col), dtype=np.uint16)),
        },
        coords={"row": np.arange(n_row), "col": np.arange(n_col), "disp": np.arange(dmin, dmin + n_disp)},
    )
    cv.attrs = {
        "type_measure": type_measure,
        "window_size": 1,
        "subpixel": 1,
        "offset_row_col": 0,
        "band_correl": None,
        "measure": "sad" if type_measure == "min" else "zncc",
        "cmax": 4,
    }
    return cv


def band_array(dataset, shape2):
    """(names, (row, col, n) array) of the confidence bands of a dataset; no band at all is a legal product to report on"""
    if dataset is None or "confidence_measure" not in getattr(dataset, "data_vars", {}):
        return [], np.zeros(tuple(shape2) + (0,), dtype=np.float32)
    return [str(n) for n in dataset.coords["indicator"].data], np.array(dataset["confidence_measure"].data, copy=True)


def run_synthetic(vol, type_measure, dmin, steps, disparity=True, snaps=None):
    """the state machine's own step functions on a hand-made cost volume; returns per-step snapshots and the datasets.
    An exception of the real code is re-raised as RealFailure; the snapshots of the steps completed before it are in the
    caller's `snaps` list."""
    import xarray as xr
    from pandora.state_machine import PandoraMachine

    machine = real("PandoraMachine", None, PandoraMachine)
    machine.left_cv = make_cv(vol, type_measure, dmin)
    machine.left_disparity = xr.Dataset()
    machine.right_disp_map = "none"
    machine.left_img = None
    machine.right_img = None
    snaps = [] if snaps is None else snaps
    shape2 = tuple(np.shape(vol)[:2])
    for key, cfg in steps:
        real(
            "cost_volume_confidence_run-" + str(cfg.get("confidence_method")),
            key,
            machine.cost_volume_confidence_run,
            {"pipeline": {key: copy.deepcopy(cfg)}},
            key,
        )
        cv = machine.left_cv
        names, bands = band_array(cv, shape2)
        disp_names, disp_bands = band_array(machine.left_disparity, shape2)
        snaps.append(
            {
                "names": names,
                "bands": bands,
                "cost_volume": np.array(cv["cost_volume"].data, copy=True),
                "disp_names": disp_names,
                "disp_bands": disp_bands,
            }
        )
    disp = None
    if disparity:
        real("disparity_run", None, machine.disparity_run, {"pipeline": {"disparity": {"disparity_method": "wta"}}}, "disparity")
        disp = machine.left_disparity
    return snaps, machine.left_cv, disp


def make_img(data, mask, disp):
    import xarray as xr
    from rasterio import Affine
    from pandora.img_tools import add_disparity

    data = np.asarray(data, dtype=np.float32)
    img = xr.Dataset(
        {"im": (["row", "col"], data), "msk": (["row", "col"], np.asarray(mask, dtype=np.int16))},
        coords={"row": np.arange(data.shape[0]), "col": np.arange(data.shape[1])},
    )
    img.attrs = {
        "no_data_img": 0,
        "valid_pixels": 0,
        "no_data_mask": 1,
        "crs": None,
        "transform": Affine(1.0, 0.0, 0.0, 0.0, 1.0, 0.0),
    }
    img.pipe(add_disparity, disparity=[int(disp[0]), int(disp[1])], window=None)
    return img


def run_pipeline(spec, steps):
    """pandora.run on the images of `spec` with the given ordered confidence steps"""
    import pandora
    from pandora import check_configuration
    from pandora.state_machine import PandoraMachine

    disp = [int(spec["disp"][0]), int(spec["disp"][1])]
    left = make_img(spec["left"], spec["lmask"], disp)
    right = make_img(spec["right"], spec["rmask"], disp)
    pipe = {"matching_cost": copy.deepcopy(spec["matching_cost"])}
    for key, cfg in steps:
        pipe[key] = copy.deepcopy(cfg)
    pipe["disparity"] = {"disparity_method": "wta"}
    for key, cfg in spec.get("post", []):
        pipe[key] = copy.deepcopy(cfg)
    user_cfg = {"input": {"left": {"disp": disp}}, "pipeline": pipe}
    machine = real("PandoraMachine", None, PandoraMachine)
    cfg = real("update_conf", None, check_configuration.update_conf, check_configuration.default_short_configuration, user_cfg)
    left_out, right_out = real("pandora.run", None, pandora.run, machine, left, right, cfg)
    return left_out, right_out, machine


def band_dict(dataset):
    if dataset is None or "confidence_measure" not in getattr(dataset, "data_vars", {}):
        return [], {}
    names = [str(n) for n in dataset.coords["indicator"].data]
    data = np.asarray(dataset["confidence_measure"].data)
    return names, {n: data[:, :, i] for i, n in enumerate(names)}


# --------------------------------------------------------------------------------------------------------------
# checks shared by the synthetic and the pipeline cases
# --------------------------------------------------------------------------------------------------------------
class Ctx:
    def __init__(self, rec, obs, witness):
        self.rec, self.obs, self.witness = rec, obs, witness
        self.found = []
        self.step = None  # key of the step whose band is being checked

    def bad(self, clause, wclass, message, extra=None):
        wit = dict(self.witness)
        wit.update({"clause": clause, "witness_class": wclass})
        extra = dict(extra or {})
        if self.step is not None:
            extra["step"] = self.step
        wit.update(extra)
        self.found.append((clause, wclass, extra))
        self.rec.violation(clause=clause, witness_class=wclass, message=message, witness=wit)

    def note(self, what):
        self.obs[what] = self.obs.get(what, 0) + 1

    def failed(self, failure):
        """the real code raised on a well-formed case"""
        self.step = None
        self.bad("C12.total", failure.wclass, str(failure), {"step": failure.step} if failure.step else None)

    def pick(self, dataset, wanted, what):
        """the bands `wanted` of a product of the real code, or None (reported under the naming clause) when they are not
        there under their documented names, or when a name occurs twice"""
        names, bands = band_dict(dataset)
        wclass = name_fault([], names, wanted, exact=False)
        if wclass:
            self.bad("C12.name", wclass, "%s: bands %s, expected to hold %s" % (what, names, wanted))
            return None
        return [bands[n] for n in wanted]


def name_fault(prev_names, names, own, exact=True):
    """None when `names` is `prev_names` followed by the step's own documented names (either order within the step: the
    statement does not order the two bands of one step), else the witness class.  exact=False: only that the own names are
    there, once each, and that no name occurs twice."""
    if len(set(names)) != len(names):
        return "duplicate-band-name"
    if exact and (names[: len(prev_names)] != prev_names or sorted(names[len(prev_names) :]) != sorted(own)):
        return "unexpected-band-names"
    if any(n not in names for n in own):
        return "unexpected-band-names"
    return None


def tested_pixels(vol):
    for r in range(vol.shape[0]):
        for c in range(vol.shape[1]):
            curve = [float(x) for x in vol[r, c, :]]
            if n_distinct_finite(curve) >= 2:
                yield r, c, curve


def check_ambiguity_raw(ctx, vol, gmin, gmax, tm, cfg, band, count_case=None):
    eta_cfg = (cfg["eta_max"], cfg["eta_step"])
    for r, c, curve in tested_pixels(vol):
        if count_case:
            count_case(("amb", tuple(curve), gmin, gmax, tm, eta_cfg), curve)
        var = amb_risk_variants(curve, gmin, gmax, tm, eta_cfg)
        real = float(band[r, c])
        hits = [k for k, v in var.items() if real == float(np.float32(1.0) - np.float32(v[0]))]
        if hits:
            _note_policy(ctx, "ambiguity (%s-type)" % tm, curve, var, hits, lambda v: v[0])
            continue
        wclass = "value-mismatch"
        if tm == "max":
            alt = amb_risk_variants(curve, gmin, gmax, "min", eta_cfg)
            if any(real == float(np.float32(1.0) - np.float32(v[0])) for v in alt.values()):
                wclass = "max-type-measure-best-taken-as-min"
        ctx.bad(
            "C12.amb.def",
            wclass,
            "pixel (%d,%d) costs %s (volume min %s max %s, %s-type): band %r, 1 - count expected one of %s"
            % (r, c, curve, gmin, gmax, tm, real, sorted({1 - v[0] for v in var.values()})),
            {"pixel": [r, c]},
        )


def _note_policy(ctx, what, curve, var, hits, proj):
    """which reading of the silent points the code takes (only when the readings differ for this pixel)"""
    vals = {k: proj(v) for k, v in var.items()}
    if any(math.isnan(c) for c in curve):
        counted = {k for k in vals if k[0]}
        if {vals[k] for k in counted} != {vals[k] for k in vals if not k[0]}:
            if all(k[0] for k in hits):
                ctx.note(what + ": NaN-cost disparities counted as within eta")
            elif not any(k[0] for k in hits):
                ctx.note(what + ": NaN-cost disparities ignored")
    if {vals[k] for k in vals if k[1]} != {vals[k] for k in vals if not k[1]}:
        if all(k[1] for k in hits):
            ctx.note(what + ": cost exactly eta away from the best counted (<=)")
        elif not any(k[1] for k in hits):
            ctx.note(what + ": cost exactly eta away from the best not counted (<)")


def check_ambiguity_normalised(ctx, band, raw_band):
    """finite values in [0,1]; one minus a normalisation of the count => order of the raw confidence is preserved"""
    fin = np.isfinite(band)
    if np.any(band[fin] < 0.0) or np.any(band[fin] > 1.0):
        ctx.bad("C12.amb.range", "normalised-outside-0-1", "normalised ambiguity band has finite values outside [0,1]: %s" % band.tolist())
    flat_n, flat_u = band.ravel(), raw_band.ravel()
    if not fin.all():
        ctx.note("ambiguity: normalised band has NaN (constant raw map -> 0/0), not checked")
        return
    order = np.argsort(flat_u, kind="stable")
    su, sn = flat_u[order], flat_n[order]
    for i in range(len(su) - 1):
        if (su[i] == su[i + 1] and sn[i] != sn[i + 1]) or (su[i] < su[i + 1] and sn[i] > sn[i + 1]):
            ctx.bad(
                "C12.amb.normalised_monotone",
                "order-not-preserved",
                "raw confidences %r <= %r but normalised %r , %r" % (float(su[i]), float(su[i + 1]), float(sn[i]), float(sn[i + 1])),
            )
            return


def check_risk(ctx, vol, gmin, gmax, tm, cfg, band_max, band_min, count_case=None):
    eta_cfg = (cfg["eta_max"], cfg["eta_step"])
    for r, c, curve in tested_pixels(vol):
        if count_case:
            count_case(("risk", tuple(curve), gmin, gmax, tm, eta_cfg), curve)
        rmax, rmin = float(band_max[r, c]), float(band_min[r, c])
        if not (math.isfinite(rmax) and math.isfinite(rmin) and -TOL <= rmin <= rmax + TOL):
            ctx.bad(
                "C12.risk.order",
                "not-0<=min<=max",
                "pixel (%d,%d) costs %s: risk_min %r risk_max %r" % (r, c, curve, rmin, rmax),
                {"pixel": [r, c]},
            )
        var = amb_risk_variants(curve, gmin, gmax, tm, eta_cfg)
        hits = [k for k, v in var.items() if close(rmax, v[1]) and close(rmin, v[2])]
        if hits:
            _note_policy(ctx, "risk (%s-type)" % tm, curve, var, hits, lambda v: (round(v[1], 9), round(v[2], 9)))
            continue
        wclass = "value-mismatch"
        if tm == "max":
            alt = amb_risk_variants(curve, gmin, gmax, "min", eta_cfg)
            if any(close(rmax, v[1]) and close(rmin, v[2]) for v in alt.values()):
                wclass = "max-type-measure-best-taken-as-min"
        ctx.bad(
            "C12.risk.def",
            wclass,
            "pixel (%d,%d) costs %s (volume min %s max %s, %s-type): (risk_max, risk_min) = (%r, %r), expected one of %s"
            % (r, c, curve, gmin, gmax, tm, rmax, rmin, sorted({(round(v[1], 6), round(v[2], 6)) for v in var.values()})),
            {"pixel": [r, c]},
        )


def check_bracket(ctx, vol, inf, sup, wta, valid, label):
    for r in range(vol.shape[0]):
        for c in range(vol.shape[1]):
            if not valid[r, c] or np.all(np.isnan(vol[r, c, :])):
                continue
            lo, hi, win = float(inf[r, c]), float(sup[r, c]), float(wta[r, c])
            if not lo <= win <= hi:  # also catches NaN bounds on a valid pixel
                wclass = "nan-bound-on-valid-pixel" if (math.isnan(lo) or math.isnan(hi)) else "winner-outside"
                ctx.bad(
                    "C12.ib.bracket",
                    wclass + label,
                    "pixel (%d,%d) costs %s: inf %r, WTA %r, sup %r" % (r, c, vol[r, c, :].tolist(), lo, win, hi),
                    {"pixel": [r, c]},
                )


def check_interval_def(ctx, vol, disps, gmin, gmax, tm, cfg, inf, sup, count_case=None):
    thr = cfg["possibility_threshold"]
    for r, c, curve in tested_pixels(vol):
        if count_case:
            count_case(("ib", tuple(curve), gmin, gmax, tm, thr), curve)
        var = interval_variants(curve, gmin, gmax, tm, thr)
        real = (float(inf[r, c]), float(sup[r, c]))
        want = {k: (float(disps[v[0]]), float(disps[v[1]])) for k, v in var.items()}
        if any(real == want[k] for k in want if k[1]):
            continue
        wclass = "bounds-mismatch"
        if any(real == want[k] for k in want if not k[1]):
            wclass = "not-widened-around-best"
        elif tm == "max":
            alt = interval_variants(curve, gmin, gmax, "min", thr)
            if any(real == (float(disps[v[0]]), float(disps[v[1]])) for v in alt.values()):
                wclass = "max-type-measure-best-taken-as-min"
        ctx.bad(
            "C12.ib.def",
            wclass,
            "pixel (%d,%d) costs %s disparities %s (volume min %s max %s, %s-type, threshold %s): [inf, sup] = %s, expected %s"
            % (r, c, curve, [float(d) for d in disps], gmin, gmax, tm, thr, list(real), sorted({want[k] for k in want if k[1]})),
            {"pixel": [r, c]},
        )


def check_widen(ctx, inf_reg, sup_reg, inf_raw, sup_raw, label=""):
    for r in range(inf_raw.shape[0]):
        for c in range(inf_raw.shape[1]):
            lo0, hi0, lo1, hi1 = float(inf_raw[r, c]), float(sup_raw[r, c]), float(inf_reg[r, c]), float(sup_reg[r, c])
            if (not math.isnan(lo0) and not lo1 <= lo0) or (not math.isnan(hi0) and not hi1 >= hi0):
                ctx.bad(
                    "C12.reg.widen",
                    "regularised-interval-narrower" + label,
                    "pixel (%d,%d): unregularised [%r, %r] -> regularised (quantile 1) [%r, %r]" % (r, c, lo0, hi0, lo1, hi1),
                    {"pixel": [r, c]},
                )
                return


def check_step_bands(ctx, vol, disps, tm, key, cfg, bands, count_case=None):
    """definition clauses of the band(s) of one step; `bands` maps band name -> 2-D array"""
    gmin, gmax = float(np.nanmin(vol)), float(np.nanmax(vol))
    names = expected_names(key, cfg)
    if any(n not in bands for n in names):
        return  # reported by the naming clause
    method = cfg["confidence_method"]
    if method == "ambiguity" and not cfg.get("normalization", True):
        check_ambiguity_raw(ctx, vol, gmin, gmax, tm, cfg, bands[names[0]], count_case)
    elif method == "risk":
        check_risk(ctx, vol, gmin, gmax, tm, cfg, bands[names[0]], bands[names[1]], count_case)
    elif method == "interval_bounds" and not cfg.get("regularization", False):
        check_interval_def(ctx, vol, disps, gmin, gmax, tm, cfg, bands[names[0]], bands[names[1]], count_case)


# --------------------------------------------------------------------------------------------------------------
# case kind 1: hand-made cost volumes through the state machine's step functions
# --------------------------------------------------------------------------------------------------------------
def amb_dependency(steps, idx):
    """index of the ambiguity step a regularised interval step reads, or None"""
    cfg = steps[idx][1]
    if cfg["confidence_method"] != "interval_bounds" or not cfg.get("regularization", False):
        return None
    ind = cfg.get("ambiguity_indicator", "")
    want = "confidence_from_ambiguity" + ("." + ind if ind else "")
    for j in range(idx):
        if steps[j][1]["confidence_method"] == "ambiguity" and expected_names(*steps[j])[0] == want:
            return j
    return None


def check_synthetic(rec, obs, vol, tm, dmin, steps, alone=True, count_case=None, shrink=False):
    """returns the list of (clause, witness_class, extra) found"""
    vol = np.array(vol, dtype=np.float32)
    wit = {"kind": "synthetic", "cost_volume": vol, "type_measure": tm, "disp_min": dmin, "steps": [[k, c] for k, c in steps]}
    real_ctx = Ctx(rec, obs, wit)
    ctx = Ctx(Recorder(max_violations=1000), obs, wit) if shrink else real_ctx
    try:
        _check_synthetic(ctx, vol, tm, dmin, steps, alone, count_case)
    except RealFailure as failure:  # only what the code under test raised; an oracle error propagates
        ctx.failed(failure)
    ctx.step = None
    if shrink:
        _forward_shrunk(real_ctx, ctx, obs, vol, tm, dmin, steps)
        return real_ctx.found
    return ctx.found


def _check_synthetic(ctx, vol, tm, dmin, steps, alone, count_case):
    disps = np.arange(dmin, dmin + vol.shape[2])

    base_snaps, base_cv, base_disp = run_synthetic(vol, tm, dmin, [])
    snaps, failure = [], None
    try:
        _, cv, disp = run_synthetic(vol, tm, dmin, steps, snaps=snaps)
    except RealFailure as exc:
        failure = exc  # the steps completed before it are still checked (a wrong name is often what makes a later step raise)

    # names and frame, step after step
    prev_names, prev_bands = [], np.zeros(vol.shape[:2] + (0,), dtype=np.float32)
    for (key, cfg), snap in zip(steps, snaps):
        own = expected_names(key, cfg)
        names = snap["names"]
        wclass = name_fault(prev_names, names, own)
        if wclass:
            ctx.bad("C12.name", wclass, "after step %r: bands %s, expected %s + %s" % (key, names, prev_names, own))
        if snap["bands"].shape[2] < len(prev_names) or not same(snap["bands"][:, :, : len(prev_names)], prev_bands):
            ctx.bad("C12.frame.bands", "existing-band-changed", "step %r changed an existing band" % key)
        if not same(snap["cost_volume"], vol):
            ctx.bad("C12.frame.cost_volume", "cost-volume-changed", "step %r changed the cost volume" % key)
        if snap["disp_names"] != names or not same(snap["disp_bands"], snap["bands"]):
            ctx.bad("C12.frame.disp_bands", "disparity-dataset-bands-differ", "after step %r the disparity dataset's bands differ from the cost volume's" % key)
        prev_names, prev_bands = names, snap["bands"]
    if failure is not None:
        raise failure

    # later disparity map / validity mask / bands carried to the disparity dataset
    if not same(disp["disparity_map"].data, base_disp["disparity_map"].data):
        ctx.bad("C12.frame.disparity", "disparity-map-changed", "WTA disparity differs with / without the confidence steps")
    if not same(disp["validity_mask"].data, base_disp["validity_mask"].data):
        ctx.bad("C12.frame.validity", "validity-mask-changed", "validity mask differs with / without the confidence steps")
    if not same(cv["cost_volume"].data, base_cv["cost_volume"].data):
        ctx.bad("C12.frame.cost_volume", "cost-volume-changed-after-disparity", "cost volume differs with / without the confidence steps")
    if steps:
        dnames, dbands = band_array(disp, vol.shape[:2])
        if dnames != prev_names or not same(dbands, prev_bands):
            ctx.bad("C12.frame.disp_bands", "bands-lost-at-disparity", "disparity dataset bands %s vs cost volume bands %s" % (dnames, prev_names))

    names, bands = band_dict(cv)
    if len(set(names)) == len(names):
        wta = np.asarray(disp["disparity_map"].data)
        valid = np.ones(vol.shape[:2], dtype=bool)
        for idx, (key, cfg) in enumerate(steps):
            own = expected_names(key, cfg)
            if any(n not in bands for n in own):
                continue  # reported by the naming clause above
            ctx.step = key
            check_step_bands(ctx, vol, disps, tm, key, cfg, bands, count_case)
            method = cfg["confidence_method"]
            dep = amb_dependency(steps, idx)
            solo_steps = ([steps[dep]] if dep is not None else []) + [(key, cfg)]
            if alone and len(steps) > len(solo_steps):
                # "exactly as they would be without" the other steps: same band from the step on its own
                _, solo_cv, _ = run_synthetic(vol, tm, dmin, solo_steps, disparity=False)
                solo = ctx.pick(solo_cv, own, "steps %s on their own" % [k for k, _ in solo_steps])
                for n, band in zip(own, solo or []):
                    if not same(band, bands[n]):
                        ctx.bad("C12.frame.bands", "band-depends-on-other-steps", "band %s differs when the other steps are removed" % n)
            if method == "ambiguity" and cfg.get("normalization", True):
                raw_cfg = dict(cfg, normalization=False)
                _, raw_cv, _ = run_synthetic(vol, tm, dmin, [(key, raw_cfg)], disparity=False)
                raw = ctx.pick(raw_cv, own, "step %r alone, not normalised" % key)
                if raw:
                    check_ambiguity_normalised(ctx, bands[own[0]], raw[0])
            if method == "interval_bounds":
                reg = cfg.get("regularization", False)
                if not reg or cfg.get("quantile_regularization", 1.0) == 1.0:
                    check_bracket(ctx, vol, bands[own[0]], bands[own[1]], wta, valid, "-regularised" if reg else "")
                if reg and cfg.get("quantile_regularization", 1.0) == 1.0:
                    raw_cfg = dict(cfg, regularization=False)
                    _, raw_cv, _ = run_synthetic(vol, tm, dmin, [(key, raw_cfg)], disparity=False)
                    raw = ctx.pick(raw_cv, own, "step %r alone, not regularised" % key)
                    if raw:
                        check_widen(ctx, bands[own[0]], bands[own[1]], raw[0], raw[1])


def _forward_shrunk(real_ctx, tmp_ctx, obs, vol, tm, dmin, steps):
    """a violation found on a large curve-collection volume is re-established on a 2x2xD volume when possible"""
    gmin, gmax = float(np.nanmin(vol)), float(np.nanmax(vol))
    n_disp = vol.shape[2]
    pad = [gmin if d % 2 == 0 else gmax for d in range(n_disp)]
    done = set()
    for v in tmp_ctx.rec.violations:
        ident = (v["clause"], v["witness_class"])
        if ident in done or any(w["clause"] == ident[0] and w["witness_class"] == ident[1] for w in real_ctx.rec.violations):
            continue
        done.add(ident)
        pix = v["witness"].get("pixel")
        if isinstance(pix, list) and len(pix) == 2:
            small = np.array([[vol[pix[0], pix[1], :], pad], [pad, pad]], dtype=np.float32)
            idx = [i for i, (k, _) in enumerate(steps) if k == v["witness"].get("step")]
            sub_steps = steps
            if idx:
                dep = amb_dependency(steps, idx[0])
                sub_steps = ([steps[dep]] if dep is not None else []) + [steps[idx[0]]]
            sub = check_synthetic(real_ctx.rec, obs, small, tm, dmin, sub_steps, alone=False)
            if any((c, w) == ident for c, w, _ in sub):
                real_ctx.found.append((ident[0], ident[1], {}))
                continue
        real_ctx.bad(v["clause"], v["witness_class"], v["message"], {"pixel": pix} if pix else None)


# --------------------------------------------------------------------------------------------------------------
# case kind 2: pandora.run with / without each step
# --------------------------------------------------------------------------------------------------------------
def pipeline_names_ok(ctx, steps, names, what):
    """the bands of a pandora.run product are, in pipeline order, the documented names of its steps (each step's own bands in
    either order), none twice; bands of the validation step (confidence_from_left_right...) are not this property's"""
    extra = [n for n in names if not n.startswith("confidence_from_left_right")]
    want, ok_names = [], True
    for key, cfg in steps:
        own = expected_names(key, cfg)
        got = extra[len(want) : len(want) + len(own)]
        if sorted(got) != sorted(own):
            ok_names = False
        want += own
    ok_names = ok_names and len(extra) == len(want)
    dotted = any(k.count(".") > 1 for k, _ in steps)
    if not ok_names:
        ctx.bad(
            "C12.name",
            ("multi-dot-step-key-suffix-dropped" if dotted else "unexpected-band-names"),
            "%s steps %s produced bands %s, expected %s" % (what, [k for k, _ in steps], extra, want),
        )
    if len(set(names)) != len(names):
        if not dotted:
            ctx.bad("C12.name", "duplicate-band-name", "%s steps %s: bands %s" % (what, [k for k, _ in steps], names))
        return False
    return ok_names


def check_pipeline(rec, obs, spec, steps, memo=None):
    """memo (optional, one per spec): products of pandora.run already obtained for this very spec and step list -- the many
    orderings of a small pool share their with/without runs; the products are only read.  replay() never uses it."""
    wit = dict(spec)
    wit.update({"kind": "pipeline", "steps": [[k, c] for k, c in steps]})
    ctx = Ctx(rec, obs, wit)
    try:
        _check_pipeline(ctx, spec, steps, memo)
    except RealFailure as failure:  # only what the code under test raised; an oracle error propagates
        ctx.failed(failure)
    ctx.step = None
    return ctx.found


def _check_pipeline(ctx, spec, steps, memo=None):
    import pandora.constants as cst

    def run_once(spec_, steps_):
        if memo is None:
            return run_pipeline(spec_, steps_)
        ident = repr(steps_)
        if ident not in memo:
            memo[ident] = run_pipeline(spec_, steps_)  # a RealFailure is not kept
        return memo[ident]

    left, right, machine = run_once(spec, steps)
    names, bands = band_dict(left)
    cv_names, cv_bands = band_dict(machine.left_cv)
    vol = np.array(machine.left_cv["cost_volume"].data, dtype=np.float32)
    disps = np.asarray(machine.left_cv.coords["disp"].data)
    tm = machine.left_cv.attrs["type_measure"]

    # names: every step appended its own bands, in pipeline order
    if not pipeline_names_ok(ctx, steps, names, "pipeline"):
        return  # the remaining clauses look the bands up by their documented names

    # frame: remove each step in turn (and the steps that read its band)
    variants = [[]] if steps else []
    for i in range(len(steps)):
        dependants = [j for j in range(len(steps)) if amb_dependency(steps, j) == i]
        variants.append([s for j, s in enumerate(steps) if j != i and j not in dependants])
    seen = set()
    for sub in variants:
        ident = repr(sub)
        if ident in seen or len(sub) == len(steps):
            continue
        seen.add(ident)
        left2, right2, machine2 = run_once(spec, sub)
        names2, bands2 = band_dict(left2)
        label = "without " + ",".join(k for k, _ in steps if (k, _) not in sub) if sub else "without any confidence step"
        if not pipeline_names_ok(ctx, sub, names2, "pipeline " + label):
            continue  # the shorter pipeline is a case of its own
        for n, b in bands2.items():
            if n not in bands or not same(bands[n], b):
                ctx.bad("C12.frame.bands", "existing-band-changed", "band %s differs %s" % (n, label))
        kept = [n for n in names if n in bands2]
        if kept != [n for n in band_dict(left2)[0]]:
            ctx.bad("C12.frame.bands", "band-order-changed", "bands %s vs %s %s" % (names, band_dict(left2)[0], label))
        if not same(machine.left_cv["cost_volume"].data, machine2.left_cv["cost_volume"].data):
            ctx.bad("C12.frame.cost_volume", "cost-volume-changed", "cost volume differs %s" % label)
        if not same(left["disparity_map"].data, left2["disparity_map"].data):
            ctx.bad("C12.frame.disparity", "disparity-map-changed", "left disparity map differs %s" % label)
        if not same(left["validity_mask"].data, left2["validity_mask"].data):
            ctx.bad("C12.frame.validity", "validity-mask-changed", "left validity mask differs %s" % label)
        if "disparity_map" in right.data_vars and "disparity_map" in right2.data_vars:
            if not same(right["disparity_map"].data, right2["disparity_map"].data) or not same(right["validity_mask"].data, right2["validity_mask"].data):
                ctx.bad("C12.frame.disparity", "right-disparity-or-mask-changed", "right disparity map / mask differs %s" % label)

    for n in cv_names:
        if n in bands and not same(cv_bands[n], bands[n]):
            ctx.bad("C12.frame.disp_bands", "disparity-dataset-bands-differ", "band %s of the disparity dataset differs from the cost volume's" % n)

    # definitions on the real cost volume
    if np.isfinite(vol).any() and float(np.nanmax(vol)) > float(np.nanmin(vol)):
        wta = np.asarray(left["disparity_map"].data)
        valid = (np.asarray(left["validity_mask"].data).astype(np.int64) & int(cst.PANDORA_MSK_PIXEL_INVALID)) == 0
        for idx, (key, cfg) in enumerate(steps):
            own = expected_names(key, cfg)
            if any(n not in bands for n in own):
                continue
            ctx.step = key
            check_step_bands(ctx, vol, disps, tm, key, cfg, bands)
            method = cfg["confidence_method"]
            if method == "ambiguity" and cfg.get("normalization", True):
                _, _, machine3 = run_once(spec, [(key, dict(cfg, normalization=False))])
                raw = ctx.pick(machine3.left_cv, own, "step %r alone, not normalised" % key)
                if raw:
                    check_ambiguity_normalised(ctx, bands[own[0]], raw[0])
            if method == "std_intensity":
                img, w = np.asarray(spec["left"], dtype=np.float64), spec["matching_cost"]["window_size"]
                h = w // 2
                for r in range(h, img.shape[0] - h):
                    for c in range(h, img.shape[1] - h):
                        if not close(bands[own[0]][r, c], window_std(img, r, c, w)):
                            ctx.bad(
                                "C12.std.def",
                                "value-mismatch",
                                "pixel (%d,%d): band %r, std of the %dx%d left window %r" % (r, c, float(bands[own[0]][r, c]), w, w, window_std(img, r, c, w)),
                                {"pixel": [r, c]},
                            )
            if method == "interval_bounds" and not spec.get("post"):
                reg = cfg.get("regularization", False)
                if not reg or cfg.get("quantile_regularization", 1.0) == 1.0:
                    check_bracket(ctx, vol, bands[own[0]], bands[own[1]], wta, valid, "-regularised" if reg else "")
                if reg and cfg.get("quantile_regularization", 1.0) == 1.0:
                    raw = [(k, dict(c, regularization=False)) if k == key else (k, c) for k, c in steps]
                    left4, _, _ = run_once(spec, raw)
                    raw4 = ctx.pick(left4, own, "step %r not regularised" % key)
                    if raw4:
                        check_widen(ctx, bands[own[0]], bands[own[1]], raw4[0], raw4[1])


# --------------------------------------------------------------------------------------------------------------
# case kind 3: interval_regularization on hand-made bounds / ambiguity maps
# --------------------------------------------------------------------------------------------------------------
def check_regularization(rec, obs, inf, sup, amb, thr, kernel, depth):
    from pandora.interval_tools import interval_regularization

    inf, sup, amb = np.array(inf, dtype=np.float32), np.array(sup, dtype=np.float32), np.array(amb, dtype=np.float32)
    wit = {"kind": "regularization", "inf": inf, "sup": sup, "ambiguity": amb, "ambiguity_threshold": thr, "ambiguity_kernel_size": kernel, "vertical_depth": depth}
    ctx = Ctx(rec, obs, wit)
    try:
        inf_reg, sup_reg, mask = real("interval_regularization", None, interval_regularization, inf.copy(), sup.copy(), amb.copy(), thr, kernel, depth, 1.0)
    except RealFailure as failure:
        ctx.failed(failure)
        return ctx.found, False
    check_widen(ctx, inf_reg, sup_reg, inf, sup, "-direct")
    changed = not (same(inf_reg, inf) and same(sup_reg, sup))
    return ctx.found, bool(mask.any()) and changed


# --------------------------------------------------------------------------------------------------------------
# enumeration
# --------------------------------------------------------------------------------------------------------------
def amb_cfg(eta_cfg, normalization):
    return {"confidence_method": "ambiguity", "eta_max": eta_cfg[0], "eta_step": eta_cfg[1], "normalization": normalization}


def risk_cfg(eta_cfg):
    return {"confidence_method": "risk", "eta_max": eta_cfg[0], "eta_step": eta_cfg[1]}


def ib_cfg(thr, reg=None):
    cfg = {"confidence_method": "interval_bounds", "possibility_threshold": thr}
    if reg:
        cfg.update({"regularization": True, "quantile_regularization": 1.0})
        cfg.update(reg)
    return cfg


def collection_volume(n_disp, lo, hi, rng=None, fraction=1.0):
    """every cost curve of length n_disp over {NaN} + {v in VALUES: lo <= v <= hi}, as one (R, C, n_disp) volume whose
    global extrema are lo and hi"""
    vals = [v for v in FINITE if lo <= v <= hi] + [float("nan")]  # NaN last: NaN-free witnesses come first
    curves = [list(c) for c in itertools.product(vals, repeat=n_disp)]
    if fraction < 1.0:
        keep = rng.random(len(curves)) < fraction
        curves = [c for c, k in zip(curves, keep) if k]
    curves.append([lo if d % 2 == 0 else hi for d in range(n_disp)])
    n_col = 5
    while len(curves) % n_col:
        curves.append([lo if d % 2 == 0 else hi for d in range(n_disp)])
    return np.array(curves, dtype=np.float32).reshape((-1, n_col, n_disp))


def random_volume(rng, shape, p_nan):
    while True:
        probs = [p_nan] + [(1 - p_nan) / 4] * 4
        vol = rng.choice(np.array(VALUES, dtype=np.float32), size=shape, p=probs)
        if np.isfinite(vol).any() and np.nanmax(vol) > np.nanmin(vol) and any(True for _ in tested_pixels(vol)):
            return vol


def random_stack(rng):
    """several confidence steps in a random order, with distinct step keys"""
    eta_a, eta_r = ETA_CFGS[rng.integers(len(ETA_CFGS))], ETA_CFGS[rng.integers(len(ETA_CFGS))]
    thr = THRESHOLDS[rng.integers(len(THRESHOLDS))]
    pool = [
        ("cost_volume_confidence.a", amb_cfg(eta_a, False)),
        ("cost_volume_confidence.n", amb_cfg(ETA_CFGS[rng.integers(len(ETA_CFGS))], True)),
        ("cost_volume_confidence", risk_cfg(eta_r)),
        ("cost_volume_confidence.i", ib_cfg(thr)),
        ("cost_volume_confidence.i2", ib_cfg(THRESHOLDS[rng.integers(len(THRESHOLDS))])),
    ]
    reg = {
        "ambiguity_indicator": "n",
        "ambiguity_threshold": [0.3, 0.6, 0.9][rng.integers(3)],
        "ambiguity_kernel_size": [1, 3, 5][rng.integers(3)],
        "vertical_depth": int(rng.integers(0, 3)),
    }
    order = list(rng.permutation(len(pool)))
    n_keep = int(rng.integers(2, len(pool) + 1))
    steps = [pool[i] for i in order[:n_keep]]
    if rng.random() < 0.6:
        if not any(k == "cost_volume_confidence.n" for k, _ in steps):
            steps.insert(int(rng.integers(0, len(steps) + 1)), pool[1])
        pos_n = [k for k, _ in steps].index("cost_volume_confidence.n")
        steps.insert(int(rng.integers(pos_n + 1, len(steps) + 1)), ("cost_volume_confidence.r", ib_cfg(thr, reg)))
    # a step key without suffix must be unique
    return steps


def pipeline_specs(tier, seed):
    rng = np.random.default_rng(seed + 1012)
    n = 10 if tier == "quick" else 70
    specs = []
    for i in range(n):
        kind = i % 5
        if kind in (0, 1):
            mc = {"matching_cost_method": "sad", "window_size": 1, "subpix": 1}
            shape = [(3, 4), (4, 5)][int(rng.integers(2))]
        elif kind == 2:
            mc = {"matching_cost_method": "ssd", "window_size": 1, "subpix": 1}
            shape = (3, 4)
        elif kind == 3:
            mc = {"matching_cost_method": "zncc", "window_size": 3, "subpix": 1}
            shape = (5, 6)
        else:
            mc = {"matching_cost_method": "sad", "window_size": 3, "subpix": 1}
            shape = (5, 6)
        disp = [[-1, 0], [-1, 1], [-2, 1], [-2, 2]][int(rng.integers(4))]
        left = rng.choice(np.array([1, 2, 3, 5]), size=shape)
        right = rng.choice(np.array([1, 2, 3, 5]), size=shape)
        lmask, rmask = np.zeros(shape, dtype=int), np.zeros(shape, dtype=int)
        if rng.random() < 0.5:
            lmask[int(rng.integers(shape[0])), int(rng.integers(shape[1]))] = 1
        if rng.random() < 0.5:
            rmask[int(rng.integers(shape[0])), int(rng.integers(shape[1]))] = [1, 2][int(rng.integers(2))]
        steps = random_stack(rng)
        if rng.random() < 0.7:
            steps.insert(int(rng.integers(0, len(steps) + 1)), ("cost_volume_confidence.s", {"confidence_method": "std_intensity"}))
        post = []
        if tier != "quick" or i % 2:
            choice = rng.random()
            if choice < 0.25:
                post = [("filter", {"filter_method": "median"})]
            elif choice < 0.4:
                post = [("refinement", {"refinement_method": "vfit"})]
            elif choice < 0.55:
                post = [("validation", {"validation_method": "cross_checking_accurate"})]
        specs.append(
            (
                {"left": left, "right": right, "lmask": lmask, "rmask": rmask, "disp": disp, "matching_cost": mc, "post": post},
                steps,
            )
        )
    return specs


MULTI_DOT = (
    {
        "left": np.array([[1, 2, 3, 5], [5, 3, 2, 1]]),
        "right": np.array([[2, 1, 5, 3], [1, 5, 3, 2]]),
        "lmask": np.zeros((2, 4), dtype=int),
        "rmask": np.zeros((2, 4), dtype=int),
        "disp": [-1, 1],
        "matching_cost": {"matching_cost_method": "sad", "window_size": 1, "subpix": 1},
        "post": [],
    },
    [("cost_volume_confidence.a.b", amb_cfg((0.7, 0.1), False)), ("cost_volume_confidence", amb_cfg((0.2, 0.1), False))],
)


# steps whose band names all have different lengths (the indicator coordinate is a fixed-width string array: a name longer
# than every earlier one must come out whole); length of the first own band name in the comment
NAME_POOL_SYNTHETIC = [
    ("cost_volume_confidence", risk_cfg((0.2, 0.1))),  # confidence_from_risk_max 24
    ("cost_volume_confidence.a", amb_cfg((0.2, 0.1), False)),  # confidence_from_ambiguity.a 27
    ("cost_volume_confidence.amb", amb_cfg((0.7, 0.3), False)),  # confidence_from_ambiguity.amb 29
    ("cost_volume_confidence.int", ib_cfg(0.9)),  # confidence_from_interval_bounds_inf.int 39
    ("cost_volume_confidence.a_longer_suffix", risk_cfg((0.7, 0.3))),  # confidence_from_risk_max.a_longer_suffix 40
]
NAME_POOL_PIPELINE = [
    ("cost_volume_confidence", risk_cfg((0.2, 0.1))),  # confidence_from_risk_max 24
    ("cost_volume_confidence.amb", amb_cfg((0.2, 0.1), False)),  # confidence_from_ambiguity.amb 29
    ("cost_volume_confidence.std", {"confidence_method": "std_intensity"}),  # confidence_from_intensity_std.std 33
    ("cost_volume_confidence.int", ib_cfg(0.9)),  # confidence_from_interval_bounds_inf.int 39
]
NAME_VOLUMES = [
    np.array([[[0, 1], [1, 0]], [[2, 0], [0, 4]]], dtype=np.float32),
    np.array([[[0, 1, 2], [1, 0, float("nan")], [4, 4, 0]], [[2, 0, 1], [0, 4, 4], [1, 2, 0]]], dtype=np.float32),
]
NAME_SPEC = {
    "left": np.array([[1, 2, 3, 5], [5, 3, 2, 1]]),
    "right": np.array([[2, 1, 5, 3], [1, 5, 3, 2]]),
    "lmask": np.zeros((2, 4), dtype=int),
    "rmask": np.zeros((2, 4), dtype=int),
    "disp": [-1, 1],
    "matching_cost": {"matching_cost_method": "sad", "window_size": 1, "subpix": 1},
    "post": [],
}
NAME_SPEC_W3 = {
    "left": np.array([[1, 2, 3, 5, 2], [5, 3, 2, 1, 1], [2, 2, 5, 3, 1], [1, 5, 1, 2, 3]]),
    "right": np.array([[2, 1, 5, 3, 3], [1, 5, 3, 2, 2], [3, 2, 2, 5, 1], [5, 1, 1, 3, 2]]),
    "lmask": np.zeros((4, 5), dtype=int),
    "rmask": np.zeros((4, 5), dtype=int),
    "disp": [-1, 1],
    "matching_cost": {"matching_cost_method": "sad", "window_size": 3, "subpix": 1},
    "post": [],
}


def name_stacks(pool, sizes):
    """every ordered selection of `sizes` steps of the pool, shortest stacks first: every band name length order occurs"""
    for size in sizes:
        for stack in itertools.permutations(pool, size):
            yield list(stack)


def regularised_name_stacks():
    """a regularised interval step looks its ambiguity band up BY NAME among bands of shorter / longer names"""
    pool = NAME_POOL_SYNTHETIC
    nrm = ("cost_volume_confidence.nrm", amb_cfg((0.2, 0.1), True))  # confidence_from_ambiguity.nrm 29
    reg = (
        "cost_volume_confidence.reg",
        ib_cfg(0.9, {"ambiguity_indicator": "nrm", "ambiguity_threshold": 0.6, "ambiguity_kernel_size": 1, "vertical_depth": 0}),
    )
    return [[pool[0], nrm, reg], [pool[1], nrm, reg], [nrm, pool[0], reg], [nrm, reg, pool[4]], [pool[3], nrm, reg], [nrm, reg]]


def run(tier, seed):
    _quiet()
    _set_threads()
    rng = np.random.default_rng(seed)
    rec = Recorder()
    obs = {}
    for f in (
        "pandora.run",
        "pandora.state_machine.PandoraMachine.cost_volume_confidence_run",
        "pandora.state_machine.PandoraMachine.disparity_run",
        "pandora.cost_volume_confidence.cost_volume_confidence.AbstractCostVolumeConfidence.allocate_confidence_map",
        "pandora.cost_volume_confidence.ambiguity.Ambiguity.confidence_prediction",
        "pandora.cost_volume_confidence.ambiguity.Ambiguity.compute_ambiguity",
        "pandora.cost_volume_confidence.ambiguity.Ambiguity.normalize_with_percentile",
        "pandora.cost_volume_confidence.ambiguity.Ambiguity.compute_ambiguity_and_sampled_ambiguity",
        "pandora.cost_volume_confidence.risk.Risk.confidence_prediction",
        "pandora.cost_volume_confidence.risk.Risk.compute_risk",
        "pandora.cost_volume_confidence.interval_bounds.IntervalBounds.confidence_prediction",
        "pandora.cost_volume_confidence.interval_bounds.IntervalBounds.compute_interval_bounds",
        "pandora.cost_volume_confidence.std_intensity.StdIntensity.confidence_prediction",
        "pandora.interval_tools.interval_regularization",
        "pandora.interval_tools.create_connected_graph",
        "pandora.interval_tools.graph_regularization",
        "pandora.disparity.disparity.WinnerTakesAll.to_disp",
    ):
        rec.functions.add(f)

    def count_pixel(key, curve):
        rec.case(key=key, nontrivial=True, sample=None)

    import time

    timing, t_last = {}, [time.time()]

    def lap(name):
        timing[name] = round(time.time() - t_last[0], 1)
        t_last[0] = time.time()

    # ---- 0. band bookkeeping: stacks whose band names have every length order (no random choice: `rng` is untouched) --
    sizes = (2, 3) if tier == "quick" else (2, 3, 4, 5)
    stacks = list(name_stacks(NAME_POOL_SYNTHETIC, sizes))
    stacks = stacks[:20] + regularised_name_stacks() + stacks[20:]  # pairs, then regularised triples, then the rest
    for i, steps in enumerate(stacks):
        vol = NAME_VOLUMES[i % len(NAME_VOLUMES)] if i >= 20 else NAME_VOLUMES[0]
        found = check_synthetic(rec, obs, vol, "min", -1, steps, alone=True)
        rec.case(
            key=("names", vol.tobytes(), vol.shape, repr(steps)),
            nontrivial=len(steps) >= 2,
            sample=None if i else {"kind": "synthetic", "cost_volume": vol, "type_measure": "min", "disp_min": -1, "steps": [k + ":" + c["confidence_method"] for k, c in steps], "violations": len(found)},
        )
    n_name_stacks = len(stacks)
    lap("0 band names, synthetic")
    # ---- 1b. every cost curve of length D between every pair of global extrema, all methods stacked --------------
    pairs = [(lo, hi) for lo in FINITE for hi in FINITE if lo < hi]

    def packed(depths):
        for n_disp in depths:
            fraction = 0.15 if (n_disp == 5 and tier == "quick") else 1.0
            for lo, hi in pairs:
                vol = collection_volume(n_disp, lo, hi, rng, fraction)
                _MEMO.clear()
                stack = []
                for i, eta_cfg in enumerate(ETA_CFGS):
                    stack.append(("cost_volume_confidence.a%d" % i, amb_cfg(eta_cfg, False)))
                    stack.append(("cost_volume_confidence.r%d" % i, risk_cfg(eta_cfg)))
                for i, thr in enumerate(THRESHOLDS):
                    stack.append(("cost_volume_confidence.i%d" % i, ib_cfg(thr)))
                stack.append(("cost_volume_confidence.n", amb_cfg(ETA_CFGS[(n_disp + int(lo)) % len(ETA_CFGS)], True)))
                stack.append(("cost_volume_confidence", risk_cfg(ETA_CFGS[(n_disp + int(hi)) % len(ETA_CFGS)])))
                for tm in ("min", "max"):
                    order = [stack[i] for i in rng.permutation(len(stack))]
                    check_synthetic(rec, obs, vol, tm, -1, order, alone=False, count_case=count_pixel, shrink=True)
                    rec.case(key=("packed", n_disp, lo, hi, tm), nontrivial=True)

    packed([2, 3])  # smallest single-step witnesses first
    lap("1b packed curves D<=3")
    # ---- 1a. literal small volumes, stacked steps in random orders (smallest first) -------------------------------
    n_small = {"quick": 25, "thorough": 400}[tier]
    shapes = [(2, 2, 2), (2, 2, 3), (2, 2, 4), (3, 4, 5)]
    for shape in shapes:
        for i in range(n_small):
            vol = random_volume(rng, shape, [0.0, 0.15, 0.35][i % 3])
            tm = ["min", "max"][int(rng.integers(2))]
            dmin = int(rng.integers(-2, 1))
            steps = random_stack(rng)
            found = check_synthetic(rec, obs, vol, tm, dmin, steps, alone=True)
            rec.case(
                key=("vol", vol.tobytes(), shape, tm, dmin, repr(steps)),
                nontrivial=True,
                sample={"kind": "synthetic", "cost_volume": vol, "type_measure": tm, "disp_min": dmin, "steps": [k + ":" + c["confidence_method"] for k, c in steps], "violations": len(found)},
            )

    lap("1a small volumes")
    packed([4, 5])
    lap("1b packed curves D>=4")
    # ---- 2. pandora.run with / without each step -----------------------------------------------------------------
    name_specs = [(NAME_SPEC, st) for st in name_stacks(NAME_POOL_PIPELINE, (2, 3) if tier == "quick" else (2, 3, 4))]
    if tier != "quick":
        name_specs += [(NAME_SPEC_W3, st) for st in name_stacks(NAME_POOL_PIPELINE, (2, 3, 4))]
    else:
        name_specs += [(NAME_SPEC_W3, st) for st in name_stacks(NAME_POOL_PIPELINE[1:], (2, 3))]
    specs = [MULTI_DOT] + name_specs + pipeline_specs(tier, seed)
    memos = {id(NAME_SPEC): {}, id(NAME_SPEC_W3): {}}
    for spec, steps in specs:
        found = check_pipeline(rec, obs, spec, steps, memos.get(id(spec)))
        rec.case(
            key=("pipe", repr(jsonable(spec)), repr(steps)),
            nontrivial=True,
            sample={"kind": "pipeline", "left": spec["left"], "right": spec["right"], "disp": spec["disp"], "matching_cost": spec["matching_cost"], "steps": [k + ":" + c["confidence_method"] for k, c in steps], "post": [k for k, _ in spec["post"]], "violations": len(found)},
        )

    lap("2 pipelines")
    # ---- 3. interval_regularization, quantile 1 ------------------------------------------------------------------
    def reg_cases():
        for bits in itertools.product([0.2, 1.0], repeat=6):  # all 2x3 maps
            yield (2, 3), np.array(bits).reshape((2, 3))
        n_rand = 300 if tier == "quick" else 6000
        for i in range(n_rand):
            shape = [(3, 4), (4, 6), (3, 7)][i % 3]
            yield shape, rng.choice(np.array([0.2, 0.2, 0.7, 1.0, float("nan")]), size=shape, p=[0.3, 0.2, 0.15, 0.3, 0.05])

    for shape, amb in reg_cases():
        inf = rng.integers(-3, 2, size=shape).astype(np.float32)
        sup = inf + rng.integers(0, 4, size=shape).astype(np.float32)
        holes = rng.random(shape) < 0.1
        inf[holes], sup[holes] = np.nan, np.nan
        for kernel in (1, 3, 5):
            for depth in (0, 1, 2, 3):
                found, active = check_regularization(rec, obs, inf, sup, amb, 0.6, kernel, depth)
                rec.case(key=("reg", inf.tobytes(), sup.tobytes(), amb.tobytes(), shape, kernel, depth), nontrivial=active)

    lap("3 regularization")
    res = rec.result(
        bound=(
            "(0) band bookkeeping: every ordered selection of %s steps out of 5 whose band names have 5 different lengths (risk without "
            "suffix 24 characters, ambiguity '.a' 27, ambiguity '.amb' 29, interval_bounds '.int' 39, risk '.a_longer_suffix' 40) plus 6 "
            "stacks where a regularised interval_bounds step reads a normalised ambiguity band by name among shorter / longer names "
            "(%d stacks), on a literal 2x2x2 and a 2x3x3 (one NaN) min-type volume, every step also run on its own; "
            "(1a) %d seeded-random cost volumes of each shape 2x2x2, 2x2x3, 2x2x4, 3x4x5 over {NaN,0,1,2,4} (NaN rate 0/.15/.35), min- and "
            "max-type, first disparity in {-2,-1,0}, 2..7 stacked confidence steps in random order (ambiguity raw / normalised, risk, "
            "interval_bounds x2, regularised interval_bounds with ambiguity_threshold {.3,.6,.9}, kernel {1,3,5}, depth {0,1,2}); "
            "(1b) EVERY cost curve of length D in {2,3,4,5}%s over {NaN} + the values of {0,1,2,4} between every pair of global extrema "
            "(6 pairs), min- and max-type, ambiguity and risk for eta_max in {0.2,0.7} x eta_step in {0.01,0.1,0.3}, interval_bounds for "
            "possibility_threshold in {0,.5,.7,.9,1}, normalised ambiguity once per volume -- the 19 steps stacked in a seeded-random order; "
            "(2) %d pandora.run pipelines: the two-dot step key case, %d ordered selections of %s steps out of {risk (no suffix), ambiguity "
            "'.amb', std_intensity '.std', interval_bounds '.int'} (band name lengths 24 < 29 < 33 < 39, every length order) on a 2x4 sad "
            "window-1 and a 4x5 sad window-3 pair, and seeded-random ones (3x4, 4x5 sad/ssd window 1, 5x6 sad/zncc window 3, images over {1,2,3,5}, optional masked pixel "
            "left / right, disparity ranges [-1,0],[-1,1],[-2,1],[-2,2], optional median filter / vfit refinement / cross-checking after "
            "WTA), each run with all steps, without each step, and without any; "
            "(3) interval_regularization (quantile 1) on all 2x3 ambiguity maps over {0.2,1} and %d random 3x4/4x6/3x7 maps over "
            "{0.2,0.7,1,NaN}, kernel {1,3,5} x depth {0,1,2,3}, integer bounds with NaN holes"
            % (
                "2..3" if tier == "quick" else "2..5",
                n_name_stacks,
                n_small,
                " (D=5: seeded 15% sample)" if tier == "quick" else "",
                len(specs),
                len(name_specs),
                "2..3" if tier == "quick" else "2..4",
                300 if tier == "quick" else 6000,
            )
        ),
        rule=(
            "An evaluation is: (0) and (1a) one volume x type x step stack; (1b) one (cost curve, volume min, volume max, measure type, method "
            "configuration) pixel comparison -- curves are packed, all at once, in a (N/5)x5xD volume whose extrema are pinned, run through "
            "the state machine's own cost_volume_confidence_run; only pixels with >= 2 distinct finite costs are compared and counted; "
            "(2) one pipeline specification (with its with/without runs; the orderings of the band-name pool share the products of "
            "identical pandora.run calls); (3) one interval_regularization call, non-trivial iff some "
            "pixel was regularised and some bound moved.  Distinct = distinct key (sha1 of the inputs).  Integer costs => ambiguity "
            "counts and interval bounds are compared exactly; risk means and std_intensity with |a-b| <= 1e-5 (1+|b|); frame clauses "
            "(bands, cost volume, disparity map, validity mask) bit for bit (nan-aware).  A cost whose normalised distance to the best is "
            "within 1e-6 of an eta sample, or a NaN cost, may be counted or not (both readings accepted, see observations).  "
            "C12.name is evaluated on the indicator coordinate the real code produced after EVERY step (documented names in step order, "
            "whole, none missing, none twice) and on every product used by another clause; an exception raised inside a call into /repo "
            "(and only there) is the violation C12.total with witness class <exception type>-in-<entry point>, the steps completed "
            "before it are still checked.  "
            "A violation found on a packed volume is re-run on the 2x2xD volume [[curve, pad],[pad, pad]] (pad = min,max,min,...) and "
            "reported with that witness.  numba threads limited to 2 by the harness (launch overhead on a shared box), kernels still run parallel."
        ),
    )
    res["observations"] = obs
    res["timing_s"] = timing
    return res


def replay(witness):
    _quiet()
    _set_threads()
    rec, obs = Recorder(max_violations=1000), {}
    kind = witness["kind"]
    steps = [(k, c) for k, c in witness.get("steps", [])]
    if kind == "synthetic":
        found = check_synthetic(rec, obs, np.array(witness["cost_volume"], dtype=np.float32), witness["type_measure"], int(witness["disp_min"]), steps, alone=True)
    elif kind == "pipeline":
        spec = {k: witness[k] for k in ("left", "right", "lmask", "rmask", "disp", "matching_cost")}
        spec["post"] = [(k, c) for k, c in witness.get("post", [])]
        found = check_pipeline(rec, obs, spec, steps)
    else:
        found, _ = check_regularization(
            rec, obs, witness["inf"], witness["sup"], witness["ambiguity"], witness["ambiguity_threshold"], int(witness["ambiguity_kernel_size"]), int(witness["vertical_depth"])
        )
    return any(c == witness["clause"] and w == witness["witness_class"] for c, w, _ in found)
