"""Bounded stand-in for C07 - cross-checking flags exactly the left-right inconsistent pixels, nothing else.

Real code executed: pandora.validation.validation.CrossCheckingAccurate.disparity_checking (through
validation.AbstractValidation(**cfg)), pandora.criteria.mask_border and
AbstractCostVolumeConfidence.allocate_confidence_map (both reached from disparity_checking), and
pandora.state_machine.PandoraMachine.validation_run (left vs right, then right vs the checked left).

Oracle (written from the property statement and userguide/step_by_step/validation.rst, pixel by pixel, plain python):

  valid(p)      <=>  mask(p) & 0b01111000011 == 0
  q             =    c + round(dL(r,c))                    (round = half-to-even, python round())
  consistent(p) <=>  0 <= q < ncol  and  |dL(r,c) + dR(r,q)| <= threshold          (NaN never satisfies <=)
  witness(p)    <=>  exists integer d in [imin, imax]: 0 <= c+d < ncol and round(dR(r,c+d)) == -d
  previously invalid            -> mask unchanged
  valid and consistent          -> mask unchanged
  valid, q inside, inconsistent -> mask | 512 if witness else mask | 256      (never both, no other bit)
  valid, q outside / dL NaN     -> flagged with exactly one of 256 / 512 (which one is NOT checked: the statement read
                                   literally asks for the witness search, the code comment says "occlusion")
  disparity maps of both datasets and the right mask are bit-for-bit unchanged
  band 'confidence_from_left_right_consistency'(p) == |dL(p) + dR(q)| for valid p with q inside and dR(q) finite
        (dR(q) NaN: inf or NaN accepted; q outside / invalid p / border: statement and docs silent, not checked)
  offset_row_col > 0 -> border pixels == 1 exactly

Half-integer disparities: the statement rounds dL (q = c + round(dL)); an implementation that rounds c + dL differs on
odd columns.  When the real result disagrees with the oracle but agrees with the oracle evaluated at
q' = round(c + dL), the violation is filed under clause C07.pixel.correspondent_rounding (its own witness class), so
that it neither hides nor is hidden by the other findings.
"""
import math
import multiprocessing as mp
import os
import warnings

import numpy as np

from bounded.common import Recorder, jsonable, same

INVALID = 0b01111000011
OCC = 1 << 8
MIS = 1 << 9
BAND = "confidence_from_left_right_consistency"

NAN = float("nan")
VALS = np.array([-2, -1.5, -1, 0, 0.5, 1, 2, NAN], dtype=np.float32)
MASKS_STACK = np.array([0, 4, 64, 1], dtype=np.uint16)       # 4 = information bit only; 64 and 1 = invalid
MASKS_ALL = np.array([0, 4, 64, 1, 2], dtype=np.uint16)       # 2 (right nodata / range missing) is an invalid bit too
NCOMBO = len(VALS) * len(MASKS_STACK)
THRS = [0, 0.5, 1.0]
ITVS = [(-2, 2), (-1, 1), (0, 2)]

BOUND_TXT = {
    "quick": "per-pixel Latin enumeration on a seeded sample of right rows (width 5: 100/config, width 4: 40/config) "
             "+ 1000 seeded direct small-map calls + 200 validation_run calls",
    "thorough": "per-pixel EXHAUSTIVE on widths 5 and 4: every (column, left value, left mask, whole right row, "
                "threshold, interval) combination + 12000 seeded direct small-map calls + 3000 validation_run calls",
}


# ----------------------------------------------------------------------------------------------------------------------
# real code
# ----------------------------------------------------------------------------------------------------------------------
def _mk(disp, mask, itv, offset, prior_band=False):
    import xarray as xr

    nrow, ncol = disp.shape
    data = {
        "disparity_map": (["row", "col"], np.array(disp, dtype=np.float32, copy=True)),
        "disparity_interval": xr.DataArray([int(itv[0]), int(itv[1])], coords=[("disparity", ["min", "max"])]),
        "validity_mask": (["row", "col"], np.array(mask, dtype=np.uint16, copy=True)),
    }
    coords = {"row": np.arange(nrow), "col": np.arange(ncol)}
    if prior_band:
        data["confidence_measure"] = (["row", "col", "indicator"], np.full((nrow, ncol, 1), 7.0, dtype=np.float32))
        coords["indicator"] = ["confidence_from_ambiguity"]
    ds = xr.Dataset(data, coords=coords)
    ds.attrs["offset_row_col"] = int(offset)
    return ds


def _band(ds):
    if "confidence_measure" not in ds.data_vars:
        return None
    ind = [str(x) for x in ds.coords["indicator"].data.tolist()]
    if BAND not in ind:
        return None
    return np.array(ds["confidence_measure"].data[:, :, ind.index(BAND)])


def _snapshot(ds):
    return {"disp": np.array(ds["disparity_map"].data), "mask": np.array(ds["validity_mask"].data), "conf": _band(ds)}


def execute(case):
    """Runs the real code on a case; returns the observed left / right products (and, for validation_run, the
    products of the right dataset checked against the left one)."""
    from pandora import validation

    itv = case["itv"]
    ritv = (-itv[1], -itv[0])
    left = _mk(case["left_disp"], case["left_mask"], itv, case["offset"], case.get("prior_band", False))
    right = _mk(case["right_disp"], case["right_mask"], ritv, case["offset"], case.get("prior_band", False))
    cfg = {"validation_method": "cross_checking_accurate", "cross_checking_threshold": case["thr"]}
    with warnings.catch_warnings():
        warnings.simplefilter("ignore")
        if case.get("mode", "direct") == "direct":
            out = validation.AbstractValidation(**cfg).disparity_checking(left, right)
            return {"left": _snapshot(out), "right": _snapshot(right), "right_checked": False}
        from pandora.state_machine import PandoraMachine

        pm = PandoraMachine()
        pm.left_disparity = left
        pm.right_disparity = right
        pm.right_disp_map = "cross_checking_accurate"
        pm.validation_run({"pipeline": {"validation": cfg}}, "validation")
        return {"left": _snapshot(pm.left_disparity), "right": _snapshot(pm.right_disparity), "right_checked": True}


# ----------------------------------------------------------------------------------------------------------------------
# oracle
# ----------------------------------------------------------------------------------------------------------------------
def _isnan(x):
    return x != x


def _expect(c, ncol, dl, right_row, thr, imin, imax, q):
    """Expected outcome of a previously valid pixel whose correspondent column is q (None = undefined)."""
    if q is None or q < 0 or q >= ncol:
        return "flag_any", None
    dr = right_row[q]
    dist = None if (_isnan(dr) or _isnan(dl)) else abs(dl + dr)
    if dist is not None and dist <= thr:
        return "keep", dist
    for d in range(imin, imax + 1):
        if 0 <= c + d < ncol:
            v = right_row[c + d]
            if not _isnan(v) and round(v) == -d:
                return "mismatch", dist
    return "occlusion", dist


def _mask_ok(kind, m, o):
    if kind == "keep":
        return o == m
    if kind == "mismatch":
        return o == (m | MIS)
    if kind == "occlusion":
        return o == (m | OCC)
    return o in (m | OCC, m | MIS)


def _conf_ok(dist, q, ncol, right_row, cv):
    """None = nothing to check."""
    if cv is None or q is None or q < 0 or q >= ncol:
        return True
    if dist is None:  # dR(q) NaN (dL finite since q is defined): |dL + NaN|, the code documents inf
        return _isnan(cv) or cv == math.inf
    return cv == dist


def _got(m, o):
    if o == m:
        return "unflagged"
    if o == (m | OCC):
        return "occlusion"
    if o == (m | MIS):
        return "mismatch"
    if o == (m | OCC | MIS):
        return "both"
    return "other(%d)" % o


def check_side(ld, lm, rd, om, conf, thr, itv, offset, found, tag=""):
    """Evaluates the per-pixel clauses for one checked dataset.  ld/lm: input disparity / mask (lists of lists) of the
    dataset that is checked, rd: disparity of the other one, om / conf: observed mask and confidence band.
    found: dict (clause, witness_class) -> (row, col, message); only the first occurrence is kept."""
    nrow = len(ld)
    ncol = len(ld[0])
    imin, imax = int(itv[0]), int(itv[1])
    for r in range(nrow):
        ldr, lmr, rdr, omr = ld[r], lm[r], rd[r], om[r]
        cfr = conf[r] if conf is not None else None
        for c in range(ncol):
            m, o, dl = lmr[c], omr[c], ldr[c]
            border = offset > 0 and (r < offset or r >= nrow - offset or c < offset or c >= ncol - offset)
            if border:
                if o != 1:
                    key = ("C07.border", "border-pixel-not-reset-to-bit0")
                    if key not in found:
                        found[key] = (r, c, "%soffset=%d: border pixel (%d,%d) ends with mask %d, expected 1"
                                      % (tag, offset, r, c, o))
                continue
            if m & INVALID:
                if o != m:
                    key = ("C07.pixel.invalid_untouched", "invalid-pixel-mask-%d-changed" % m)
                    if key not in found:
                        found[key] = (r, c, "%salready invalid pixel (%d,%d) mask %d -> %d" % (tag, r, c, m, o))
                continue
            # previously valid pixel
            q = None if _isnan(dl) else c + round(dl)
            kind, dist = _expect(c, ncol, dl, rdr, thr, imin, imax, q)
            cv = cfr[c] if cfr is not None else None
            ok_m = _mask_ok(kind, m, o)
            ok_c = _conf_ok(dist, q, ncol, rdr, cv)
            if ok_m and ok_c:
                continue
            # alternative reading for half-integer disparities: q' = round(c + dL)
            hp = ""
            if q is not None:
                q2 = round(c + dl)
                if q2 != q:
                    hp = "half-integer-left-disparity:"
                    kind2, dist2 = _expect(c, ncol, dl, rdr, thr, imin, imax, q2)
                    wc = None
                    if _mask_ok(kind2, m, o) and _conf_ok(dist2, q2, ncol, rdr, cv):
                        wc = "half-integer-disparity:code-uses-round(col+d)-statement-says-col+round(d)"
                    elif kind2 == "flag_any" and o == m:
                        # the observed outcome is the one of "correspondent outside" (see C07.pixel.outside_right)
                        # taken at q', whereas q is inside
                        wc = "half-integer-disparity:round(col+d)-outside-right-image-while-col+round(d)-inside:not-flagged"
                    if wc is not None:
                        key = ("C07.pixel.correspondent_rounding", wc)
                        if key not in found:
                            found[key] = (r, c, "%spixel (%d,%d) dL=%s: statement q=c+round(dL)=%d expects %s, observed "
                                                "mask %d->%d conf %s, which is the outcome for q'=round(c+dL)=%d (%s)"
                                          % (tag, r, c, dl, q, kind, m, o, cv, q2,
                                             kind2 if kind2 != "flag_any" else "outside, left unflagged"))
                        continue
            if not ok_m:
                got = _got(m, o)
                if _isnan(dl):
                    clause, wc = "C07.pixel.nan_left", "left-disparity-nan"
                    if got != "unflagged":
                        wc += ":got-" + got
                elif kind == "flag_any":
                    clause, wc = "C07.pixel.outside_right", hp + "correspondent-outside-right-image"
                    if got != "unflagged":
                        wc += ":got-" + got
                elif kind == "keep":
                    clause, wc = "C07.pixel.consistent_unflagged", hp + "consistent-pixel:got-" + got
                elif got == "unflagged":
                    clause = "C07.pixel.inconsistent_flagged"
                    wc = hp + ("right-disparity-nan" if dist is None else "distance-above-threshold") + ":not-flagged"
                else:
                    clause, wc = "C07.pixel.kind", hp + "expected-%s:got-%s" % (kind, got)
                key = (clause, wc)
                if key not in found:
                    found[key] = (r, c, "%svalid pixel (%d,%d) dL=%s q=%s thr=%s interval=[%d,%d]: expected %s, mask "
                                        "%d -> %d (%s)" % (tag, r, c, dl, q, thr, imin, imax, kind, m, o, got))
            if not ok_c:
                key = ("C07.conf.value", hp + ("right-disparity-nan" if dist is None else "distance-band-differs"))
                if key not in found:
                    found[key] = (r, c, "%svalid pixel (%d,%d) dL=%s q=%s dR(q)=%s: band %s = %s, expected %s"
                                  % (tag, r, c, dl, q, rdr[q], BAND, cv, "inf/nan" if dist is None else dist))


def check(case, out):
    """All clauses of C07 on one executed case -> dict (clause, class) -> (row, col, message)."""
    found = {}
    ld, lm = case["left_disp"], case["left_mask"]
    rd, rm = case["right_disp"], case["right_mask"]
    thr, itv, off = case["thr"], case["itv"], case["offset"]
    L, R = out["left"], out["right"]
    if not same(L["disp"], ld):
        found[("C07.frame.left_disparity", "left-disparity-modified")] = (0, 0, "left disparity map modified")
    if not same(R["disp"], rd):
        found[("C07.frame.right_disparity", "right-disparity-modified")] = (0, 0, "right disparity map modified")
    if L["conf"] is None:
        found[("C07.conf.band_missing", "band-missing-left")] = (0, 0, "band %s absent from the left dataset" % BAND)
    check_side(ld.tolist(), lm.tolist(), rd.tolist(), L["mask"].tolist(),
               L["conf"].tolist() if L["conf"] is not None else None, thr, itv, off, found)
    if out["right_checked"]:
        if R["conf"] is None:
            found[("C07.conf.band_missing", "band-missing-right")] = (0, 0, "band %s absent from the right dataset" % BAND)
        check_side(rd.tolist(), rm.tolist(), ld.tolist(), R["mask"].tolist(),
                   R["conf"].tolist() if R["conf"] is not None else None, thr, (-itv[1], -itv[0]), off, found,
                   tag="[right checked against left] ")
    elif not same(R["mask"], rm):
        found[("C07.frame.right_mask", "right-mask-modified")] = (0, 0, "right validity mask modified")
    return found


# ----------------------------------------------------------------------------------------------------------------------
# witnesses
# ----------------------------------------------------------------------------------------------------------------------
def _case(ld, lm, rd, rm, thr, itv, offset=0, mode="direct", prior_band=False):
    return {"left_disp": np.array(ld, dtype=np.float32), "left_mask": np.array(lm, dtype=np.uint16),
            "right_disp": np.array(rd, dtype=np.float32), "right_mask": np.array(rm, dtype=np.uint16),
            "thr": thr, "itv": [int(itv[0]), int(itv[1])], "offset": int(offset), "mode": mode,
            "prior_band": bool(prior_band)}


def _reproduces(case, key):
    try:
        return key in check(case, execute(case))
    except Exception:  # a crash of the real code on a shrunk case is not "the same violation"
        return False


def minimise(case, key):
    """Greedy shrinking of a failing case, keeping the same (clause, witness_class)."""
    arrs = ("left_disp", "left_mask", "right_disp", "right_mask")
    cur = dict(case)
    if cur["mode"] != "direct":
        cand = dict(cur, mode="direct")
        if _reproduces(cand, key):
            cur = cand
    if cur.get("prior_band"):
        cand = dict(cur, prior_band=False)
        if _reproduces(cand, key):
            cur = cand
    changed = True
    while changed:
        changed = False
        nrow, ncol = cur["left_disp"].shape
        cands = []
        if nrow > 1 and cur["offset"] == 0:
            cands += [{k: np.delete(cur[k], i, axis=0) for k in arrs} for i in range(nrow)]
        if ncol > 1 and cur["offset"] == 0:
            cands += [{k: cur[k][:, :-1] for k in arrs}, {k: cur[k][:, 1:] for k in arrs}]
        for upd in cands:
            cand = dict(cur, **upd)
            if _reproduces(cand, key):
                cur, changed = cand, True
                break
    for name, simple in (("right_mask", 0), ("left_mask", 64), ("right_disp", 0.0), ("left_disp", 0.0)):
        nrow, ncol = cur[name].shape
        for r in range(nrow):
            for c in range(ncol):
                if same(cur[name][r, c], simple):
                    continue
                a = cur[name].copy()
                a[r, c] = simple
                cand = dict(cur, **{name: a})
                if _reproduces(cand, key):
                    cur = cand
    return cur


def _witness(case, key, message):
    w = dict(case)
    w["clause"], w["witness_class"], w["message"] = key[0], key[1], message
    return jsonable(w)


def replay(witness):
    case = _case(witness["left_disp"], witness["left_mask"], witness["right_disp"], witness["right_mask"],
                 witness["thr"], witness["itv"], witness.get("offset", 0), witness.get("mode", "direct"),
                 witness.get("prior_band", False))
    found = check(case, execute(case))
    return (witness["clause"], witness["witness_class"]) in found


# ----------------------------------------------------------------------------------------------------------------------
# enumeration
# ----------------------------------------------------------------------------------------------------------------------
def _right_rows(idx, width):
    """Right row number idx (base 8 digits) -> values."""
    digits = (idx[:, None] // (8 ** np.arange(width))[None, :]) % 8
    return VALS[digits]


def job_stacked(args):
    """One stacked call of the real function: rows = (right row j) x (Latin index k); in row (j,k) the pixel of column c
    carries the k-th element of a permutation of all 32 (value, mask) combinations, so that for every right row j every
    column sees every combination once."""
    width, cfg_i, idx, seed = args
    thr, itv = THRS[cfg_i // 3], ITVS[cfg_i % 3]
    rng = np.random.default_rng([seed, width, cfg_i, int(idx[0])])
    perms = np.stack([rng.permutation(NCOMBO) for _ in range(width)])             # (width, 32)
    n = len(idx)
    k = np.arange(NCOMBO)
    pos = (k[None, :, None] + idx[:, None, None] * (np.arange(width)[None, None, :] + 1)) % NCOMBO   # (n, 32, width)
    combo = perms[np.arange(width)[None, None, :], pos].reshape(n * NCOMBO, width)
    ld = VALS[combo % 8]
    lm = MASKS_STACK[combo // 8]
    rd = np.repeat(_right_rows(idx, width), NCOMBO, axis=0)
    rm = np.zeros_like(lm)
    case = _case(ld, lm, rd, rm, thr, itv)
    out = execute(case)
    found = check(case, out)
    nontrivial = ((lm & INVALID) == 0).any(axis=1)
    # integer identity of each row case: left combos, right row number (cfg / width differ between jobs)
    code = (combo.astype(np.int64) * (NCOMBO ** np.arange(width, dtype=np.int64))[None, :]).sum(axis=1) \
        + (NCOMBO ** width) * np.repeat(idx.astype(np.int64), NCOMBO)
    distinct = int(len(np.unique(code[nontrivial])))
    viol = {}
    for key, (r, c, msg) in found.items():
        viol[key] = (_case(ld[r:r + 1], lm[r:r + 1], rd[r:r + 1], rm[r:r + 1], thr, itv), msg)
    sample = None
    if int(idx[0]) == 0 or cfg_i == 4:
        r = min(len(ld) - 1, 5)
        sample = {"family": "stacked-row", "left_disp": ld[r].tolist(), "left_mask": lm[r].tolist(),
                  "right_disp": rd[r].tolist(), "thr": thr, "interval": list(itv),
                  "mask_after": out["left"]["mask"][r].tolist()}
    return {"evaluations": n * NCOMBO, "distinct": distinct, "viol": viol, "sample": sample, "keys": None}


def _rand_case(rng, shape, mode):
    nrow, ncol = shape
    # per-case probabilities so that sparse / dense layouts both occur
    pv = rng.dirichlet(np.ones(len(VALS)))
    pm = rng.dirichlet([3, 1, 1, 1, 1])
    ld = VALS[rng.choice(len(VALS), size=shape, p=pv)]
    rd = VALS[rng.choice(len(VALS), size=shape, p=rng.dirichlet(np.ones(len(VALS))))]
    lm = MASKS_ALL[rng.choice(len(MASKS_ALL), size=shape, p=pm)]
    rm = MASKS_ALL[rng.choice(len(MASKS_ALL), size=shape, p=rng.dirichlet([3, 1, 1, 1, 1]))]
    thr = THRS[rng.integers(3)]
    itv = ITVS[rng.integers(3)]
    offset = int(rng.integers(2)) if nrow >= 3 else (int(rng.integers(4) == 0) if nrow == 2 else 0)
    return _case(ld, lm, rd, rm, thr, itv, offset, mode, prior_band=bool(rng.integers(2)))


def _case_key(case):
    return (case["mode"], case["left_disp"].shape, case["left_disp"].tobytes(), case["left_mask"].tobytes(),
            case["right_disp"].tobytes(), case["right_mask"].tobytes(), case["thr"], tuple(case["itv"]),
            case["offset"], case["prior_band"])


DIRECTED = [
    # D2 reproduction of DESIGN section 3, and a few hand cases (small first)
    ([[2, 0, 0, 2]], [[0, 0, 0, 0]], [[0, 0, 0, 0]], 0, (-2, 2)),
    ([[1]], [[0]], [[0]], 0, (-2, 2)),
    ([[-1, 0]], [[0, 0]], [[0, 0]], 0, (-1, 1)),
    ([[0, 0.5, 0]], [[0, 0, 0]], [[0, -1, 2]], 0.5, (-2, 2)),
    ([[NAN, 0]], [[0, 0]], [[0, NAN]], 1.0, (-2, 2)),
    ([[0, -1, 1, -2], [2, 2, -1, 0]], [[0, 0, 0, 2], [0, 0, 0, 0]], [[0, 2, -1, -1], [1, 1, -2, -1]], 0, (-2, 2)),
]


def job_direct(args):
    """Genuine small-map calls (1x5, 2x4, 3x5, plus a few 1xN) drawn with the seed."""
    seed, chunk, n, mode = args
    rng = np.random.default_rng([seed, 77 if mode == "direct" else 78, chunk])
    shapes = [(1, 5), (2, 4), (3, 5), (1, 5), (2, 4), (1, 3), (3, 4)]
    cases = []
    if chunk == 0:
        for ld, lm, rd, thr, itv in DIRECTED:
            cases.append(_case(ld, lm, rd, np.zeros_like(np.array(lm)), thr, itv, 0, mode))
    while len(cases) < n:
        cases.append(_rand_case(rng, shapes[len(cases) % len(shapes)], mode))
    keys, viol, samples, evaluations = set(), {}, [], 0
    for case in cases:
        out = execute(case)
        found = check(case, out)
        evaluations += 1
        if ((case["left_mask"] & INVALID) == 0).any():
            keys.add(_case_key(case))
        if len(samples) < 1 and case["left_disp"].shape[0] > 1:
            samples.append({"family": mode, "left_disp": case["left_disp"], "left_mask": case["left_mask"],
                            "right_disp": case["right_disp"], "thr": case["thr"], "interval": case["itv"],
                            "offset": case["offset"], "mask_after": out["left"]["mask"]})
        for key, (r, c, msg) in found.items():
            if key not in viol:
                viol[key] = (case, msg)
    return {"evaluations": evaluations, "distinct": None, "viol": viol,
            "sample": samples[0] if samples else None, "keys": keys}


def _run_job(job):
    fn, args = job
    return fn(args)


def run(tier, seed):
    rec = Recorder(max_violations=30)
    rec.functions.update([
        "pandora.validation.validation.AbstractValidation.__new__",
        "pandora.validation.validation.CrossCheckingAccurate.__init__",
        "pandora.validation.validation.CrossCheckingAccurate.check_conf",
        "pandora.validation.validation.CrossCheckingAccurate.disparity_checking",
        "pandora.disparity.disparity.extract_disparity_range_from_disparity_map",
        "pandora.disparity.disparity.extract_interval_from_disparity_map",
        "pandora.cost_volume_confidence.cost_volume_confidence.AbstractCostVolumeConfidence.allocate_confidence_map",
        "pandora.criteria.mask_border",
        "pandora.state_machine.PandoraMachine.validation_run",
    ])
    thorough = tier == "thorough"
    rng = np.random.default_rng([seed, 1])
    jobs = []
    # direct small-map calls first (smallest witnesses first)
    n_direct, n_vrun, per_job = (12000, 3000, 500) if thorough else (1000, 200, 2000)
    for mode, n in (("direct", n_direct), ("validation_run", n_vrun)):
        for chunk in range((n + per_job - 1) // per_job):
            jobs.append((job_direct, (seed, chunk, min(per_job, n - chunk * per_job), mode)))
    # stacked per-pixel enumeration
    for width, n_quick, rows_per_job in ((5, 100, 256), (4, 40, 256)):
        total = 8 ** width
        for cfg_i in range(9):
            if thorough:
                idx_all = np.arange(total)
            else:
                idx_all = np.sort(rng.choice(total, size=n_quick, replace=False))
                if cfg_i == 0:
                    idx_all[0] = 0
                    idx_all = np.unique(idx_all)
            for s in range(0, len(idx_all), rows_per_job):
                jobs.append((job_stacked, (width, cfg_i, idx_all[s:s + rows_per_job], seed)))

    execute(_case([[0]], [[0]], [[0]], [[0]], 0, (-2, 2)))   # import pandora once before forking
    if thorough:
        nproc = max(1, min(8, (os.cpu_count() or 2) // 2))
        with mp.get_context("fork").Pool(nproc) as pool:
            results = pool.map(_run_job, jobs, chunksize=1)
    else:
        results = [_run_job(j) for j in jobs]

    evaluations, distinct, keys, cands = 0, 0, set(), {}
    for res in results:                       # jobs are in enumeration order: first candidate = smallest family
        evaluations += res["evaluations"]
        if res["keys"] is not None:
            keys |= res["keys"]
        else:
            distinct += res["distinct"]       # stacked jobs partition (width, config, right row): no overlap possible
        if res["sample"] is not None and len(rec.samples) < 5:
            rec.samples.append(jsonable(res["sample"]))
        for key, (case, msg) in res["viol"].items():
            cands.setdefault(key, (case, msg))
    for key, (case, msg) in cands.items():
        small = minimise(case, key)
        found = check(small, execute(small))
        if key in found:
            case, msg = small, found[key][2]
        rec.violation(clause=key[0], witness_class=key[1], message=msg, witness=_witness(case, key, msg))
    out = rec.result(
        bound="left/right disparity rows over {-2,-1.5,-1,0,0.5,1,2,NaN}, left masks {0,4(info),64,1} (+2 in direct "
              "calls), thresholds {0,0.5,1.0}, disparity_interval {[-2,2],[-1,1],[0,2]}; " + BOUND_TXT[tier],
        rule="stacked family: the real function is called on (32*n)x5 and (32*n)x4 maps whose rows are independent "
             "1x5 / 1x4 left/right pairs (row j,k = right row j, left pixel of column c = k-th element of a seeded "
             "permutation of the 32 (value,mask) combinations: per right row every column sees every combination); "
             "direct family: seeded 1x5, 2x4, 3x5, 3x4, 1x3 maps (offset 0/1, masks incl. 2, optional prior confidence "
             "band) through disparity_checking, and through PandoraMachine.validation_run (right then checked against "
             "the left by the same oracle). One evaluation = one row pair (stacked) or one call (direct). Distinct = "
             "distinct (left row, mask row, right row, threshold, interval[, shape, offset, mode]); non-trivial = at "
             "least one previously valid left pixel. Comparisons exact (all values are dyadic, float32 exact). Not "
             "checked (statement silent): flag kind when the correspondent is outside / dL is NaN, confidence band "
             "outside the valid-and-inside pixels, validity of the right pixel.")
    out["evaluations"] = evaluations
    out["distinct_nontrivial"] = distinct + len(keys)
    return out
