"""Bounded stand-in for C04 - validity flags, NaN costs and invalid disparities tell one coherent story.

Part 1 ("chain"): the real  allocate_cost_volume -> validity_mask -> compute_cost_volume -> cv_masked -> to_disp
sequence (copied from PandoraMachine.matching_cost_prepare / matching_cost_run / disparity_run) is executed on small
images and the validity mask / cost volume / disparity map are compared with an oracle written from the statement of
C04, the bit table of docs/source/userguide/output.rst and the "NaN exactly when not computable" sentence of C02:

  computable(r, c, d)  <=>  the left window around (r, c) stays in the left image and holds no nodata pixel,
                            the left centre is not masked invalid, d lies in the pixel's [min, max] interval,
                            the right window around (r, c+d) stays in the right image and holds no nodata pixel,
                            the right centre is not masked invalid.
  (a) some bit of {0,1,6,7}  <=>  all costs of the pixel are NaN  <=>  disparity is invalid_disparity   (every pixel)
  (b) border pixel (closer than the window offset to an image edge)  =>  mask == 1
  (c) non-border pixels only, d ranging over the GLOBAL interval [min of min grid, max of max grid]:
        bit 0 <=> a nodata pixel in the left window           bit 6 <=> left centre masked invalid
        bit 1 <=> no d with computable(r, c, d)
        bit 2 <=> some d has its right candidate outside the right image          (see below)
        bit 7 <=> every in-image right candidate is masked invalid               (see below)
      "outside / inside the right image" can be read with the window (candidate column in [o, W-1-o]) or without it
      (column in [0, W-1]); bits 2 and 7 are checked only at pixels where both readings give the same answer, and
      not at all where the whole interval is outside (bit 2: is "all" a "part"?) or no candidate is in-image (bit 7:
      vacuous truth) - the statement is ambiguous there.
  (d) no value >= 4096 (and none < 0).
  subpix: the chain is also run with matching-cost subpix 2 and 4 (the disparity axis of the cost volume then holds the
      fractional disparities too) on right masks with masked / nodata bands and border patches at least as wide as the
      global interval, and on the exhaustive 1x8 right rows.  The oracle is unchanged: the causes are stated over the
      global interval, i.e. the integer candidates col+d, d in [dmin, dmax]; a fractional candidate is interpolated from
      its two integer neighbours (both inside the interval), so it is in-image / non-masked / computable only if both
      neighbours are, and adding the fractional candidates changes the truth of none of the causes above.  (a) is
      evaluated on the whole oversampled cost volume.  A violation seen with subpix > 1 is re-run with subpix 1 and is
      classed '<class>/only-with-subpix>1' when it does not reproduce there.

Part 2 ("pipeline"): full pipelines, accepted by check_configuration.check_pipeline_section, are run step by step
exactly as pandora.run does (run_prepare, machine.run(step) for each step, run_exit); the validity masks of the left
(and right) disparity dataset are snapshotted after every step ( = the result of the pipeline prefix) and the final
masks are compared with a plain pandora.run of the whole pipeline (they must be identical, otherwise the module
raises: harness error).  Checks: (a),(b),(d) after the disparity step; after every later step  s :
  - no value >= 4096 / < 0,
  - bits that are not s's own documented bits are unchanged   (refinement {3}; median/bilateral {}; median_for_intervals
    {11}; validation {8,9}, plus {4,5} when interpolated_disparity is set),
  - s only adds: bits 3, 4, 5, 11 are never cleared; 8/9 are never cleared unless filling is configured
    (filling replaces 8/9 by 4/5).
  Border pixels whose mask is exactly 1 after the step are not compared (the statement wants them to be 1).
"""
import copy
import logging
import warnings

import numpy as np
import xarray as xr

from bounded.common import Recorder, same, jsonable, unjson  # noqa: F401  pylint: disable=unused-import

V, N, I = 0, 1, 2  # logical mask layout: valid, nodata, masked invalid
# (valid_pixels, no_data_mask, codes used for "invalid" pixels) - second encoding is the one of tests/test_criteria.py
ENCODINGS = [(0, 1, (2,)), (1, 2, (0, 3, 5))]
INVALID_BITS = 1 | 2 | 64 | 128
BITS = {0: 1, 1: 2, 2: 4, 6: 64, 7: 128}
MEASURES = ["sad", "ssd", "census", "zncc"]
STATS = {}  # pixels actually compared, per clause (reset by run)


def stat(name, value):
    STATS[name] = STATS.get(name, 0) + int(value)


# ----------------------------------------------------------------------------------------------------------------------
# dataset construction (as tests/test_criteria.py does)
# ----------------------------------------------------------------------------------------------------------------------
def encode_layout(layout, enc):
    valid, nodata, inv_codes = enc
    msk = np.full(layout.shape, valid, dtype=np.int16)
    msk[layout == N] = nodata
    rr, cc = np.where(layout == I)
    for r, c in zip(rr, cc):
        msk[r, c] = inv_codes[(r + c) % len(inv_codes)]
    return msk


def make_img(im, layout, enc, disp=None, grids=None):
    h, w = im.shape
    data = {"im": (["row", "col"], np.asarray(im).astype(np.float32))}
    if layout is not None:
        data["msk"] = (["row", "col"], encode_layout(np.asarray(layout), enc))
    ds = xr.Dataset(data, coords={"row": np.arange(h), "col": np.arange(w)})
    ds.attrs = {"valid_pixels": enc[0], "no_data_mask": enc[1], "crs": None, "transform": None}
    if grids is not None:
        gmin, gmax = np.asarray(grids[0]), np.asarray(grids[1])
        ds.coords["band_disp"] = ["min", "max"]
        ds["disparity"] = xr.DataArray(np.array([gmin, gmax]), dims=["band_disp", "row", "col"])
        ds.attrs["disparity_source"] = [int(gmin.min()), int(gmax.max())]
    elif disp is not None:
        from pandora.img_tools import add_disparity

        add_disparity(ds, [int(disp[0]), int(disp[1])], None)
    return ds


def make_meta(h, w, disp):
    """what pandora.img_tools.get_metadata gives to check_conf for a mono-band image"""
    from pandora.img_tools import add_disparity

    ds = xr.Dataset({}, coords={"band_im": [None], "row": np.arange(h), "col": np.arange(w)})
    add_disparity(ds, [int(disp[0]), int(disp[1])], None)
    return ds


# ----------------------------------------------------------------------------------------------------------------------
# part 1 : real chain + oracle
# ----------------------------------------------------------------------------------------------------------------------
def real_chain(left, right, window, inv, measure, subpix=1):
    """sequence of PandoraMachine.matching_cost_prepare, matching_cost_run, disparity_run (left side)"""
    from pandora import matching_cost, disparity
    from pandora.criteria import validity_mask

    mc_ = matching_cost.AbstractMatchingCost(matching_cost_method=measure, window_size=int(window), subpix=int(subpix))
    disp_min = left["disparity"].sel(band_disp="min").data
    disp_max = left["disparity"].sel(band_disp="max").data
    cv = mc_.allocate_cost_volume(left, (disp_min, disp_max), None)
    cv = validity_mask(left, right, cv)
    cv = mc_.compute_cost_volume(left, right, cv)
    mc_.cv_masked(left, right, cv, disp_min, disp_max)
    disp = disparity.AbstractDisparity(disparity_method="wta", invalid_disparity=inv).to_disp(cv, left, right)
    return cv, disp


def border_of(h, w, off):
    rows = np.arange(h)[:, None]
    cols = np.arange(w)[None, :]
    return (rows < off) | (rows > h - 1 - off) | (cols < off) | (cols > w - 1 - off)


def window_any(flag, off):
    """out[r, c] = some flag[r+i, c+j] is set, |i|,|j| <= off, positions outside the image ignored"""
    h, w = flag.shape
    out = np.zeros((h, w), dtype=bool)
    for i in range(-off, off + 1):
        for j in range(-off, off + 1):
            r0, r1 = max(0, -i), min(h, h - i)
            c0, c1 = max(0, -j), min(w, w - j)
            if r0 < r1 and c0 < c1:
                out[r0:r1, c0:c1] |= flag[r0 + i : r1 + i, c0 + j : c1 + j]
    return out


def oracle_chain(lay_l, lay_r, h, w, window, gmin, gmax):
    """expected bits, from the statement.  Returns {bit: (expected bool HxW, checkable bool HxW)}, border, any_comp"""
    off = (window - 1) // 2
    border = border_of(h, w, off)
    zeros = np.zeros((h, w), dtype=bool)
    l_nd = window_any(lay_l == N, off) if lay_l is not None else zeros
    l_inv = (lay_l == I) if lay_l is not None else zeros
    r_nd = window_any(lay_r == N, off) if lay_r is not None else zeros
    r_inv = (lay_r == I) if lay_r is not None else zeros
    d_lo, d_hi = int(np.min(gmin)), int(np.max(gmax))
    n_d = d_hi - d_lo + 1
    cols = np.arange(w)
    any_comp = zeros.copy()
    n_out = {"win": np.zeros((h, w), int), "lit": np.zeros((h, w), int)}
    n_in_masked = {"win": np.zeros((h, w), int), "lit": np.zeros((h, w), int)}
    for d in range(d_lo, d_hi + 1):
        q = cols + d
        inside = {"win": (q >= off) & (q <= w - 1 - off), "lit": (q >= 0) & (q <= w - 1)}
        qc = np.clip(q, 0, w - 1)
        cand_nd = r_nd[:, qc]  # right window around (r, c+d) holds nodata   (meaningless where not inside)
        cand_inv = r_inv[:, qc]  # right centre (r, c+d) masked invalid
        comp = (~border) & (~l_nd) & (~l_inv) & (gmin <= d) & (d <= gmax) & inside["win"][None, :] & (~cand_nd) & (~cand_inv)
        any_comp |= comp
        for k in ("win", "lit"):
            n_out[k] += (~inside[k])[None, :]
            n_in_masked[k] += inside[k][None, :] & cand_inv
    inner = ~border
    exp = {0: (l_nd, inner), 6: (l_inv, inner), 1: (~any_comp, inner)}
    # bit 2
    part = {k: n_out[k] > 0 for k in n_out}
    whole = (n_out["win"] == n_d) | (n_out["lit"] == n_d)
    exp[2] = (part["win"], inner & ~whole & (part["win"] == part["lit"]))
    # bit 7
    n_in = {k: n_d - n_out[k] for k in n_out}
    allm = {k: (n_in[k] > 0) & (n_in_masked[k] == n_in[k]) for k in n_out}
    exp[7] = (allm["win"], inner & (n_in["win"] > 0) & (n_in["lit"] > 0) & (allm["win"] == allm["lit"]))
    return exp, border, any_comp


def is_invalid_disp(disp, inv):
    inv = float(inv)
    if np.isnan(inv):
        return np.isnan(disp)
    return disp == inv


def coherence_violations(mask, cost_volume, disp_map, inv, border, prefix="C04"):
    """(a), (b), (d) on real outputs; yields (clause, witness_class, message, pixel)"""
    out = []
    flag = (mask & INVALID_BITS) != 0
    allnan = np.all(np.isnan(cost_volume), axis=2)
    dinv = is_invalid_disp(disp_map, inv)
    for name, lhs, rhs, cls_a, cls_b in (
        ("flag_iff_all_nan", flag, allnan, "invalid-flag-but-a-cost-is-computable", "all-costs-nan-but-no-invalid-flag"),
        ("flag_iff_invalid_disparity", flag, dinv, "invalid-flag-but-disparity-not-invalid_disparity",
         "disparity-is-invalid_disparity-but-no-invalid-flag"),
        ("all_nan_iff_invalid_disparity", allnan, dinv, "all-costs-nan-but-disparity-not-invalid_disparity",
         "disparity-is-invalid_disparity-but-a-cost-is-computable"),
    ):
        for cls, bad in ((cls_a, lhs & ~rhs), (cls_b, ~lhs & rhs)):
            if bad.any():
                r, c = [int(x[0]) for x in np.where(bad)]
                out.append((prefix + ".coherent." + name, cls,
                            "pixel (%d,%d): mask=%d all_costs_nan=%s disparity=%r" %
                            (r, c, mask[r, c], bool(allnan[r, c]), float(disp_map[r, c])), (r, c)))
    bad = border & (mask != 1)
    if bad.any():
        r, c = [int(x[0]) for x in np.where(bad)]
        out.append((prefix + ".border.bit0_only", "border-pixel-mask-not-1",
                    "border pixel (%d,%d) has mask %d, expected 1" % (r, c, mask[r, c]), (r, c)))
    bad = (mask >= 4096) | (mask < 0)
    if bad.any():
        r, c = [int(x[0]) for x in np.where(bad)]
        out.append((prefix + ".undocumented_bit", "after-disparity",
                    "pixel (%d,%d) has mask %d" % (r, c, mask[r, c]), (r, c)))
    return out


def evaluate_chain(case):
    """runs the real chain on the case and returns (violations, info)"""
    im_l, im_r = np.asarray(case["im_left"]), np.asarray(case["im_right"])
    lay_l = None if case["layout_left"] is None else np.asarray(case["layout_left"])
    lay_r = None if case["layout_right"] is None else np.asarray(case["layout_right"])
    enc = ENCODINGS[case["enc"]]
    h, w = im_l.shape
    window = int(case["window"])
    inv = float(case["inv"])
    subpix = int(case.get("subpix") or 1)
    if case.get("grids") is not None:
        gmin, gmax = np.asarray(case["grids"][0]).astype(int), np.asarray(case["grids"][1]).astype(int)
        left = make_img(im_l, lay_l, enc, grids=(gmin, gmax))
    else:
        gmin = np.full((h, w), int(case["disp"][0]))
        gmax = np.full((h, w), int(case["disp"][1]))
        left = make_img(im_l, lay_l, enc, disp=case["disp"])
    right = make_img(im_r, lay_r, enc)
    with warnings.catch_warnings():
        warnings.simplefilter("ignore")
        cv, disp = real_chain(left, right, window, inv, case["measure"], subpix)
    mask = np.asarray(disp["validity_mask"].data).astype(np.int64)
    cost = np.asarray(cv["cost_volume"].data)
    dmap = np.asarray(disp["disparity_map"].data)
    exp, border, any_comp = oracle_chain(lay_l, lay_r, h, w, window, gmin, gmax)
    viol = coherence_violations(mask, cost, dmap, inv, border)
    for bit, (expected, checkable) in exp.items():
        got = (mask & BITS[bit]) != 0
        for cls, bad in (("bit%d-missing" % bit, checkable & expected & ~got), ("bit%d-spurious" % bit, checkable & ~expected & got)):
            if bad.any():
                r, c = [int(x[0]) for x in np.where(bad)]
                viol.append(("C04.cause.bit%d" % bit, cls,
                             "pixel (%d,%d): mask=%d, bit %d expected %s by its documented cause" %
                             (r, c, mask[r, c], bit, bool(expected[r, c])), (r, c)))
    inner = ~border
    stat("chain.pixels", mask.size)
    stat("chain.non_border_pixels", inner.sum())
    stat("chain.non_border_pixels_with_a_computable_cost", (inner & any_comp).sum())
    for bit, (expected, checkable) in exp.items():
        stat("chain.bit%d.compared" % bit, checkable.sum())
        stat("chain.bit%d.compared_and_expected_set" % bit, (checkable & expected).sum())
        if subpix > 1:
            stat("chain.subpix>1.bit%d.compared" % bit, checkable.sum())
            stat("chain.subpix>1.bit%d.compared_and_expected_set" % bit, (checkable & expected).sum())
    if subpix > 1:
        stat("chain.subpix>1.runs", 1)
    info = {"nontrivial": bool((inner & any_comp).any() and (inner & (mask != 0)).any()), "mask": mask}
    return viol, info


def chain_case(im_l, im_r, lay_l, lay_r, enc, window, inv, measure, disp=None, grids=None, subpix=1):
    return {"part": "chain", "im_left": im_l, "im_right": im_r, "layout_left": lay_l, "layout_right": lay_r,
            "enc": int(enc), "window": int(window), "inv": float(inv), "measure": measure, "subpix": int(subpix),
            "disp": None if disp is None else [int(disp[0]), int(disp[1])],
            "grids": None if grids is None else [np.asarray(grids[0]), np.asarray(grids[1])]}


def all_layout_rows(width):
    """all 3**width rows over {V, N, I}, first the rows with few non-valid pixels"""
    rows = np.array(np.meshgrid(*[[V, N, I]] * width, indexing="ij")).reshape(width, -1).T
    order = np.argsort((rows != V).sum(axis=1), kind="stable")
    return rows[order]


def sparse_layout_rows(width, max_nonvalid):
    rows = all_layout_rows(width)
    return rows[(rows != V).sum(axis=1) <= max_nonvalid]


ALL_INTERVALS = [(a, b) for a in range(-4, 5) for b in range(a, 5)]  # 45 scalar intervals within [-4, 4]


def random_layout(rng, h, w, p_nonvalid):
    lay = np.full((h, w), V)
    u = rng.random((h, w))
    lay[u < p_nonvalid] = N
    lay[u < p_nonvalid / 2] = I
    return lay


def random_layout_runs(rng, h, w):
    """valid background with a few horizontal runs of masked / nodata pixels (what bit 7 and bit 1 need)"""
    lay = np.full((h, w), V)
    for _ in range(int(rng.integers(1, 4))):
        r = int(rng.integers(0, h))
        c0 = int(rng.integers(0, w))
        ln = int(rng.integers(1, w))
        lay[r, c0 : c0 + ln] = rng.choice([N, I], p=[0.3, 0.7])
    return lay


def gen_layout(rng, h, w):
    k = int(rng.integers(0, 6))
    if k == 0:
        return None
    if k == 1:
        return np.full((h, w), V)
    if k == 2:
        return random_layout_runs(rng, h, w)
    return random_layout(rng, h, w, [0.08, 0.2, 0.45][k - 3])


def pick_measure(rng, window, h):
    """census / zncc only when the window fits in the image (they refuse or crash otherwise - not C04's business)"""
    fits = window <= h
    cands = ["sad", "ssd"] + (["census"] if window in (3, 5) and fits else []) + (["zncc"] if window >= 3 and fits else [])
    return str(rng.choice(cands))


SUBPIX_ONLY = "/only-with-subpix>1"


def already_recorded(rec, clause, cls):
    return any(v["clause"] == clause and v["witness_class"] == cls for v in rec.violations)


def refine_subpix(rec, viol, case):
    """a violation found with subpix 2/4 is re-run with subpix 1 (same images, masks, interval): when it reproduces there
    the subpix-1 case is the (smaller) witness and the class is unchanged; otherwise the class says that the failure
    needs the oversampled disparity axis.  Returns [(violation, case to record)]"""
    if int(case.get("subpix") or 1) == 1:
        return [(v, case) for v in viol]
    todo = [v for v in viol if not (already_recorded(rec, v[0], v[1]) and already_recorded(rec, v[0], v[1] + SUBPIX_ONLY))]
    if not todo:
        return []
    base = dict(case)
    base["subpix"] = 1
    v1, _ = evaluate_chain(base)
    out = []
    for v in todo:
        hit = [u for u in v1 if u[0] == v[0] and u[1] == v[1]]
        if hit:
            out.append((hit[0], base))
        else:
            out.append(((v[0], v[1] + SUBPIX_ONLY, "subpix %d: %s (same inputs with subpix 1: no such violation)" %
                         (case["subpix"], v[2]), v[3]), case))
    return out


def record(rec, viol, case):
    for (clause, cls, msg, pixel), wcase in refine_subpix(rec, viol, case):
        wit = dict(wcase)
        wit.update({"clause": clause, "witness_class": cls, "pixel": list(pixel)})
        rec.violation(clause=clause, witness_class=cls, message=msg, witness=wit)


def run_chain_direct(rec, rng, n_random_per_combo, interval_stride):
    """genuine small images; every scalar interval within [-4,4] (stride 1) and per-pixel grids"""
    combos = [(1, 8, 1), (1, 8, 3), (3, 7, 1), (3, 7, 3), (3, 7, 5), (5, 9, 1), (5, 9, 3), (5, 9, 5)]
    count = 0
    for h, w, window in combos:
        for rep in range(n_random_per_combo):
            im_l = rng.integers(0, 12, (h, w))
            im_r = rng.integers(0, 12, (h, w))
            lay_l, lay_r = gen_layout(rng, h, w), gen_layout(rng, h, w)
            enc = int(rng.integers(0, 2))
            measure = pick_measure(rng, window, h)
            start = int(rng.integers(0, interval_stride))
            for k in range(start, len(ALL_INTERVALS), interval_stride):
                inv = [-9999.0, float("nan")][(k + rep) % 2]
                case = chain_case(im_l, im_r, lay_l, lay_r, enc, window, inv, measure, disp=ALL_INTERVALS[k])
                viol, info = evaluate_chain(case)
                count += 1
                rec.case(key=("chain", jsonable(case)), nontrivial=info["nontrivial"],
                         sample={"part": "chain", "shape": [h, w], "window": window, "disp": case["disp"],
                                 "measure": measure, "layout_left": lay_l, "layout_right": lay_r,
                                 "mask": info["mask"]} if (count % 97 == 1) else None)
                record(rec, viol, case)
            # per-pixel grids
            for g in range(3):
                a = rng.integers(-4, 5, (h, w))
                b = rng.integers(-4, 5, (h, w))
                gmin, gmax = np.minimum(a, b), np.maximum(a, b)
                if g == 2:  # narrow global interval, so that whole pixels fall out of it
                    gmin, gmax = np.clip(gmin, -1, 2), np.clip(gmax, -1, 2)
                inv = [-9999.0, float("nan")][(g + rep) % 2]
                case = chain_case(im_l, im_r, lay_l, lay_r, enc, window, inv, measure, grids=(gmin, gmax))
                viol, info = evaluate_chain(case)
                count += 1
                rec.case(key=("chain", jsonable(case)), nontrivial=info["nontrivial"])
                record(rec, viol, case)
    return count


# structured right masks x subpix ---------------------------------------------------------------------------------------
BAND_KINDS = ["band", "band-with-hole", "patch-right-border", "patch-left-border", "band+patch-right-border",
              "band-invalid-and-nodata", "two-half-bands"]
BAND_INTERVALS = [(-2, 2), (-1, 1), (0, 2), (-2, 0), (1, 3), (-3, -1), (0, 0), (-3, 3), (0, 1), (-1, 0), (2, 2), (-4, 1)]
BAND_COMBOS = [(1, 12, 1), (2, 14, 1), (4, 14, 3), (5, 15, 3), (3, 16, 3), (6, 16, 5)]  # rows, cols, window


def structured_right_layout(rng, h, w, off, n_d, kind):
    """right mask layouts that bits 7 / 1 need: a masked (or nodata) region as wide as the global interval (n_d integer
    disparities) or wider, in the middle of the image or against its left / right border"""
    lay = np.full((h, w), V)
    val = I if rng.random() < 0.7 else N
    other = N if val == I else I
    bw = int(min(w - 2, n_d + int(rng.integers(0, 3)) + 2 * off * int(rng.integers(0, 2))))  # band width >= n_d
    b0 = int(rng.integers(0, w - bw + 1))
    r0 = int(rng.integers(0, max(1, h - 1)))
    r1 = int(rng.integers(r0 + 1, h + 1))
    pw = int(min(w - 1, off + int(rng.integers(1, n_d + 3))))  # patch width (from the image edge)
    if kind == "band":
        lay[:, b0 : b0 + bw] = val
    elif kind == "band-with-hole":  # one valid column inside the band, on some rows: the cause of bit 7 / 1 does not hold there
        lay[:, b0 : b0 + bw] = val
        hole = b0 + int(rng.integers(0, bw))
        lay[rng.random(h) < 0.6, hole] = V
    elif kind == "patch-right-border":
        lay[r0:r1, w - pw :] = val
    elif kind == "patch-left-border":
        lay[r0:r1, :pw] = val
    elif kind == "band+patch-right-border":
        lay[:, b0 : b0 + bw] = val
        lay[r0:r1, w - pw :] = val if rng.random() < 0.5 else other
    elif kind == "band-invalid-and-nodata":  # every pixel of the band is non-valid, but not all for the same reason
        lay[:, b0 : b0 + bw] = np.where(rng.random((h, bw)) < 0.3, other, val)
    elif kind == "two-half-bands":
        lay[:, b0 : b0 + bw // 2] = val
        lay[:, b0 + bw // 2 : b0 + bw] = other
    else:
        raise ValueError(kind)
    return lay


def run_chain_bands(rec, rng, n_intervals, n_grids, subpixes=(1, 2, 4)):
    """genuine small images whose RIGHT mask holds bands / border patches of masked or nodata pixels at least as wide as
    the global interval, left mask none / all valid / sparse; every case is run with every subpix of `subpixes`"""
    count = 0
    for h, w, window in BAND_COMBOS:
        off = (window - 1) // 2
        for kind in BAND_KINDS:
            for j in range(n_intervals + n_grids):
                disp = BAND_INTERVALS[int(rng.integers(0, len(BAND_INTERVALS)))]
                n_d = disp[1] - disp[0] + 1
                grids = None
                if j >= n_intervals:  # per-pixel intervals inside the global one; two pixels carry its ends
                    a = rng.integers(disp[0], disp[1] + 1, (h, w))
                    b = rng.integers(disp[0], disp[1] + 1, (h, w))
                    grids = (np.minimum(a, b), np.maximum(a, b))
                    grids[0][int(rng.integers(0, h)), int(rng.integers(0, w))] = disp[0]
                    grids[1][int(rng.integers(0, h)), int(rng.integers(0, w))] = disp[1]
                im_l = rng.integers(0, 12, (h, w))
                im_r = rng.integers(0, 12, (h, w))
                lay_r = structured_right_layout(rng, h, w, off, n_d, kind)
                k = int(rng.integers(0, 4))
                lay_l = None if k == 0 else (np.full((h, w), V) if k == 1 else random_layout(rng, h, w, 0.06))
                enc = int(rng.integers(0, 2))
                measure = pick_measure(rng, window, h)
                inv = [-9999.0, float("nan")][j % 2]
                for subpix in subpixes:
                    case = chain_case(im_l, im_r, lay_l, lay_r, enc, window, inv, measure,
                                      disp=None if grids is not None else disp, grids=grids, subpix=subpix)
                    viol, info = evaluate_chain(case)
                    count += 1
                    rec.case(key=("chain", jsonable(case)), nontrivial=info["nontrivial"],
                             sample={"part": "chain-bands", "kind": kind, "shape": [h, w], "window": window,
                                     "disp": list(disp), "per_pixel_grids": grids is not None, "subpix": subpix,
                                     "measure": measure, "layout_left": lay_l, "layout_right": lay_r,
                                     "mask": info["mask"]} if (count % 101 == 5) else None)
                    record(rec, viol, case)
    return count


# stacked 1xW rows -----------------------------------------------------------------------------------------------------
def stack_rows(spec, width=8):
    """(left layout rows or None, right layout rows or None): every row of the stacked image is one 1xW layout pair"""
    kind = spec["kind"]
    allr = all_layout_rows(width)
    few = sparse_layout_rows(width, spec.get("few", 1))
    if kind == "left_few_x_right_all":
        lay_l = np.repeat(few, len(allr), axis=0)
        lay_r = np.tile(allr, (len(few), 1))
    elif kind == "left_all_x_right_few":
        lay_l = np.repeat(allr, len(few), axis=0)
        lay_r = np.tile(few, (len(allr), 1))
    elif kind == "left_none_x_right_all":
        lay_l, lay_r = None, allr
    elif kind == "left_all_x_right_none":
        lay_l, lay_r = allr, None
    elif kind == "random_pairs":
        rng = np.random.default_rng(spec["seed"])
        lay_l = allr[rng.integers(0, len(allr), spec["n"])]
        lay_r = allr[rng.integers(0, len(allr), spec["n"])]
    else:
        raise ValueError(kind)
    n = len(lay_l) if lay_l is not None else len(lay_r)
    rng = np.random.default_rng(spec.get("seed", 0) + 12345)
    im_l = rng.integers(0, 12, (n, width))
    im_r = rng.integers(0, 12, (n, width))
    return im_l, im_r, lay_l, lay_r


def run_chain_stacked(rec, specs, intervals, enc_cycle=(0, 1), subpixes=(1,)):
    """window 1: rows are independent in the statement, so N different 1x8 layout pairs are run as one Nx8 image;
    a violation found on a row is re-run alone as a genuine 1x8 image, which is the recorded witness when it reproduces"""
    count = 0
    for spec in specs:
        im_l, im_r, lay_l, lay_r = stack_rows(spec)
        for k, disp in enumerate(intervals):
            inv = [-9999.0, float("nan")][k % 2]
            enc = enc_cycle[k % len(enc_cycle)]
            measure = ["sad", "ssd"][(k // 2) % 2]
            subpix = int(subpixes[k % len(subpixes)])  # the k-th interval is run with the k-th (cyclically) subpix value
            case = chain_case(im_l, im_r, lay_l, lay_r, enc, 1, inv, measure, disp=disp, subpix=subpix)
            viol, info = evaluate_chain(case)
            count += 1
            rec.case(key=("stack", jsonable(spec), disp, enc, inv, measure) + ((subpix,) if subpix != 1 else ()),
                     nontrivial=info["nontrivial"],
                     sample={"part": "chain-stacked", "spec": spec, "rows": int(im_l.shape[0]), "disp": list(disp),
                             "subpix": subpix} if k == 0 else None)
            for clause, cls, msg, pixel in viol:
                r = pixel[0]
                small = chain_case(im_l[r : r + 1], im_r[r : r + 1], None if lay_l is None else lay_l[r : r + 1],
                                   None if lay_r is None else lay_r[r : r + 1], enc, 1, inv, measure, disp=disp,
                                   subpix=subpix)
                v2, _ = evaluate_chain(small)
                hit = [v for v in v2 if v[0] == clause and v[1] == cls]
                if hit:
                    record(rec, hit[:1], small)
                else:
                    wit = {"part": "chain-stacked", "spec": spec, "disp": list(disp), "enc": enc, "inv": inv,
                           "measure": measure, "subpix": subpix, "clause": clause, "witness_class": cls,
                           "pixel": list(pixel)}
                    rec.violation(clause=clause, witness_class=cls + "/only-inside-stack", message=msg, witness=wit)
    return count


# ----------------------------------------------------------------------------------------------------------------------
# part 2 : pipelines
# ----------------------------------------------------------------------------------------------------------------------
def own_bits(step, step_cfg):
    """(bits the step may change, bits the step may clear) from the statement"""
    kind = step.split(".")[0]
    if kind == "refinement":
        return 1 << 3, 0
    if kind == "filter":
        if step_cfg.get("filter_method") == "median_for_intervals":
            return 1 << 11, 0
        return 0, 0
    if kind == "validation":
        if "interpolated_disparity" in step_cfg:
            return (1 << 4) | (1 << 5) | (1 << 8) | (1 << 9), (1 << 8) | (1 << 9)
        return (1 << 8) | (1 << 9), 0
    return None, None


def classify_step_violation(kind, step_cfg, before, after):
    if kind == "refinement" and (before & 8) and after == before + 8:
        return "repeated-refinement-adds-8-to-a-mask-that-has-bit3-carry-into-bit4"
    if kind == "validation" and "interpolated_disparity" in step_cfg:
        for val in (16, 32):
            if (before & val) and after == before + val:
                return "repeated-validation-filling-%s-adds-%d-to-a-mask-that-has-it-carry-into-next-bit" % (
                    step_cfg["interpolated_disparity"], val)
    return None


def run_pipeline_steps(case):
    """returns ('illegal', msg) or ('ok', snapshots, final_run_masks, extras)"""
    import pandora
    from pandora import check_configuration
    from pandora.state_machine import PandoraMachine

    logging.getLogger("transitions.core").setLevel(logging.ERROR)
    im_l, im_r = np.asarray(case["im_left"]), np.asarray(case["im_right"])
    lay_l = None if case["layout_left"] is None else np.asarray(case["layout_left"])
    lay_r = None if case["layout_right"] is None else np.asarray(case["layout_right"])
    enc = ENCODINGS[case["enc"]]
    disp = case["disp"]
    rdisp = [-disp[1], -disp[0]]
    h, w = im_l.shape

    def images():
        return make_img(im_l, lay_l, enc, disp=disp), make_img(im_r, lay_r, enc, disp=rdisp)

    try:
        machine = PandoraMachine()
        cfg = check_configuration.check_pipeline_section(
            {"pipeline": copy.deepcopy(case["pipeline"])}, make_meta(h, w, disp), make_meta(h, w, rdisp), machine)
    except Exception as exc:  # pylint: disable=broad-except
        return ("illegal", repr(exc))

    with warnings.catch_warnings():
        warnings.simplefilter("ignore")
        # --- step by step, exactly pandora.run, with snapshots
        cfg1 = copy.deepcopy(cfg)
        left, right = images()
        machine = PandoraMachine()
        num_scales, scale_factor = check_configuration.read_multiscale_params(cfg1)
        machine.run_prepare(cfg1, left, right, scale_factor, num_scales)
        snaps = []
        extras = {}
        for step in list(cfg1["pipeline"]):
            machine.run(step, cfg1)
            snap = {"step": step}
            for side, dsp in (("left", machine.left_disparity), ("right", machine.right_disparity)):
                if dsp is not None and "validity_mask" in dsp.data_vars:
                    snap[side] = np.array(dsp["validity_mask"].data).astype(np.int64)
            snaps.append(snap)
            if step.split(".")[0] == "disparity":
                for side, dsp, cv in (("left", machine.left_disparity, machine.left_cv),
                                      ("right", machine.right_disparity, machine.right_cv)):
                    if dsp is not None and "validity_mask" in dsp.data_vars and cv is not None:
                        extras[side] = (np.array(cv["cost_volume"].data), np.array(dsp["disparity_map"].data),
                                        int(dsp.attrs["offset_row_col"]))
        machine.run_exit()
        # --- the whole pipeline through pandora.run
        left, right = images()
        out_l, out_r = pandora.run(PandoraMachine(), left, right, copy.deepcopy(cfg))
    final = {"left": np.array(out_l["validity_mask"].data).astype(np.int64)}
    if out_r is not None and "validity_mask" in out_r.data_vars:
        final["right"] = np.array(out_r["validity_mask"].data).astype(np.int64)
    return ("ok", cfg, snaps, final, extras)


def evaluate_pipeline(case):
    res = run_pipeline_steps(case)
    if res[0] == "illegal":
        return [], {"legal": False, "why": res[1], "nontrivial": False}
    _, cfg, snaps, final, extras = res
    for side, msk in final.items():
        if not np.array_equal(msk, snaps[-1][side]):
            raise AssertionError("harness: step-by-step run differs from pandora.run (%s)" % side)
    viol = []
    inv = cfg["pipeline"]["disparity"]["invalid_disparity"]
    h, w = np.asarray(case["im_left"]).shape
    prev = None
    for snap in snaps:
        step = snap["step"]
        kind = step.split(".")[0]
        for side in ("left", "right"):
            if side not in snap:
                continue
            after = snap[side]
            if kind == "disparity":
                cost, dmap, off = extras[side]
                for clause, cls, msg, pix in coherence_violations(after, cost, dmap, inv, border_of(h, w, off)):
                    viol.append((clause, cls, "%s map after step %s: %s" % (side, step, msg), pix))
                continue
            bad = (after >= 4096) | (after < 0)
            if bad.any():
                r, c = [int(x[0]) for x in np.where(bad)]
                viol.append(("C04.undocumented_bit", "after-" + kind,
                             "%s map after step %s: pixel (%d,%d) has mask %d" % (side, step, r, c, after[r, c]), (r, c)))
            if prev is None or side not in prev:
                continue
            before = prev[side]
            may_change, may_clear = own_bits(step, cfg["pipeline"][step])
            if may_change is None:
                continue
            off = extras[side][2] if side in extras else 0
            skip = border_of(h, w, off) & (after == 1)
            changed = before ^ after
            cleared = before & ~after
            stat("pipeline.%s.pixels_compared" % kind, (~skip).sum())
            stat("pipeline.%s.pixels_changed" % kind, ((changed != 0) & ~skip).sum())
            foreign = ((changed & ~may_change) != 0) & ~skip
            lost = ((cleared & may_change & ~may_clear) != 0) & ~skip
            for sub, bad in (("foreign_bits_unchanged", foreign), ("adds_only", lost & ~foreign)):
                if not bad.any():
                    continue
                seen = set()
                for r, c in zip(*np.where(bad)):
                    b, a = int(before[r, c]), int(after[r, c])
                    cls = classify_step_violation(kind, cfg["pipeline"][step], b, a)
                    if cls is None:
                        cls = ("other-bit-changed" if sub == "foreign_bits_unchanged" else "own-bit-cleared")
                    if cls in seen:
                        continue
                    seen.add(cls)
                    viol.append(("C04.later_steps.%s.%s" % (kind, sub), cls,
                                 "%s map, step %s: pixel (%d,%d) mask %d -> %d (the step's own bits are %s)" %
                                 (side, step, r, c, b, a, [k for k in range(12) if may_change >> k & 1]), (int(r), int(c))))
        prev = snap if prev is None else {**prev, **snap}
    last = snaps[-1]["left"]
    off = extras["left"][2] if "left" in extras else 0
    inner_vals = set(last[~border_of(h, w, off)].ravel().tolist())
    return viol, {"legal": True, "nontrivial": len(inner_vals) >= 2, "final_values": sorted(set(last.ravel().tolist()))}


WTA = {"disparity_method": "wta", "invalid_disparity": -9999}
WTA_NAN = {"disparity_method": "wta", "invalid_disparity": "NaN"}
VAL = {"validation_method": "cross_checking_accurate"}
VAL_MC = {"validation_method": "cross_checking_accurate", "interpolated_disparity": "mc-cnn"}
VAL_SGM = {"validation_method": "cross_checking_accurate", "interpolated_disparity": "sgm"}
VFIT = {"refinement_method": "vfit"}
QUAD = {"refinement_method": "quadratic"}
MED = {"filter_method": "median", "filter_size": 3}
BIL = {"filter_method": "bilateral", "sigma_color": 2.0, "sigma_space": 6.0}
MFI = {"filter_method": "median_for_intervals", "regularization": True, "interval_indicator": "int",
       "ambiguity_indicator": "amb", "ambiguity_threshold": 0.9, "ambiguity_kernel_size": 3}
CVC_AMB = {"confidence_method": "ambiguity", "eta_max": 0.7, "eta_step": 0.01}
CVC_INT = {"confidence_method": "interval_bounds", "possibility_threshold": 0.7}


def pipelines(mc_cfg, wta):
    """name -> ordered pipeline dict (dict order is the step order, as in a json configuration file)"""
    def pipe(*steps):
        out = {"matching_cost": dict(mc_cfg)}
        for name, cfg in steps:
            out[name] = dict(cfg)
        return out

    d = ("disparity", wta)
    return [
        ("refinement-x2-vfit", pipe(d, ("refinement", VFIT), ("refinement.2", VFIT))),
        ("validation-x2-mc-cnn", pipe(d, ("validation", VAL_MC), ("validation.2", VAL_MC))),
        ("validation-x2-sgm", pipe(d, ("validation", VAL_SGM), ("validation.2", VAL_SGM))),
        ("filter-x2", pipe(d, ("filter", MED), ("filter.2", BIL))),
        ("validation-x2-nofill", pipe(d, ("validation", VAL), ("validation.2", VAL))),
        ("mfi-x2", pipe(("cost_volume_confidence.amb", CVC_AMB), ("cost_volume_confidence.int", CVC_INT), d,
                        ("filter", MFI), ("filter.2", MFI))),
        ("refinement-x2-quadratic", pipe(d, ("refinement", QUAD), ("refinement.2", QUAD))),
        ("refinement-x3-mixed", pipe(d, ("refinement", VFIT), ("refinement.2", QUAD), ("refinement.3", VFIT))),
        ("validation-nofill-then-mc-cnn", pipe(d, ("validation", VAL), ("validation.2", VAL_MC))),
        ("validation-mc-cnn-then-sgm", pipe(d, ("validation", VAL_MC), ("validation.2", VAL_SGM))),
        ("all-x2", pipe(d, ("refinement", VFIT), ("filter", MED), ("validation", VAL_MC), ("refinement.2", VFIT),
                        ("filter.2", MED), ("validation.2", VAL_MC))),
        ("all-x2-sgm", pipe(d, ("filter", MED), ("refinement", QUAD), ("validation", VAL_SGM), ("filter.2", BIL),
                            ("refinement.2", VFIT), ("validation.2", VAL_SGM))),
        ("mfi-validation-mfi", pipe(("cost_volume_confidence.amb", CVC_AMB), ("cost_volume_confidence.int", CVC_INT), d,
                                    ("filter", MFI), ("validation", VAL_MC), ("filter.2", MFI), ("refinement", VFIT))),
        ("validation-x3-mc-cnn", pipe(d, ("validation", VAL_MC), ("validation.2", VAL_MC), ("validation.3", VAL_MC))),
    ]


def gen_pair(rng, h, w, shift):
    """integer left image, right image = left shifted by `shift` columns, a random band and a few random pixels"""
    base = rng.integers(0, 16, (h, w + 8))
    im_l = base[:, 4 : 4 + w].copy()
    im_r = base[:, 4 - shift : 4 - shift + w].copy()
    c0 = int(rng.integers(0, w - 2))
    im_r[:, c0 : c0 + 2] = rng.integers(0, 16, (h, 2))
    k = max(1, h * w // 20)
    im_r[rng.integers(0, h, k), rng.integers(0, w, k)] = rng.integers(0, 16, k)
    return im_l, im_r


def run_pipelines(rec, rng, sizes, n_images, n_pipelines):
    count = 0
    illegal = []
    for (h, w) in sizes:
        for rep in range(n_images):
            shift = int(rng.integers(-2, 3))
            im_l, im_r = gen_pair(rng, h, w, shift)
            k = (rep + h) % 3
            lay_l = None if k == 0 else random_layout(rng, h, w, 0.06)
            lay_r = None if k == 0 else (random_layout_runs(rng, h, w) if k == 1 else random_layout(rng, h, w, 0.06))
            enc = int(rng.integers(0, 2))
            disp = [(-3, 2), (-2, 2), (0, 3), (-4, -1)][int(rng.integers(0, 4))]
            window = [3, 1, 5][rep % 3] if min(h, w) >= 9 else [3, 1][rep % 2]
            measure = str(rng.choice(["sad", "census"] if window in (3, 5) else ["sad", "ssd"]))
            subpix = [1, 1, 2][int(rng.integers(0, 3))]
            mc_cfg = {"matching_cost_method": measure, "window_size": window, "subpix": subpix}
            wta = [WTA, WTA_NAN][rep % 2]
            for name, pipeline in pipelines(mc_cfg, wta)[:n_pipelines]:
                case = {"part": "pipeline", "name": name, "im_left": im_l, "im_right": im_r, "layout_left": lay_l,
                        "layout_right": lay_r, "enc": enc, "disp": [int(disp[0]), int(disp[1])], "pipeline": pipeline}
                viol, info = evaluate_pipeline(case)
                if not info["legal"]:
                    illegal.append((name, info["why"]))
                    continue
                count += 1
                rec.case(key=("pipeline", jsonable(case)), nontrivial=info["nontrivial"],
                         sample={"part": "pipeline", "name": name, "shape": [h, w], "matching_cost": mc_cfg,
                                 "steps": list(pipeline), "final_mask_values": info["final_values"]}
                         if count % 23 == 1 else None)
                record(rec, viol, case)
    return count, illegal


# ----------------------------------------------------------------------------------------------------------------------
def run(tier: str, seed: int) -> dict:
    rec = Recorder(max_violations=40)
    for name in ("pandora.matching_cost.matching_cost.AbstractMatchingCost.allocate_cost_volume",
                 "pandora.criteria.validity_mask", "pandora.criteria.allocate_left_mask",
                 "pandora.criteria.allocate_right_mask", "pandora.criteria.mask_invalid_variable_disparity_range",
                 "pandora.criteria.mask_border", "pandora.matching_cost.*.compute_cost_volume (sad, ssd, census, zncc)",
                 "pandora.matching_cost.matching_cost.AbstractMatchingCost.cv_masked",
                 "pandora.disparity.disparity.WinnerTakesAll.to_disp",
                 "pandora.check_configuration.check_pipeline_section", "pandora.state_machine.PandoraMachine.check_conf",
                 "pandora.run", "pandora.state_machine.PandoraMachine.run_prepare/run/run_exit",
                 "pandora.refinement.refinement.AbstractRefinement.subpixel_refinement (vfit, quadratic)",
                 "pandora.filter.median.MedianFilter.filter_disparity",
                 "pandora.filter.bilateral.BilateralFilter.filter_disparity",
                 "pandora.filter.median_for_intervals.MedianForIntervalsFilter.filter_disparity",
                 "pandora.validation.validation.CrossCheckingAccurate.disparity_checking",
                 "pandora.validation.interpolated_disparity.McCnnInterpolation.interpolated_disparity",
                 "pandora.validation.interpolated_disparity.SgmInterpolation.interpolated_disparity",
                 "pandora.cost_volume_confidence (ambiguity, interval_bounds).confidence_prediction"):
        rec.functions.add(name)
    rng = np.random.default_rng(seed)
    rng_sub = np.random.default_rng([seed, 4])  # own stream of the subpix x right-mask cases (the older cases keep theirs)
    STATS.clear()
    thorough = tier == "thorough"
    if thorough:
        specs = [{"kind": "left_none_x_right_all"}, {"kind": "left_all_x_right_none"},
                 {"kind": "left_few_x_right_all", "few": 1}, {"kind": "left_all_x_right_few", "few": 1},
                 {"kind": "random_pairs", "n": 60000, "seed": seed}]
        n_stack = run_chain_stacked(rec, specs, ALL_INTERVALS)
        specs_sub = [{"kind": "left_none_x_right_all"}, {"kind": "left_few_x_right_all", "few": 1},
                     {"kind": "random_pairs", "n": 30000, "seed": seed + 1}]
        n_stack_sub = run_chain_stacked(rec, specs_sub[:1], ALL_INTERVALS, subpixes=(2,))
        n_stack_sub += run_chain_stacked(rec, specs_sub[:1], ALL_INTERVALS, subpixes=(4,))
        n_stack_sub += run_chain_stacked(rec, specs_sub[1:], ALL_INTERVALS, subpixes=(2, 4))
        n_stack_sub += run_chain_stacked(rec, specs_sub[1:], ALL_INTERVALS, subpixes=(4, 2))
        n_direct = run_chain_direct(rec, rng, n_random_per_combo=30, interval_stride=1)
        n_bands = run_chain_bands(rec, rng_sub, n_intervals=20, n_grids=5)
        n_pipe, illegal = run_pipelines(rec, rng, sizes=[(8, 10), (9, 12), (10, 13), (12, 16)], n_images=10, n_pipelines=99)
    else:
        specs = [{"kind": "left_none_x_right_all"}, {"kind": "left_all_x_right_none"},
                 {"kind": "random_pairs", "n": 12000, "seed": seed}]
        n_stack = run_chain_stacked(rec, specs, ALL_INTERVALS)
        specs_sub = [{"kind": "left_none_x_right_all"}]
        n_stack_sub = run_chain_stacked(rec, specs_sub, ALL_INTERVALS, subpixes=[(2, 4), (4, 2)][seed % 2])
        n_direct = run_chain_direct(rec, rng, n_random_per_combo=1, interval_stride=1)
        n_bands = run_chain_bands(rec, rng_sub, n_intervals=2, n_grids=1)
        n_pipe, illegal = run_pipelines(rec, rng, sizes=[(8, 10), (9, 12)], n_images=2, n_pipelines=6)
    if illegal:
        raise AssertionError("harness: a pipeline of the enumeration was refused by check_pipeline_section: %r" % illegal[:3])
    bound = ("chain: (i) window 1, 1x8 rows stacked into one Nx8 image: %s, each x all 45 scalar intervals within [-4,4], "
             "invalid_disparity alternating -9999/NaN, sad/ssd, two mask encodings (%d runs); (ii) genuine 1x8 (windows 1,3), "
             "3x7 and 5x9 (windows 1,3,5) images, integer radiometry 0..11, masks over {valid,nodata,invalid} (none / all valid "
             "/ runs / random density .08,.2,.45), every scalar interval within [-4,4] + 3 per-pixel grids per image pair, "
             "measures sad/ssd/census/zncc (%d runs); (iii) subpix 2 and 4 (disparity axis oversampled) x right masks: "
             "stacked rows %s x 45 intervals with subpix %s (%d runs), and genuine %s (rows x cols x window) images whose right "
             "mask holds %s of masked-invalid / nodata pixels at least as wide as the global interval (left mask none / all "
             "valid / density .06), intervals drawn from %s or per-pixel grids inside them, each run with subpix 1, 2 and 4 "
             "(%d runs); pipelines: %d runs of up to 14 repeated-step pipelines (refinement x2/x3, "
             "filter x2, median_for_intervals x2, validation x2/x3 with none/mc-cnn/sgm filling, mixtures) on %s integer images, "
             "windows 1/3/5, subpix 1/2, invalid_disparity -9999/NaN"
             % ("; ".join("%s" % s for s in specs), n_stack, n_direct,
                "; ".join("%s" % s for s in specs_sub),
                "2 and 4 (each)" if thorough else "2 / 4 alternating with the interval index (seed parity picks the phase)",
                n_stack_sub, ", ".join("%dx%dx%d" % c for c in BAND_COMBOS), " / ".join(BAND_KINDS), BAND_INTERVALS, n_bands,
                n_pipe,
                "8x10..12x16" if thorough else "8x10, 9x12"))
    rule = ("stacked rows: layouts enumerated exhaustively (3^8 rows, fewest non-valid pixels first) or drawn with the seed; "
            "direct images and pipelines: seeded random (np.random.default_rng(seed)), small shapes first. One evaluation = "
            "one run of the real chain / one pipeline run (step-by-step + pandora.run). A chain case is distinct by its full "
            "input and non-trivial when it has a non-border pixel with a computable cost and a non-border pixel with a "
            "non-zero mask; a pipeline case is non-trivial when its final left mask takes >= 2 values on non-border pixels. "
            "All comparisons exact (integer masks; NaN-ness of costs; disparity == invalid_disparity, nan-aware). "
            "Bits 2/7 are compared only where the with-window and without-window readings of 'outside the right image' "
            "agree and the cause is not vacuous/total. With subpix 2/4 the oracle is the same (integer candidates col+d of the "
            "global interval: a fractional candidate is interpolated from its two integer neighbours, so it is in-image / "
            "non-masked / computable only if both are, and no bit changes its expected value); a violation found with "
            "subpix 2/4 is re-run with subpix 1: if it reproduces there the subpix-1 case is the witness and the class is "
            "unchanged, otherwise the witness_class gets the suffix '/only-with-subpix>1'.")
    res = rec.result(bound=bound, rule=rule)
    res["stats"] = dict(sorted(STATS.items()))
    return res


def replay(witness: dict) -> bool:
    part = witness.get("part")
    if part == "chain":
        viol, _ = evaluate_chain(witness)
        wanted = witness["witness_class"]
        if wanted.endswith(SUBPIX_ONLY):  # reproduces with the witness's subpix and not with subpix 1
            wanted = wanted[: -len(SUBPIX_ONLY)]
            if not any(v[0] == witness["clause"] and v[1] == wanted for v in viol):
                return False
            base = dict(witness)
            base["subpix"] = 1
            v1, _ = evaluate_chain(base)
            return not any(v[0] == witness["clause"] and v[1] == wanted for v in v1)
    elif part == "chain-stacked":
        im_l, im_r, lay_l, lay_r = stack_rows(witness["spec"])
        case = chain_case(im_l, im_r, lay_l, lay_r, witness["enc"], 1, witness["inv"], witness["measure"], disp=witness["disp"],
                          subpix=int(witness.get("subpix") or 1))
        viol, _ = evaluate_chain(case)
        return any(v[0] == witness["clause"] and v[1] + "/only-inside-stack" == witness["witness_class"] for v in viol)
    elif part == "pipeline":
        viol, _ = evaluate_pipeline(witness)
    else:
        return False
    return any(v[0] == witness["clause"] and v[1] == witness["witness_class"] for v in viol)
