"""Bounded stand-in for C20 -- reported margins are a pure, monotone function of the checked pipeline.

Oracle (from the property statement): after PandoraMachine.check_conf on a FRESH machine, margins.to_dict() is
    'cumulative margins'    : {name: v,v,v,v} for every matching_cost (v = half window = (w-1)/2), optimization (40),
                              aggregation / disparity / refinement (0) step, under the step's full name,
    'non-cumulative margins': {name: v,v,v,v} for every filter step: median / median_for_intervals v = filter_size*step,
                              bilateral v = min(rows, cols, int(3*sigma_space+1))*step,
    'global margins'        : per side max(sum of the cumulative ones, each non-cumulative one),
nothing else (cost_volume_confidence, semantic_segmentation, validation, multiscale bear no margin); all values >= 0;
the same with or without the second (right/left) checking round triggered by a validation step; never decreasing when a
step is appended; and what pandora.main saves under 'margins' in the output configuration.

Real code executed: PandoraMachine.check_conf and every <step>_check_conf callback, the step classes' `margins`,
pandora.margins.GlobalMargins, and pandora.main (a few complete command-line runs on a 24x32 crop).
"""
import copy
import itertools
import json
import os
import tempfile

import numpy as np

from bounded.common import Recorder
from bounded import _pipe as P

import pandora
from pandora.state_machine import PandoraMachine

SIDES = ("left", "up", "right", "down")
CUMULATIVE = ("matching_cost", "optimization", "aggregation", "disparity", "refinement")


def uniform(v):
    return {s: v for s in SIDES}


# ---------------------------------------------------------------------------------------------------------------------
# oracle
# ---------------------------------------------------------------------------------------------------------------------
def expected_margins(pipe, shape):
    """pipe: ordered {name: user cfg}; documented defaults: window_size 5, step 1, filter_size 3, sigma_space 6.0"""
    rows, cols = shape
    step = 1
    cumul, non_cumul = {}, {}
    for name, cfg in pipe.items():
        k = P.kind(name)
        if k == "matching_cost":
            step = cfg.get("step", 1)
            cumul[name] = uniform((cfg.get("window_size", 5) - 1) // 2)
        elif k == "optimization":
            cumul[name] = uniform(40)
        elif k in ("aggregation", "disparity", "refinement"):
            cumul[name] = uniform(0)
        elif k == "filter":
            if cfg["filter_method"] in ("median", "median_for_intervals"):
                non_cumul[name] = uniform(cfg.get("filter_size", 3) * step)
            else:
                non_cumul[name] = uniform(min(rows, cols, int(3 * cfg.get("sigma_space", 6.0) + 1)) * step)
    glob = {s: max([sum(m[s] for m in cumul.values())] + [m[s] for m in non_cumul.values()]) for s in SIDES}
    return {"cumulative margins": cumul, "non-cumulative margins": non_cumul, "global margins": glob}


# ---------------------------------------------------------------------------------------------------------------------
# parameter grid
# ---------------------------------------------------------------------------------------------------------------------
def variants(tier):
    if tier == "thorough":
        mc = [{"matching_cost_method": "sad"}] + [{"matching_cost_method": "sad", "window_size": w} for w in (1, 3, 7, 11)] \
             + [{"matching_cost_method": "census", "window_size": 3}, {"matching_cost_method": "zncc", "window_size": 21},
                {"matching_cost_method": "ssd", "window_size": 5, "subpix": 2}]
        steps = (1, 2, 3)
        sig = (0.3, 1.0, 2.0, 10.0)
        med = (1, 5, 11)
    else:
        mc = [{"matching_cost_method": "sad"}, {"matching_cost_method": "zncc", "window_size": 1},
              {"matching_cost_method": "census", "window_size": 3}, {"matching_cost_method": "ssd", "window_size": 11}]
        steps = (1, 2) if tier == "quick" else (1,)
        sig = (0.3, 2.0, 10.0) if tier == "quick" else (2.0,)
        med = (1, 5) if tier == "quick" else (5,)
    mcs = []
    for m in mc:
        for s in steps:
            c = dict(m)
            if s != 1:
                c["step"] = s
            mcs.append(c)
    flt = [{"filter_method": "median"}, {"filter_method": "bilateral"}, {"filter_method": "median_for_intervals"}]
    flt += [{"filter_method": "median", "filter_size": n} for n in med]
    flt += [{"filter_method": "median_for_intervals", "filter_size": 7}]
    flt += [{"filter_method": "bilateral", "sigma_space": s, "sigma_color": 3.0} for s in sig]
    out = {k: [copy.deepcopy(v[0])] for k, v in P.VALID.items()}
    out["matching_cost"], out["filter"] = mcs, flt
    out["refinement"] = copy.deepcopy(P.VALID["refinement"])
    return out


def measure(pipe, imgs, single_round=False):
    """-> ('ok', to_dict) | (exception name, message)"""
    machine = PandoraMachine()
    need_p2d = any(P.kind(n) == "matching_cost" and c.get("step", 1) != 1 for n, c in pipe.items())
    try:
        with P.fake_pandora2d(need_p2d):
            if single_round:
                machine.check_conf({"pipeline": copy.deepcopy(pipe)}, imgs[0], imgs[1], True)
            else:
                machine.check_conf({"pipeline": copy.deepcopy(pipe)}, imgs[0], imgs[1])
    except Exception as exc:  # pylint: disable=broad-except
        return type(exc).__name__, str(exc)[:100]
    return "ok", machine.margins.to_dict()


def wclass(pipe, name=None):
    if name is not None:
        c = pipe[name]
        meth = next((v for k, v in c.items() if k.endswith("_method")), "?")
        st = next((cc.get("step", 1) for n, cc in pipe.items() if P.kind(n) == "matching_cost"), 1)
        return "%s:%s%s%s" % (P.kind(name), meth, "/step>1" if st != 1 else "", "/suffixed" if "." in name else "")
    return "pipeline"


def compare(pipe, shape, got):
    """-> list of (clause, witness_class, message)"""
    exp = expected_margins(pipe, shape)
    out = []
    for sect in ("cumulative margins", "non-cumulative margins"):
        g = got.get(sect, {})
        if set(g) != set(exp[sect]):
            out.append(("C20.keys", "%s-keys" % sect.split()[0],
                        "%s lists %s, documented margin-bearing steps are %s" % (sect, sorted(g), sorted(exp[sect]))))
        for name in exp[sect]:
            if name in g and g[name] != exp[sect][name]:
                out.append(("C20.value." + P.kind(name), wclass(pipe, name),
                            "%s[%s] = %s, documented %s (cfg %s)" % (sect, name, g[name], exp[sect][name], pipe[name])))
    if set(got) != set(exp):
        out.append(("C20.keys", "sections", "to_dict() sections %s" % sorted(got)))
    # global = f(listed margins) is judged on what the machine itself lists, so that a wrong single value does not
    # also show up here
    cum, non = got.get("cumulative margins", {}), got.get("non-cumulative margins", {})
    try:
        glob = {s: max([sum(m[s] for m in cum.values())] + [m[s] for m in non.values()]) for s in SIDES}
        if got.get("global margins") != glob:
            out.append(("C20.global", "max-of-sum-and-each",
                        "global margins %s but max(sum cumulative, each non-cumulative) of the listed margins = %s"
                        % (got.get("global margins"), glob)))
    except (KeyError, TypeError) as exc:
        out.append(("C20.global", "malformed", "cannot combine listed margins: %r" % (exc,)))
    flat = [v for sect in ("cumulative margins", "non-cumulative margins") for m in got.get(sect, {}).values()
            for v in m.values()] + list(got.get("global margins", {}).values())
    if any((not isinstance(v, (int, np.integer))) or v < 0 for v in flat):
        out.append(("C20.nonneg", "negative-or-non-integer", "margins %s" % (got,)))
    return out


def evaluate(pipe, shape, imgs, prefix_global=None):
    """-> (status, got, problems)"""
    status, got = measure(pipe, imgs)
    if status != "ok":
        return status, got, [("C20.check_rejected", status,
                              "documented pipeline with in-domain parameters rejected by check_conf: %s %s (%s)"
                              % (status, got, pipe))]
    probs = compare(pipe, shape, got)
    if any(P.kind(n) == "validation" for n in pipe):
        st1, got1 = measure(pipe, imgs, single_round=True)
        if st1 != "ok" or got1 != got:
            probs.append(("C20.round2", "second-round-changes-margins",
                          "with the right/left round: %s; single round: %s" % (got, got1)))
        novalid = {n: c for n, c in pipe.items() if P.kind(n) != "validation"}
        st2, got2 = measure(novalid, imgs)
        if st2 != "ok" or got2 != got:
            probs.append(("C20.round2", "validation-step-changes-margins",
                          "with validation: %s; same pipeline without it: %s" % (got, got2)))
    if prefix_global is not None:
        if any(got["global margins"][s] < prefix_global[s] for s in SIDES):
            probs.append(("C20.mono", "append-" + P.kind(list(pipe)[-1]),
                          "global margins %s < %s of the pipeline without its last step %s"
                          % (got["global margins"], prefix_global, list(pipe)[-1])))
    return status, got, probs


# ---------------------------------------------------------------------------------------------------------------------
# saved configuration of a command-line run
# ---------------------------------------------------------------------------------------------------------------------
def saved_margins(pipe, inp, tmp):
    out_dir = tempfile.mkdtemp(dir=tmp)
    cfg_path = os.path.join(out_dir, "user_cfg.json")
    with open(cfg_path, "w") as f:
        json.dump({"input": inp, "pipeline": pipe}, f)
    pandora.main(cfg_path, os.path.join(out_dir, "out"), False)
    for root, _, files in os.walk(os.path.join(out_dir, "out")):
        if "config.json" in files:
            with open(os.path.join(root, "config.json")) as f:
                return json.load(f).get("margins")
    return None


MAIN_PIPES = [
    {"matching_cost": {"matching_cost_method": "zncc", "window_size": 7},
     "aggregation": {"aggregation_method": "cbca"},
     "disparity": {"disparity_method": "wta"},
     "refinement": {"refinement_method": "vfit"},
     "filter": {"filter_method": "bilateral", "sigma_space": 1.0},
     "validation": {"validation_method": "cross_checking_accurate"},
     "filter.1": {"filter_method": "median", "filter_size": 5}},
    {"matching_cost": {"matching_cost_method": "census", "window_size": 3},
     "disparity": {"disparity_method": "wta"}},
    {"matching_cost": {"matching_cost_method": "sad", "window_size": 11},
     "cost_volume_confidence": {"confidence_method": "ambiguity"},
     "disparity": {"disparity_method": "wta"},
     "filter": {"filter_method": "median"}},
]


def check_saved(pipe, inp, shape, tmp):
    try:
        got = saved_margins(copy.deepcopy(pipe), copy.deepcopy(inp), tmp)
    except Exception as exc:  # pylint: disable=broad-except
        return [("C20.saved", "main-crashed:" + type(exc).__name__, "pandora.main raised %r" % (exc,))]
    exp = expected_margins(pipe, shape)
    if got != exp:
        return [("C20.saved", "saved-margins-differ", "config.json margins %s, documented %s" % (got, exp))]
    return []


def run(tier, seed):
    rng = np.random.default_rng(seed)
    rec = Recorder(max_violations=40)
    for f in ("pandora.state_machine.PandoraMachine.check_conf",
              "pandora.state_machine.PandoraMachine.<step>_check_conf (10 callbacks)",
              "pandora.margins.margins.GlobalMargins.add_cumulative", "pandora.margins.margins.GlobalMargins.add_non_cumulative",
              "pandora.margins.margins.GlobalMargins.global_margins", "pandora.margins.margins.GlobalMargins.to_dict",
              "pandora.margins.margins.max_margins", "pandora.margins.margins.MarginDict.sum",
              "pandora.margins.descriptors.HalfWindowMargins.__get__", "pandora.margins.descriptors.FixedMargins.__get__",
              "pandora.filter.median.MedianFilter.margins", "pandora.filter.bilateral.BilateralFilter.margins",
              "pandora.filter.median_for_intervals.MedianForIntervalsFilter.margins", "pandora.main"):
        rec.functions.add(f)
    # (14, 10): fewer columns than rows AND than the bilateral window -- min(rows, cols, ...) must see the columns
    shapes = [(24, 32), (14, 10)] if tier != "thorough" else [(24, 32), (14, 10), (10, 14), (5, 40)]
    if tier == "smoke":
        shapes = shapes[:1]
    var = variants(tier)
    max_len = 4 if tier != "smoke" else 3
    seqs = P.accepted_kind_sequences(max_len)
    n_eval = 0
    with P.quiet(), P.stub_plugins(), tempfile.TemporaryDirectory() as tmp:
        inputs = {sh: P.write_small_images(tmp, sh) for sh in shapes}
        metas = {sh: P.metadata(inputs[sh]) for sh in shapes}
        for shape in shapes:
            imgs = metas[shape]
            globals_seen = {}
            for idx, kinds in enumerate(seqs):                   # shortest first, prefixes before extensions
                for sfx_pass in (False, True):
                    if sfx_pass:
                        # '.suffix' on every step kind but those whose callback needs the plain key (see C01 findings)
                        sfx = frozenset(i for i, k in enumerate(kinds)
                                        if k not in ("matching_cost", "optimization", "semantic_segmentation"))
                        if not sfx or (seed + idx) % 3 != 0:
                            continue
                    else:
                        sfx = frozenset()
                    names = P.names_for(kinds, suffixed=sfx)
                    choice_lists = [range(len(var[k])) for k in kinds]
                    for choice in itertools.product(*choice_lists):
                        pipe = {n: copy.deepcopy(var[k][c]) for n, k, c in zip(names, kinds, choice)}
                        step = pipe[names[0]].get("step", 1) if names else 1
                        if step != 1 and "optimization" in kinds:
                            continue          # documented: the optimization step only accepts step == 1
                        key = (shape, tuple(names), tuple(choice))
                        prefix = globals_seen.get((tuple(names[:-1]), tuple(choice[:-1]))) if names else None
                        status, got, probs = evaluate(pipe, shape, imgs, prefix)
                        n_eval += 1
                        if status == "ok":
                            globals_seen[(tuple(names), tuple(choice))] = got["global margins"]
                        rec.case(key=key, nontrivial=status == "ok" and len(names) >= 1,
                                 sample={"shape": shape, "pipeline": pipe, "margins": got}
                                 if len(names) == 4 and "filter" in kinds and step != 1 else None)
                        for clause, wcl, msg in probs:
                            rec.violation(clause=clause, witness_class=wcl, message=msg,
                                          witness={"part": "check", "shape": list(shape), "pipeline": pipe,
                                                   "clause": clause})
        # what the command-line run saves
        n_main = 1 if tier != "thorough" else len(MAIN_PIPES)
        for pipe in MAIN_PIPES[:n_main]:
            shape = shapes[0]
            probs = check_saved(pipe, inputs[shape], shape, tmp)
            rec.case(key=("main", json.dumps(pipe, sort_keys=True)), nontrivial=True,
                     sample={"part": "main", "pipeline": pipe})
            for clause, wcl, msg in probs:
                rec.violation(clause=clause, witness_class=wcl, message=msg,
                              witness={"part": "main", "shape": list(shape), "pipeline": pipe, "clause": clause})
    del rng
    return rec.result(
        bound="all %d documented paths of length <= %d over the 10 step kinds (optimization/semantic_segmentation via "
              "harness-side identity plug-ins) x parameter grid {matching_cost: %d (method, window_size, step) "
              "variants; filter: %d variants (median / median_for_intervals sizes, bilateral sigma_space); 2 refinement "
              "methods} x image shapes %s, each on a fresh PandoraMachine; a third of the paths also with '.suffix' "
              "step names; %d command-line run(s) pandora.main on the 24x32 crop"
              % (len(seqs), max_len, len(var["matching_cost"]), len(var["filter"]), shapes, n_main),
        rule="cartesian product of the per-step variants, paths in order of length so that every pipeline's prefix was "
             "measured before it (monotonicity compares with the same pipeline minus its last step); step values != 1 "
             "are made reachable by a dummy 'pandora2d' entry in sys.modules (documented reservation) and skipped when "
             "an optimization step is present; a case is (shape, step names, variant choice); non-trivial = accepted "
             "and at least one step.  Exact integer comparison of margins.to_dict() with the oracle; the "
             "validation round is judged by comparing with right_left_img_check=True and with the validation steps "
             "removed.")


def replay(witness):
    clause = witness["clause"]
    shape = tuple(witness["shape"])
    pipe = witness["pipeline"]
    with P.quiet(), P.stub_plugins(), tempfile.TemporaryDirectory() as tmp:
        inp = P.write_small_images(tmp, shape)
        if witness["part"] == "main":
            return any(c == clause for c, _, _ in check_saved(pipe, inp, shape, tmp))
        imgs = P.metadata(inp)
        prefix = None
        if clause == "C20.mono":
            names = list(pipe)
            st, got = measure({n: pipe[n] for n in names[:-1]}, imgs)
            prefix = got["global margins"] if st == "ok" else None
        _, _, probs = evaluate(pipe, shape, imgs, prefix)
        return any(c == clause for c, _, _ in probs)
