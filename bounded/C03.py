"""Bounded stand-in for C03 -- winner-takes-all (`disparity.AbstractDisparity(**cfg).to_disp(cv)`).

Oracle (written from the property statement, not from the code): for every pixel scan its costs in increasing
disparity order, skip NaN ("not computable"), keep the first strictly better cost (strictly smaller for a
"min" measure, strictly larger for a "max" measure): ties therefore go to the lowest disparity.  A pixel without
any computable cost must receive exactly `invalid_disparity` (NaN-aware).  Frame clauses: the cost volume values,
the validity mask and the confidence measure are compared with deep copies taken before the call.
`argmin_split` / `argmax_split` are also called directly on NaN-free volumes (first extremum of every pixel,
whatever the position of the pixel w.r.t. the internal 100-pixel blocks).

Long disparity axes (ndisp in {127,128,129,255,256,257,300,513,1000}, steps 1, 1/2, 1/4) are exercised on small
images (1x1, 2x3, 3x101, 101x2) with volumes built so that the winner of most pixels sits at a HIGH sample index
(>= 128, >= 256, the last one), with ties placed above the winner and near misses placed 256 samples below it
(an index stored on 8 bits would alias there), for min- and max-type measures, with and without NaNs.

All costs are small integers (|c| <= 2000) stored as float32 and all disparity coordinates are multiples of 0.25
(|d| <= 1000), so every comparison is exact.
"""
import hashlib
import itertools
import math

import numpy as np
import xarray as xr

from bounded.common import Recorder, same

SIZES = [1, 2, 3, 99, 100, 101, 199, 200, 201]
NDISP = [1, 2, 5]
MEASURES = ["min", "max"]
INVALIDS = [-9999, 0, "NaN"]  # "NaN" is the documented way to ask for a NaN invalid disparity
CONTENTS = ["ties", "wide", "sparse", "signed"]
PATTERNS = ["none", "random", "allnan_pixels", "interval", "block_lines", "mostly_nan"]
DISP_KINDS = ["int", "half", "quarter"]
# long disparity axes (the index of the winner does not fit in 7 / 8 bits)
LONG_NDISP = [127, 128, 129, 255, 256, 257, 300, 513, 1000]
LONG_SHAPES = [(2, 3), (3, 101), (1, 1), (101, 2)]
LONG_CONTENTS = ["last", "high", "alias_tie", "ramp", "high_interval"]
LONG_NANS = ["none", "random", "allnan_pixels"]
LONG_MARKS = [127, 128, 129, 200, 254, 255, 256, 257, 258, 299, 300, 383, 384, 511, 512, 513, 767, 768, 999]

FUNCTIONS = [
    "pandora.disparity.disparity.AbstractDisparity.__new__",
    "pandora.disparity.disparity.WinnerTakesAll.__init__",
    "pandora.disparity.disparity.WinnerTakesAll.check_conf",
    "pandora.disparity.disparity.WinnerTakesAll.to_disp",
    "pandora.disparity.disparity.WinnerTakesAll.argmin_split",
    "pandora.disparity.disparity.WinnerTakesAll.argmax_split",
    "pandora.disparity.disparity.extract_disparity_interval_from_cost_volume",
]


# ----------------------------------------------------------------------------------------------- case generation
def _disp_coords(kind, nd, dmin):
    step = {"int": 1.0, "half": 0.5, "quarter": 0.25}[kind]
    coords = dmin + step * np.arange(nd)
    if kind == "int":
        return coords.astype(np.int64)
    return coords.astype(np.float64)


def gen_volume(p):
    """Deterministic cost volume (float32, integer valued, NaN = not computable) from the parameter dict `p`."""
    if "explicit" in p:  # exhaustive tiny cases: the cells are written in the parameters
        h, w, nd = p["h"], p["w"], p["nd"]
        return np.array([np.nan if v is None else float(v) for v in p["explicit"]], dtype=np.float32).reshape(h, w, nd)
    if "long" in p:
        return gen_long_volume(p)
    h, w, nd = p["h"], p["w"], p["nd"]
    rng = np.random.default_rng([p["seed"], h, w, nd, CONTENTS.index(p["content"]), PATTERNS.index(p["pattern"]),
                                 p.get("rep", 0)])
    content = p["content"]
    if content == "ties":
        vol = rng.integers(0, 3, size=(h, w, nd))
    elif content == "wide":
        vol = rng.integers(0, 1000, size=(h, w, nd))
    elif content == "sparse":
        vol = np.full((h, w, nd), 5)
        sel = rng.random((h, w, nd)) < 0.05
        vol[sel] = rng.integers(0, 10, size=int(sel.sum()))
    else:  # signed (similarity-like measures may be negative)
        vol = rng.integers(-4, 5, size=(h, w, nd))
    vol = vol.astype(np.float32)
    pattern = p["pattern"]
    if pattern == "random":
        vol[rng.random((h, w, nd)) < 0.3] = np.nan
    elif pattern == "allnan_pixels":
        vol[rng.random((h, w, nd)) < 0.15] = np.nan
        vol[rng.random((h, w)) < 0.1, :] = np.nan
    elif pattern == "interval":  # per-pixel [lo, hi] interval of computable costs, some pixels empty
        lo = rng.integers(0, nd + 1, size=(h, w))
        hi = rng.integers(-1, nd, size=(h, w))
        k = np.arange(nd)[None, None, :]
        vol[(k < lo[:, :, None]) | (k > hi[:, :, None])] = np.nan
    elif pattern == "block_lines":  # all-NaN rows / columns next to the internal block borders, NaN elsewhere too
        for r in (0, 98, 99, 100, 101, 199, 200):
            if r < h and rng.random() < 0.6:
                vol[r, :, :] = np.nan
        for c in (0, 98, 99, 100, 101, 199, 200):
            if c < w and rng.random() < 0.6:
                vol[:, c, :] = np.nan
        vol[rng.random((h, w, nd)) < 0.1] = np.nan
    elif pattern == "mostly_nan":
        vol[rng.random((h, w, nd)) < 0.85] = np.nan
    return vol


def gen_long_volume(p):
    """Long disparity axis: the best cost of (nearly) every pixel is placed at a high sample index.

    The volume is first built as a cost ("min" orientation: best = smallest, integers in 0..1010), the NaN pattern
    `p["nan"]` is applied without ever hiding the designated winner, and for a "max" measure the values are mirrored
    (2000 - c), so that the same cell is the best one for both types of measure.  The random draws of the content do
    not depend on the NaN pattern (check_split relies on it).
    """
    h, w, nd = p["h"], p["w"], p["nd"]
    content, nan = p["long"], p["nan"]
    rng = np.random.default_rng([p["seed"], h, w, nd, 4242, LONG_CONTENTS.index(content), p.get("rep", 0)])
    rng_nan = np.random.default_rng([p["seed"], h, w, nd, 4243, LONG_NANS.index(nan), p.get("rep", 0)])
    k = np.arange(nd)[None, None, :]
    keep = np.zeros((h, w, nd), dtype=bool)  # cells that the NaN pattern must leave computable
    dead = np.zeros((h, w, nd), dtype=bool)  # cells that are not computable by construction
    if content in ("last", "high", "alias_tie"):
        vol = rng.integers(10, 1000, size=(h, w, nd))
        lo = min(128, nd // 2)
        kstar = rng.integers(lo, nd, size=(h, w))
        marks = np.array([m for m in LONG_MARKS if m < nd] + [nd - 1, nd - 2], dtype=np.int64)
        pick = rng.random((h, w))
        if content == "last":
            kstar[pick < 0.7] = nd - 1
        else:
            sel = pick < 0.6
            kstar[sel] = rng.choice(marks, size=int(sel.sum()))
        best = rng.integers(0, 9, size=(h, w))
        rows, cols = np.meshgrid(np.arange(h), np.arange(w), indexing="ij")
        vol[rows, cols, kstar] = best
        keep[rows, cols, kstar] = True
        if content == "alias_tie":
            # an equal cost above the winner (tie -> lowest disparity) and near misses 256 / 128 samples below it
            above = np.minimum(kstar + rng.integers(1, 260, size=(h, w)), nd - 1)
            tie = above > kstar
            vol[rows[tie], cols[tie], above[tie]] = best[tie]
            for gap in (256, 128):
                under = kstar - gap
                ok = under >= 0
                vol[rows[ok], cols[ok], under[ok]] = best[ok] + 1
    elif content == "ramp":
        # strictly improving along the disparity axis, then a plateau of t + 1 equal best costs at the very end
        t = rng.integers(0, 4, size=(h, w))
        vol = np.maximum(nd - k, t[:, :, None]) + 5
        vol = np.broadcast_to(vol, (h, w, nd)).copy()
        keep[:, :, nd - 4:] = True
    else:  # high_interval: only a high interval of disparities is computable, ties inside it
        vol = rng.integers(0, 3, size=(h, w, nd))
        lo = rng.integers(min(128, nd // 2), nd, size=(h, w))
        hi = np.minimum(lo + rng.integers(0, 300, size=(h, w)), nd - 1)
        dead = (k < lo[:, :, None]) | (k > hi[:, :, None])
    vol = vol.astype(np.float32)
    if p["measure"] == "max":
        vol = (2000 - vol).astype(np.float32)
    if nan == "random":
        dead = dead | ((rng_nan.random((h, w, nd)) < 0.3) & ~keep)
    elif nan == "allnan_pixels":
        dead = dead | ((rng_nan.random((h, w, nd)) < 0.15) & ~keep)
        dead[rng_nan.random((h, w)) < 0.2, :] = True
    vol[dead] = np.nan
    return vol


def gen_aux(p):
    """validity mask (uint16) and, optionally, confidence measure of the cost volume dataset"""
    h, w = p["h"], p["w"]
    rng = np.random.default_rng([p["seed"], h, w, p["nd"], 977, p.get("rep", 0)])
    mask = rng.integers(0, 1 << 11, size=(h, w)).astype(np.uint16)
    mask[rng.random((h, w)) < 0.5] = 0
    conf = None
    if p.get("conf", True):
        conf = rng.integers(-3, 4, size=(h, w, 2)).astype(np.float32)
        conf[rng.random((h, w, 2)) < 0.2] = np.nan
    return mask, conf


def build_cv(p, vol=None):
    vol = gen_volume(p) if vol is None else vol
    h, w, nd = vol.shape
    mask, conf = gen_aux(p)
    coords = _disp_coords(p.get("disp_kind", "int"), nd, p.get("dmin", 0))
    row0, col0 = p.get("row0", 0), p.get("col0", 0)
    data_vars = {"cost_volume": (["row", "col", "disp"], vol.copy()),
                 "validity_mask": (["row", "col"], mask.copy())}
    coords_d = {"row": np.arange(row0, row0 + h), "col": np.arange(col0, col0 + w), "disp": coords}
    if conf is not None:
        data_vars["confidence_measure"] = (["row", "col", "indicator"], conf.copy())
        coords_d["indicator"] = ["confidence_from_ambiguity", "confidence_from_left_right_consistency"]
    cv = xr.Dataset(data_vars, coords=coords_d,
                    attrs={"measure": "sad" if p["measure"] == "min" else "zncc", "subpixel": 1, "offset_row_col": 0,
                           "window_size": 1, "type_measure": p["measure"], "cmax": 1000, "band_correl": None,
                           "crs": None, "transform": None, "disparity_source": [int(coords[0]), int(coords[-1])]})
    return cv, vol, mask, conf, coords


def _inv_value(inv):
    return float("nan") if inv == "NaN" else float(inv)


# --------------------------------------------------------------------------------------------------------- oracle
def naive_wta(vol, coords, measure, inv, winners=None):
    """Per-pixel loop straight from the statement.  Returns (expected map as nested list, #ties, #allnan, #nonzero).
    `winners` (optional list) receives the sample index of the winner of every pixel that has one (statistics)."""
    cells = vol.tolist()
    coords = [float(c) for c in coords]
    is_max = measure == "max"
    exp = []
    n_tie = n_allnan = n_nonfirst = 0
    isnan = math.isnan
    for row in cells:
        erow = []
        for costs in row:
            best_k = -1
            best_c = 0.0
            tie = False
            for k, c in enumerate(costs):
                if isnan(c):
                    continue
                if best_k < 0:
                    best_k, best_c = k, c
                elif (c > best_c) if is_max else (c < best_c):
                    best_k, best_c, tie = k, c, False
                elif c == best_c:
                    tie = True
            if best_k < 0:
                erow.append(inv)
                n_allnan += 1
            else:
                erow.append(coords[best_k])
                n_tie += tie
                n_nonfirst += best_k > 0
                if winners is not None:
                    winners.append(best_k)
        exp.append(erow)
    return exp, n_tie, n_allnan, n_nonfirst


def _index_class(coords, value):
    """suffix of the witness class telling how far on the disparity axis the expected winner sits"""
    ks = [k for k in range(len(coords)) if float(coords[k]) == float(value)]
    if not ks or ks[0] < 128:
        return ""
    return "-expected-index>=256" if ks[0] >= 256 else "-expected-index>=128"


def _pixel_text(costs, coords, got, exp):
    """description of a failing pixel (the whole cost list only when the axis is short)"""
    coords = [float(c) for c in coords]
    if len(coords) <= 16:
        return "costs %s, disparities %s" % (costs.tolist(), coords)

    def cell(value):
        ks = [k for k in range(len(coords)) if coords[k] == value]
        return "no sample" if not ks else "sample %d (cost %r)" % (ks[0], float(costs[ks[0]]))
    return ("%d disparities %r..%r step %r, got = %s, expected = %s"
            % (len(coords), coords[0], coords[-1], coords[1] - coords[0], cell(got), cell(exp)))


LAST_WINNERS = []  # sample indices of the winners of the last checked case (statistics of the long-axis cases)


def check_case(p):
    """Run the real to_disp on the case `p`; returns (list of (clause, witness_class, message, extra), stats)."""
    from pandora import disparity

    found = []
    del LAST_WINNERS[:]
    cv, vol, mask, conf, coords = build_cv(p)
    inv = _inv_value(p["invalid"])
    plugin = disparity.AbstractDisparity(**{"disparity_method": "wta", "invalid_disparity": p["invalid"]})
    try:
        out = plugin.to_disp(cv)
    except Exception as exc:  # the step must work for every cost volume of the quantifier
        found.append(("C03.todisp.runs", "exception-" + type(exc).__name__, "to_disp raised %r" % (exc,), {}))
        return found, (0, 0, 0)
    exp, n_tie, n_allnan, n_nonfirst = naive_wta(vol, coords, p["measure"], inv, LAST_WINNERS)
    exp = np.array(exp, dtype=np.float64).reshape(vol.shape[:2])
    got = np.asarray(out["disparity_map"].data)
    if got.shape != exp.shape:
        found.append(("C03.todisp.shape", "shape", "disparity map shape %s != %s" % (got.shape, exp.shape), {}))
        return found, (n_tie, n_allnan, n_nonfirst)
    got64 = got.astype(np.float64)
    bad = ~((got64 == exp) | (np.isnan(got64) & np.isnan(exp)))
    if bad.any():
        allnan = np.isnan(vol).all(axis=2)
        for clause, sel in (("C03.todisp.invalid_disparity", bad & allnan), ("C03.todisp.best_cost", bad & ~allnan)):
            if sel.any():
                y, x = [int(v) for v in np.argwhere(sel)[0]]
                where = "beyond-first-block" if (y >= 100 or x >= 100) else "first-block"
                if clause.endswith("invalid_disparity"):
                    wclass = "all-nan-pixel-inv-%s-%s" % (p["invalid"], where)
                else:
                    costs = vol[y, x]
                    fin = costs[~np.isnan(costs)]
                    ext = fin.max() if p["measure"] == "max" else fin.min()
                    ks = [k for k in range(len(coords)) if float(coords[k]) == got64[y, x]]
                    if not ks:
                        kind = "not-a-sampled-disparity"
                    elif np.isnan(costs[ks[0]]) or costs[ks[0]] != ext:
                        kind = "not-the-best-cost"
                    else:
                        kind = "tie-not-lowest-disparity"
                    wclass = "%s-%s-%s%s" % (kind, p["measure"], where, _index_class(coords, exp[y, x]))
                found.append((clause, wclass,
                              "pixel (%d,%d): %s, measure %s: got %r, expected %r (%d pixels differ)"
                              % (y, x, _pixel_text(vol[y, x], coords, float(got64[y, x]), float(exp[y, x])),
                                 p["measure"], float(got64[y, x]), float(exp[y, x]), int(bad.sum())),
                              {"pixel": [y, x]}))
    # frame: cost volume values unchanged
    after = np.asarray(cv["cost_volume"].data)
    if not same(after, vol):
        d = ~((after == vol) | (np.isnan(after) & np.isnan(vol)))
        y, x, k = [int(v) for v in np.argwhere(d)[0]]
        found.append(("C03.frame.cost_volume", "cost-volume-cell-changed",
                      "cost_volume[%d,%d,%d] was %r, is %r after to_disp" % (y, x, k, float(vol[y, x, k]),
                                                                            float(after[y, x, k])), {"cell": [y, x, k]}))
    # frame: validity flags carried over unaltered
    if "validity_mask" not in out or not same(np.asarray(out["validity_mask"].data), mask):
        found.append(("C03.frame.validity_mask", "validity-mask-differs",
                      "validity_mask of the disparity dataset differs from the cost volume's", {}))
    if not same(np.asarray(cv["validity_mask"].data), mask):
        found.append(("C03.frame.validity_mask", "cv-validity-mask-changed",
                      "validity_mask of the cost volume was modified by to_disp", {}))
    # frame: confidence bands carried over unaltered
    if conf is not None:
        if "confidence_measure" not in out or not same(np.asarray(out["confidence_measure"].data), conf):
            found.append(("C03.frame.confidence_measure", "confidence-differs",
                          "confidence_measure of the disparity dataset differs from the cost volume's", {}))
        elif list(out["confidence_measure"].coords["indicator"].data) != list(cv.coords["indicator"].data):
            found.append(("C03.frame.confidence_measure", "indicator-names-differ",
                          "indicator names of confidence_measure changed", {}))
        if not same(np.asarray(cv["confidence_measure"].data), conf):
            found.append(("C03.frame.confidence_measure", "cv-confidence-changed",
                          "confidence_measure of the cost volume was modified by to_disp", {}))
    return found, (n_tie, n_allnan, n_nonfirst)


def check_split(p):
    """argmin_split / argmax_split directly (NaN-free volume): first extremum of every pixel."""
    from pandora import disparity

    found = []
    del LAST_WINNERS[:]
    q = dict(p)
    q["pattern"] = "none"
    if "long" in p:
        q["nan"] = "none"
    cv, vol, _, _, coords = build_cv(q)
    if p.get("split_inf", False) or np.isnan(vol).any():
        # the way to_disp calls it: "not computable" replaced by +/-inf (the "high_interval" long-axis volumes are
        # never NaN-free, so they are always passed that way)
        nanvol = gen_volume(p) if p.get("split_inf", False) else vol
        vol = np.where(np.isnan(nanvol), -np.inf if p["measure"] == "max" else np.inf, nanvol).astype(np.float32)
        cv["cost_volume"].data[:] = vol
    plugin = disparity.AbstractDisparity(**{"disparity_method": "wta", "invalid_disparity": 0})
    fun = plugin.argmax_split if p["measure"] == "max" else plugin.argmin_split
    name = "argmax_split" if p["measure"] == "max" else "argmin_split"
    try:
        got = np.asarray(fun(cv))
    except Exception as exc:
        return [("C03.split.runs", "exception-" + type(exc).__name__, "%s raised %r" % (name, exc), {})], (0, 0, 0)
    # naive: +/-inf are ordinary extended reals here, so reuse the scan with no NaN present
    exp, n_tie, _, n_nonfirst = naive_wta(vol, coords, p["measure"], 0.0, LAST_WINNERS)
    exp = np.array(exp, dtype=np.float64).reshape(vol.shape[:2])
    if got.shape != exp.shape or not np.array_equal(got.astype(np.float64), exp):
        if got.shape != exp.shape:
            msg, extra, where = "shape %s != %s" % (got.shape, exp.shape), {}, "shape"
        else:
            y, x = [int(v) for v in np.argwhere(got.astype(np.float64) != exp)[0]]
            where = "beyond-first-block" if (y >= 100 or x >= 100) else "first-block"
            where += _index_class(coords, exp[y, x])
            msg = "%s pixel (%d,%d): %s -> %r, expected %r" % (
                name, y, x, _pixel_text(vol[y, x], coords, float(got[y, x]), float(exp[y, x])), float(got[y, x]),
                float(exp[y, x]))
            extra = {"pixel": [y, x]}
        found.append(("C03.split." + name, where, msg, extra))
    if not same(np.asarray(cv["cost_volume"].data), vol):
        found.append(("C03.split.frame", name + "-modifies-cost-volume", "%s modified the cost volume" % name, {}))
    return found, (n_tie, 0, n_nonfirst)


# ---------------------------------------------------------------------------------------------------- enumeration
def tiny_cases():
    """Small-scope exhaustive: every volume with <= 4 cells over {NaN, 0, 1}, every measure, every invalid value."""
    shapes = [(1, 1, 1), (1, 1, 2), (1, 2, 1), (2, 1, 1), (1, 2, 2), (2, 1, 2), (2, 2, 1)]
    for (h, w, nd) in shapes:
        for cells in itertools.product([None, 0, 1], repeat=h * w * nd):
            for measure in MEASURES:
                for inv in INVALIDS:
                    yield {"h": h, "w": w, "nd": nd, "explicit": list(cells), "measure": measure, "invalid": inv,
                           "seed": 0, "conf": True, "disp_kind": "int", "dmin": -1}
    # one pixel, 5 disparities over {NaN, 0, 1}: every tie / NaN arrangement of a single pixel
    for cells in itertools.product([None, 0, 1], repeat=5):
        for measure in MEASURES:
            yield {"h": 1, "w": 1, "nd": 5, "explicit": list(cells), "measure": measure, "invalid": "NaN",
                   "seed": 0, "conf": False, "disp_kind": "half", "dmin": -2}


def random_cases(tier, seed):
    rng = np.random.default_rng([seed, 3])
    pairs = [(h, w) for h in SIZES for w in SIZES]
    if tier == "quick":
        reps = 1
        combos = None
    else:
        reps = 2
        combos = [(nd, m, inv) for nd in NDISP for m in MEASURES for inv in INVALIDS]
    for rep in range(reps):
        for (h, w) in pairs:
            if combos is None:
                todo = [(int(rng.choice(NDISP)), str(rng.choice(MEASURES)), INVALIDS[int(rng.integers(3))])
                        for _ in range(2)]
            else:
                todo = combos
            for (nd, measure, inv) in todo:
                yield {"h": h, "w": w, "nd": nd, "measure": measure, "invalid": inv, "seed": seed, "rep": rep,
                       "content": CONTENTS[int(rng.integers(len(CONTENTS)))],
                       "pattern": PATTERNS[int(rng.integers(len(PATTERNS)))],
                       "disp_kind": DISP_KINDS[int(rng.integers(3))], "dmin": int(rng.integers(-4, 3)),
                       "row0": int(rng.integers(0, 3)), "col0": int(rng.integers(0, 3)),
                       "conf": bool(rng.random() < 0.7)}


def split_cases(tier, seed):
    rng = np.random.default_rng([seed, 5])
    pairs = [(h, w) for h in SIZES for w in SIZES]
    for (h, w) in pairs:
        for measure in MEASURES:
            nds = NDISP if tier != "quick" else [int(rng.choice(NDISP))]
            for nd in nds:
                yield {"h": h, "w": w, "nd": nd, "measure": measure, "invalid": 0, "seed": seed, "rep": 7,
                       "content": CONTENTS[int(rng.integers(len(CONTENTS)))],
                       "pattern": PATTERNS[int(rng.integers(len(PATTERNS)))], "split_inf": bool(rng.random() < 0.5),
                       "disp_kind": DISP_KINDS[int(rng.integers(3))], "dmin": int(rng.integers(-4, 3)), "conf": False}


def _long_params(rng, seed, nd, measure, content, nan, disp_kind, shape, rep_):
    h, w = shape
    step = {"int": 1, "half": 2, "quarter": 4}[disp_kind]
    # first disparity: 0, slightly negative, or such that the axis straddles 0 (integer valued in every case)
    dmin = [0, -3, -(nd // (2 * step))][int(rng.integers(3))]
    return {"h": h, "w": w, "nd": nd, "measure": measure, "invalid": INVALIDS[int(rng.integers(3))], "seed": seed,
            "rep": rep_, "long": content, "nan": nan, "disp_kind": disp_kind, "dmin": dmin,
            "row0": int(rng.integers(0, 3)), "col0": int(rng.integers(0, 3)), "conf": bool(rng.random() < 0.5)}


def long_cases(tier, seed):
    """to_disp on long disparity axes.  quick: every ndisp x measure, 2 volumes (one NaN-free, one with NaNs), the
    content kind / disparity step / shape cycling with (ndisp, measure, seed) so that every kind and every step is met
    for every ndisp class; thorough: the full product ndisp x measure x content x NaN pattern x disparity step."""
    rng = np.random.default_rng([seed, 11])
    if tier == "quick":
        for i, nd in enumerate(LONG_NDISP):
            for j, measure in enumerate(MEASURES):
                for r, nan in enumerate(("none", LONG_NANS[1 + (i + j + seed) % 2])):
                    n = 2 * i + j + 3 * r + seed
                    yield _long_params(rng, seed, nd, measure, LONG_CONTENTS[n % len(LONG_CONTENTS)], nan,
                                       DISP_KINDS[(i + j + r + seed) % 3], LONG_SHAPES[(i + r) % 2], 20 + r)
    else:
        for nd in LONG_NDISP:
            for measure in MEASURES:
                for content in LONG_CONTENTS:
                    for nan in LONG_NANS:
                        for disp_kind in DISP_KINDS:
                            shape = LONG_SHAPES[int(rng.integers(len(LONG_SHAPES)))]
                            yield _long_params(rng, seed, nd, measure, content, nan, disp_kind, shape, 20)


def long_split_cases(tier, seed):
    """argmin_split / argmax_split directly on long disparity axes (NaN-free, or NaN replaced by +/-inf)"""
    rng = np.random.default_rng([seed, 13])
    for i, nd in enumerate(LONG_NDISP):
        for j, measure in enumerate(MEASURES):
            contents = LONG_CONTENTS if tier != "quick" else [LONG_CONTENTS[(i + 2 * j + seed + 1) % len(LONG_CONTENTS)]]
            for content in contents:
                for split_inf in ((False, True) if tier != "quick" else (bool((i + j + seed) % 2),)):
                    p = _long_params(rng, seed, nd, measure, content, LONG_NANS[1 + int(rng.integers(2))],
                                     DISP_KINDS[int(rng.integers(3))], LONG_SHAPES[int(rng.integers(2))], 27)
                    p.update({"invalid": 0, "conf": False, "split_inf": split_inf})
                    yield p


def _key(p, kind):
    vol = gen_volume(p)
    return (kind, p["h"], p["w"], p["nd"], p["measure"], str(p["invalid"]), p.get("disp_kind"), p.get("dmin"),
            hashlib.sha1(np.nan_to_num(vol, nan=-12345.0).tobytes()).hexdigest())


def _witness(p, kind, extra):
    wit = {"kind": kind, "params": p}
    wit.update(extra)
    if p["h"] * p["w"] * p["nd"] <= 64:
        wit["cost_volume"] = gen_volume(p)
        wit["disp"] = [float(c) for c in _disp_coords(p.get("disp_kind", "int"), p["nd"], p.get("dmin", 0))]
    return wit


def run(tier: str, seed: int) -> dict:
    rec = Recorder()
    rec.functions.update(FUNCTIONS)
    # the long-axis cases come right after the exhaustive tiny ones (they are cheap and their witnesses are small images)
    streams = (("to_disp", tiny_cases(), check_case), ("to_disp", long_cases(tier, seed), check_case),
               ("split", long_split_cases(tier, seed), check_split),
               ("to_disp", random_cases(tier, seed), check_case), ("split", split_cases(tier, seed), check_split))
    n_long = n_long128 = n_long256 = n_long_last = 0
    pix128 = pix256 = 0
    long_sampled = 0
    for kind, cases, checker in streams:
        for p in cases:
            found, (n_tie, n_allnan, n_nonfirst) = checker(p)
            nontrivial = (n_tie + n_allnan + n_nonfirst) > 0
            sample = None
            if "long" in p:
                w128 = sum(1 for k in LAST_WINNERS if k >= 128)
                w256 = sum(1 for k in LAST_WINNERS if k >= 256)
                wlast = sum(1 for k in LAST_WINNERS if k == p["nd"] - 1)
                n_long += 1
                n_long128 += w128 > 0
                n_long256 += w256 > 0
                n_long_last += wlast > 0
                pix128 += w128
                pix256 += w256
                if long_sampled < 2 and p["nd"] >= 256 and w256 > 0:
                    long_sampled += 1
                    sample = {"kind": kind, "params": p, "ties": n_tie, "all_nan_pixels": n_allnan,
                              "pixels": p["h"] * p["w"], "winner_index>=128": w128, "winner_index>=256": w256,
                              "winner_is_last_sample": wlast}
            elif "explicit" not in p or rec.evaluations == 100:
                sample = {"kind": kind, "params": p, "ties": n_tie, "all_nan_pixels": n_allnan,
                          "winner_not_first": n_nonfirst}
            rec.case(key=_key(p, kind), nontrivial=nontrivial, sample=sample)
            for clause, wclass, message, extra in found:
                rec.violation(clause=clause, witness_class=wclass, message=message,
                              witness=_witness(p, kind, dict(extra, clause=clause)))
    bound = ("to_disp: (a) exhaustive: every cost volume with <= 4 cells (shapes 1x1x1,1x1x2,1x2x1,2x1x1,1x2x2,2x1x2,"
             "2x2x1) and every 1x1x5 volume over cell values {NaN,0,1} x measure {min,max} x invalid_disparity "
             "{-9999,0,NaN}; (b) seeded random: every (rows, cols) in {1,2,3,99,100,101,199,200,201}^2 x "
             + ("2 random (ndisp in {1,2,5}, measure, invalid_disparity) draws" if tier == "quick" else
                "every ndisp in {1,2,5} x measure {min,max} x invalid_disparity {-9999,0,NaN}, 2 random volumes each")
             + ", integer costs (content kinds ties/wide/sparse/signed), NaN patterns none/random/all-NaN pixels/"
             "per-pixel interval/all-NaN lines at the block borders/85% NaN, disparity grids with step 1, 0.5, 0.25, "
             "with and without confidence_measure; (c) argmin_split/argmax_split directly on every (rows, cols) pair "
             "(NaN-free or +/-inf-substituted volumes); (d) long disparity axes: ndisp in {127,128,129,255,256,257,300,"
             "513,1000} x measure {min,max} on 2x3 / 3x101 (thorough: also 1x1, 101x2) images, disparity step 1, 0.5, "
             "0.25, first disparity 0 / -3 / axis centred on 0, volumes with the best cost at a high sample index "
             "(kinds: last sample; random index >= 128 or a mark around 128/256/512/768/last; the same with an equal "
             "cost above the winner and near misses 256 and 128 samples below; monotone ramp with a final plateau; only a "
             "high interval computable with ties inside), NaN patterns none / 30% / 15% + all-NaN pixels: "
             + ("2 volumes per (ndisp, measure) for to_disp and 1 for argmin_split/argmax_split"
                if tier == "quick" else "every (ndisp, measure, kind, NaN pattern, step) for to_disp and every (ndisp, "
                "measure, kind) x {NaN-free, +/-inf-substituted} for argmin_split/argmax_split")
             + " [%d long-axis cases: %d with a winner at sample index >= 128, %d at index >= 256, %d at the last "
             "sample; %d pixels with a winner index >= 128, %d with >= 256]. No +/-inf cost in (a),(b),(d: to_disp)."
             % (n_long, n_long128, n_long256, n_long_last, pix128, pix256))
    rule = ("Each case = one cost volume dataset + configuration; the real to_disp output is compared cell by cell "
            "with a per-pixel scan (first strictly better non-NaN cost in increasing disparity order; "
            "invalid_disparity when none), exact NaN-aware equality; cost volume / validity_mask / confidence_measure "
            "compared with copies taken before the call.  Distinct = distinct (shape, measure, invalid value, "
            "disparity grid, sha1 of the volume).  Non-trivial = the volume has at least one pixel with a tie for the "
            "best cost, or an all-NaN pixel, or a winner that is not the first disparity.")
    return rec.result(bound=bound, rule=rule)


def replay(witness: dict) -> bool:
    p = witness["params"]
    if "long" in p:  # json turned nothing into something else here, but be explicit about the integer fields
        p = dict(p, h=int(p["h"]), w=int(p["w"]), nd=int(p["nd"]), seed=int(p["seed"]), dmin=int(p["dmin"]))
    checker = check_split if witness.get("kind") == "split" else check_case
    found, _ = checker(p)
    clause = witness.get("clause")
    return any(clause is None or f[0] == clause for f in found)
