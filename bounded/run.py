"""python -m bounded.run Cxx --tier quick --seed 0 --out FILE   |   --replay FILE"""
import argparse
import importlib
import json
import os
import sys
import time
import traceback

os.environ.setdefault("NUMBA_CACHE_DIR", "/tmp/pv_numba_cache")


def main():
    ap = argparse.ArgumentParser()
    ap.add_argument("pid")
    ap.add_argument("--tier", default="quick")
    ap.add_argument("--seed", type=int, default=0)
    ap.add_argument("--out")
    ap.add_argument("--replay")
    a = ap.parse_args()
    mod = importlib.import_module("bounded." + a.pid)
    from bounded.common import unjson
    if a.replay:
        rec = json.load(open(a.replay))
        ok = bool(mod.replay(unjson(rec["witness"])))
        print("reproduced" if ok else "not reproduced")
        if ok:
            print("VIOLATION property=%s replay=%s" % (a.pid, a.replay))
        sys.exit(0 if ok else 1)
    t0 = time.time()
    try:
        r = mod.run(a.tier, a.seed)
    except Exception:
        r = {"error": "bounded module crashed: " + traceback.format_exc()[-1500:]}
    r["wall_s"] = round(time.time() - t0, 2)
    json.dump(r, open(a.out, "w"), indent=1, default=str)


if __name__ == "__main__":
    main()
