"""Bounded stand-in of C19 -- saved products equal the computed ones and the saved configuration replays.

Real code executed: the command-line entry point pandora.main(cfg_path, output_dir, verbose) (check_conf, dataset reading,
the whole pipeline, common.save_results / write_data_array / save_config, output_tree_design) on 10x14 images written
here with rasterio, then a second pandora.main run fed with <output>/cfg/config.json.

Oracle: the same configuration file run through the documented API (docs/source/userguide/as_an_api.rst:
read_config_file, check_conf, create_dataset_from_inputs, check_datasets, pandora.run; the right interval of an integer
[min,max] being [-max,-min] as documented in input.rst).  For every product the file read back with rasterio must equal
the in-memory DataArray value for value (NaN == NaN), with the documented dtype (float32 disparity, uint16 validity
mask), one band per indicator carrying the indicator's name, and the crs/transform of the input image of the same side.
right_* files <=> a validation step is configured.  cfg/config.json: loadable, = completed configuration + 'margins'
(= the machine's margins), accepted by a second run which must reproduce the same rasters.
"""
import copy
import json
import logging
import os
import tempfile
import warnings

import numpy as np
import rasterio
from rasterio import Affine

from bounded.common import Recorder, same

ROWS, COLS = 10, 14
GEO_LEFT = Affine(0.5, 0.0, 100.0, 0.0, -0.5, 200.0)
GEO_RIGHT = Affine(0.5, 0.0, 100.5, 0.0, -0.5, 200.0)


# ----------------------------------------------------------------------------------------------------------------------
# configurations
# ----------------------------------------------------------------------------------------------------------------------
def templates():
    """name -> dict(pipeline, disp in {'list','grid_left','grid_both'}, georef, bands, aux)"""
    return {
        "sad-plain": dict(
            pipeline={"matching_cost": {"matching_cost_method": "sad", "window_size": 3},
                      "disparity": {"disparity_method": "wta", "invalid_disparity": -9999}},
            disp="list", georef=True, bands=1, aux=False),
        "census-std-nan-vfit-median": dict(
            pipeline={"matching_cost": {"matching_cost_method": "census", "window_size": 5, "subpix": 2},
                      "cost_volume_confidence": {"confidence_method": "std_intensity"},
                      "disparity": {"disparity_method": "wta", "invalid_disparity": "NaN"},
                      "refinement": {"refinement_method": "vfit"},
                      "filter": {"filter_method": "median", "filter_size": 3}},
            disp="list", georef=False, bands=1, aux=False),
        "zncc-ambiguity-risk-nan-validation": dict(
            pipeline={"matching_cost": {"matching_cost_method": "zncc", "window_size": 3},
                      "cost_volume_confidence": {"confidence_method": "ambiguity"},
                      "cost_volume_confidence.risk": {"confidence_method": "risk"},
                      "disparity": {"disparity_method": "wta", "invalid_disparity": "NaN"},
                      "validation": {"validation_method": "cross_checking_accurate"}},
            disp="list", georef=True, bands=1, aux=False),
        "ssd-cbca-quadratic-bilateral-validation-mccnn-grids": dict(
            pipeline={"matching_cost": {"matching_cost_method": "ssd", "window_size": 3},
                      "aggregation": {"aggregation_method": "cbca"},
                      "disparity": {"disparity_method": "wta", "invalid_disparity": -5},
                      "refinement": {"refinement_method": "quadratic"},
                      "filter": {"filter_method": "bilateral"},
                      "validation": {"validation_method": "cross_checking_accurate", "interpolated_disparity": "mc-cnn"}},
            disp="grid_both", georef=True, bands=1, aux=False),
        "sad-intervals-nan-validation-sgm": dict(
            pipeline={"matching_cost": {"matching_cost_method": "sad", "window_size": 3},
                      "cost_volume_confidence": {"confidence_method": "interval_bounds"},
                      "disparity": {"disparity_method": "wta", "invalid_disparity": "NaN"},
                      "filter": {"filter_method": "median_for_intervals"},
                      "validation": {"validation_method": "cross_checking_accurate", "interpolated_disparity": "sgm"}},
            disp="list", georef=False, bands=1, aux=False),
        "census-ambiguity-nan-leftgrid": dict(
            pipeline={"matching_cost": {"matching_cost_method": "census", "window_size": 3},
                      "cost_volume_confidence": {"confidence_method": "ambiguity"},
                      "disparity": {"disparity_method": "wta", "invalid_disparity": "NaN"}},
            disp="grid_left", georef=False, bands=1, aux=False),
        "sad-std-ambiguity-validation-grids-mask-nodata": dict(
            pipeline={"matching_cost": {"matching_cost_method": "sad", "window_size": 3},
                      "cost_volume_confidence": {"confidence_method": "std_intensity"},
                      "cost_volume_confidence.after": {"confidence_method": "ambiguity"},
                      "disparity": {"disparity_method": "wta", "invalid_disparity": -9999},
                      "validation": {"validation_method": "cross_checking_accurate"}},
            disp="grid_both", georef=True, bands=1, aux=True),
        "multiband-zncc-quadratic": dict(
            pipeline={"matching_cost": {"matching_cost_method": "zncc", "band": "g", "window_size": 3, "subpix": 2},
                      "disparity": {"disparity_method": "wta", "invalid_disparity": "NaN"},
                      "refinement": {"refinement_method": "quadratic"}},
            disp="list", georef=True, bands=3, aux=False),
    }


def make_case(name, seed, vary):
    """A fully determined case (json-able): template + seeded parameter variation."""
    rng = np.random.default_rng([seed, sum(map(ord, name))])
    tpl = copy.deepcopy(templates()[name])
    if vary:
        mc = tpl["pipeline"]["matching_cost"]
        if mc["matching_cost_method"] != "census":
            mc["window_size"] = int(rng.choice([1, 3, 5]))
        else:
            mc["window_size"] = int(rng.choice([3, 5]))
        if "refinement" in tpl["pipeline"] or rng.random() < 0.3:
            mc["subpix"] = int(rng.choice([1, 2, 4]))
        tpl["pipeline"]["disparity"]["invalid_disparity"] = [-9999, "NaN", 0, -5][int(rng.integers(4))]
        tpl["georef"] = bool(rng.integers(2))
    lo = int(rng.integers(-3, 0))
    hi = int(rng.integers(0, 3))
    return {"template": name, "seed": int(seed), "vary": bool(vary), "pipeline": tpl["pipeline"], "disp": tpl["disp"],
            "georef": tpl["georef"], "bands": tpl["bands"], "aux": tpl["aux"], "interval": [lo, hi]}


# ----------------------------------------------------------------------------------------------------------------------
# inputs
# ----------------------------------------------------------------------------------------------------------------------
def _wtif(path, arr, transform=None, names=None):
    arr = np.asarray(arr)
    if arr.ndim == 2:
        arr = arr[None]
    kw = {"crs": "EPSG:32631", "transform": transform} if transform is not None else {}
    with warnings.catch_warnings():
        warnings.simplefilter("ignore")
        with rasterio.open(path, "w", driver="GTiff", width=arr.shape[2], height=arr.shape[1], count=arr.shape[0],
                           dtype=str(arr.dtype), **kw) as dst:
            dst.write(arr)
            if names:
                dst.descriptions = tuple(names)


def write_inputs(case, tmp):
    """Write images (+ grids, masks) of the case; return the user configuration (dict)."""
    rng = np.random.default_rng([case["seed"], 19])
    bands = case["bands"]
    scene = rng.integers(0, 200, size=(bands, ROWS, COLS + 6)).astype(np.float32)
    shift = int(rng.integers(0, 2))
    left = scene[:, :, 3:3 + COLS].copy()
    right = scene[:, :, 3 + shift:3 + shift + COLS].copy()
    r0, c0 = int(rng.integers(0, ROWS - 3)), int(rng.integers(0, COLS - 5))
    right[:, r0:r0 + 3, c0:c0 + 5] = rng.integers(0, 200, size=(bands, 3, 5))  # an area that does not match
    left[:, 6:8, 2:6] = 50.0  # a flat stretch (ties, zero variance)
    inp = {"left": {}, "right": {}}
    if case["aux"]:
        left[:, 1, 1] = -9999
        right[:, 8, 12] = -9999
        mask_l = (rng.random((ROWS, COLS)) < 0.08).astype(np.uint8) * 3
        mask_r = (rng.random((ROWS, COLS)) < 0.08).astype(np.uint8)
        _wtif(os.path.join(tmp, "mask_left.tif"), mask_l, GEO_LEFT if case["georef"] else None)
        _wtif(os.path.join(tmp, "mask_right.tif"), mask_r, GEO_RIGHT if case["georef"] else None)
        inp["left"].update({"mask": os.path.join(tmp, "mask_left.tif"), "nodata": -9999})
        inp["right"].update({"mask": os.path.join(tmp, "mask_right.tif"), "nodata": -9999})
    names = ["r", "g", "b"][:bands] if bands > 1 else None
    _wtif(os.path.join(tmp, "left.tif"), left, GEO_LEFT if case["georef"] else None, names)
    _wtif(os.path.join(tmp, "right.tif"), right, GEO_RIGHT if case["georef"] else None, names)
    inp["left"]["img"] = os.path.join(tmp, "left.tif")
    inp["right"]["img"] = os.path.join(tmp, "right.tif")
    lo, hi = case["interval"]
    if case["disp"] == "list":
        inp["left"]["disp"] = [lo, hi]
    else:
        gmin = lo + rng.integers(0, 2, size=(ROWS, COLS))
        gmax = np.maximum(gmin, hi - rng.integers(0, 2, size=(ROWS, COLS)))
        _wtif(os.path.join(tmp, "grid_left.tif"), np.stack([gmin, gmax]).astype(np.float32))
        inp["left"]["disp"] = os.path.join(tmp, "grid_left.tif")
        if case["disp"] == "grid_both":
            rmin = -hi + rng.integers(0, 2, size=(ROWS, COLS))
            rmax = np.maximum(rmin, -lo - rng.integers(0, 2, size=(ROWS, COLS)))
            _wtif(os.path.join(tmp, "grid_right.tif"), np.stack([rmin, rmax]).astype(np.float32))
            inp["right"]["disp"] = os.path.join(tmp, "grid_right.tif")
    return {"input": inp, "pipeline": copy.deepcopy(case["pipeline"])}


# ----------------------------------------------------------------------------------------------------------------------
# comparisons
# ----------------------------------------------------------------------------------------------------------------------
def deep_equal(a, b):
    if isinstance(a, dict) and isinstance(b, dict):
        return set(a) == set(b) and all(deep_equal(a[k], b[k]) for k in a)
    if isinstance(a, (list, tuple)) and isinstance(b, (list, tuple)):
        return len(a) == len(b) and all(deep_equal(x, y) for x, y in zip(a, b))
    if isinstance(a, float) and isinstance(b, float) and np.isnan(a) and np.isnan(b):
        return True
    if isinstance(a, bool) != isinstance(b, bool):
        return False
    return a == b


def _open(path):
    with warnings.catch_warnings():
        warnings.simplefilter("ignore")
        return rasterio.open(path)


def compare_raster(path, data, dtype, names, ref_img, side, product):
    """file at path vs in-memory array (rows, cols[, bands]); returns findings"""
    out = []
    tag = "%s_%s" % (side, product)
    if not os.path.exists(path):
        return [("C19.files." + product, tag + "-missing", "%s not written" % os.path.basename(path))]
    with _open(path) as src, _open(ref_img) as ref:
        arr = src.read()
        data = np.asarray(data)
        mem = data[None] if data.ndim == 2 else np.moveaxis(data, 2, 0)
        if dtype is not None and any(d != dtype for d in src.dtypes):
            out.append(("C19.dtype." + product, tag + "-dtype-" + str(src.dtypes[0]), "%s dtypes %r, expected %s" % (
                os.path.basename(path), src.dtypes, dtype)))
        if arr.shape != mem.shape:
            out.append(("C19.values." + product, tag + "-shape", "%s shape %r, in memory %r" % (
                os.path.basename(path), arr.shape, mem.shape)))
        elif not same(arr, mem):
            diff = ~((arr == mem) | (np.isnan(arr.astype(np.float64)) & np.isnan(mem.astype(np.float64))))
            idx = tuple(int(i) for i in np.argwhere(diff)[0])
            out.append(("C19.values." + product, tag + "-values-differ", "%s differs from the in-memory product at %d "
                        "sample(s), first (band,row,col)=%r: file %r, memory %r (memory dtype %s)" % (
                            os.path.basename(path), int(diff.sum()), idx, arr[idx].item(), mem[idx].item(), mem.dtype)))
        if names is not None and list(src.descriptions) != [str(n) for n in names]:
            out.append(("C19.bands." + product, tag + "-band-names", "%s descriptions %r, indicators %r" % (
                os.path.basename(path), src.descriptions, [str(n) for n in names])))
        if src.crs != ref.crs:
            out.append(("C19.georef", tag + "-crs", "%s crs %r, input image crs %r" % (os.path.basename(path), src.crs, ref.crs)))
        if src.transform != ref.transform:
            out.append(("C19.georef", tag + "-transform", "%s transform %r, input image transform %r" % (
                os.path.basename(path), tuple(src.transform)[:6], tuple(ref.transform)[:6])))
    return out


def compare_dirs(out1, out2, clause, prefix):
    """every .tif of the first run must be reproduced by the second"""
    out = []
    tifs1 = sorted(f for f in os.listdir(out1) if f.endswith(".tif"))
    tifs2 = sorted(f for f in os.listdir(out2) if f.endswith(".tif"))
    if tifs1 != tifs2:
        out.append((clause, prefix + "file-set-differs", "first run wrote %r, run from the saved configuration %r" % (tifs1, tifs2)))
    for name in tifs1:
        if name not in tifs2:
            continue
        with _open(os.path.join(out1, name)) as one, _open(os.path.join(out2, name)) as two:
            a, b = one.read(), two.read()
            if a.shape != b.shape or a.dtype != b.dtype or not same(a, b):
                out.append((clause, prefix + "raster-differs-" + name.replace(".tif", ""), "%s differs between the two runs" % name))
            elif one.descriptions != two.descriptions or one.crs != two.crs or one.transform != two.transform:
                out.append((clause, prefix + "metadata-differs-" + name.replace(".tif", ""), "%s metadata differ between the two runs" % name))
    return out


def classify_replay_error(exc):
    text = str(exc)
    if type(exc).__name__ == "DictCheckerError" and 'key="right"' in text and 'key="disp"' in text:
        return "saved-derived-right-disp-list-rejected"
    return "saved-config-rejected-" + type(exc).__name__


# ----------------------------------------------------------------------------------------------------------------------
# one case
# ----------------------------------------------------------------------------------------------------------------------
def check_case(case):
    import pandora
    from pandora.check_configuration import check_conf, check_datasets, read_config_file
    from pandora.img_tools import create_dataset_from_inputs
    from pandora.state_machine import PandoraMachine

    out = []
    with tempfile.TemporaryDirectory() as tmp:
        user_cfg = write_inputs(case, tmp)
        cfg_path = os.path.join(tmp, "user_cfg.json")
        with open(cfg_path, "w", encoding="utf-8") as fil:
            json.dump(user_cfg, fil, indent=1)
        out1 = os.path.join(tmp, "out1")
        # --- the API on the same file (a configuration the API does not accept / cannot run is outside the quantifier)
        try:
            with warnings.catch_warnings():
                warnings.simplefilter("ignore")
                machine = PandoraMachine()
                cfg = check_conf(read_config_file(cfg_path), machine)
                img_left = create_dataset_from_inputs(cfg["input"]["left"])
                right_in = dict(cfg["input"]["right"])
                derived = None
                if right_in["disp"] is None and isinstance(cfg["input"]["left"]["disp"], list):
                    derived = [-cfg["input"]["left"]["disp"][1], -cfg["input"]["left"]["disp"][0]]
                    right_in["disp"] = derived
                img_right = create_dataset_from_inputs(right_in)
                check_datasets(img_left, img_right)
                left, right = pandora.run(machine, img_left, img_right, cfg)  # as in as_an_api.rst: cfg itself
                completed = copy.deepcopy(cfg)  # what the API user would hand to common.save_config after the run
                margins = machine.margins.to_dict()
        except Exception as exc:  # pylint: disable=broad-except
            NOT_APPLICABLE.append((case["template"], case["seed"], repr(exc)[:200]))
            return None
        # --- the command line
        try:
            with warnings.catch_warnings():
                warnings.simplefilter("ignore")
                pandora.main(cfg_path, out1, False)
        except Exception as exc:  # pylint: disable=broad-except
            return [("C19.main.total", "main-raises-" + type(exc).__name__, "pandora.main raised %r on a configuration "
                     "that the API accepts and runs" % (exc,))]
        has_validation = any(k.split(".")[0] == "validation" for k in case["pipeline"])
        # --- products
        for side, mem, img in (("left", left, user_cfg["input"]["left"]["img"]), ("right", right, user_cfg["input"]["right"]["img"])):
            disp_file = os.path.join(out1, side + "_disparity.tif")
            mask_file = os.path.join(out1, side + "_validity_mask.tif")
            conf_file = os.path.join(out1, side + "_confidence_measure.tif")
            if side == "right":
                written = [os.path.exists(p) for p in (disp_file, mask_file)]
                if has_validation and not all(written):
                    out.append(("C19.right.iff", "right-products-missing-with-validation", "validation step but right files %r" % written))
                if not has_validation and (any(written) or os.path.exists(conf_file)):
                    out.append(("C19.right.iff", "right-products-without-validation", "no validation step but right files exist"))
                if not has_validation or "disparity_map" not in mem:
                    continue
            out += compare_raster(disp_file, mem["disparity_map"].data, "float32", None, img, side, "disparity")
            out += compare_raster(mask_file, mem["validity_mask"].data, "uint16", None, img, side, "validity_mask")
            if "confidence_measure" in mem and mem["confidence_measure"].shape[-1] > 0:
                out += compare_raster(conf_file, mem["confidence_measure"].data, None,
                                      list(mem["confidence_measure"].coords["indicator"].data), img, side, "confidence_measure")
        # --- saved configuration
        saved_path = os.path.join(out1, "cfg", "config.json")
        try:
            with open(saved_path, "r", encoding="utf-8") as fil:
                saved = json.load(fil)
        except Exception as exc:  # pylint: disable=broad-except
            return out + [("C19.cfg.json", "config-json-not-loadable-" + type(exc).__name__, "cfg/config.json: %r" % (exc,))]
        if "margins" not in saved:
            out.append(("C19.cfg.margins", "margins-missing", "no 'margins' key in cfg/config.json: keys %r" % sorted(saved)))
        elif not deep_equal(saved["margins"], margins):
            out.append(("C19.cfg.margins", "margins-differ", "saved margins %r, machine margins %r" % (saved["margins"], margins)))
        if not deep_equal(saved.get("pipeline"), completed["pipeline"]):
            out.append(("C19.cfg.completed", "pipeline-section-differs", "saved pipeline %r, completed %r" % (
                saved.get("pipeline"), completed["pipeline"])))
        sv_in, cp_in = copy.deepcopy(saved.get("input", {})), copy.deepcopy(completed["input"])
        sv_rdisp = sv_in.get("right", {}).pop("disp", "<absent>")
        cp_rdisp = cp_in["right"].pop("disp")
        if not deep_equal(sv_in, cp_in):
            out.append(("C19.cfg.completed", "input-section-differs", "saved input %r, completed %r" % (sv_in, cp_in)))
        if not (deep_equal(sv_rdisp, cp_rdisp) or (derived is not None and deep_equal(sv_rdisp, derived))):
            # the completed value (None / grid path) or the documented derived [-max,-min] are both tolerated
            out.append(("C19.cfg.completed", "right-disp-differs", "saved right disp %r, completed %r" % (sv_rdisp, cp_rdisp)))
        # --- replay from the saved configuration
        out2 = os.path.join(tmp, "out2")
        try:
            with warnings.catch_warnings():
                warnings.simplefilter("ignore")
                pandora.main(saved_path, out2, False)
            replayed = True
        except Exception as exc:  # pylint: disable=broad-except
            replayed = False
            cls = classify_replay_error(exc)
            out.append(("C19.replay", cls, "second run from cfg/config.json refused: %s: %s (saved right disp = %r)" % (
                type(exc).__name__, " ".join(str(exc).split())[:200], sv_rdisp)))
            if cls == "saved-derived-right-disp-list-rejected":
                # look behind the known obstacle: same file with the derived pair removed
                patched = copy.deepcopy(saved)
                patched["input"]["right"]["disp"] = None
                patched_path = os.path.join(tmp, "patched.json")
                with open(patched_path, "w", encoding="utf-8") as fil:
                    json.dump(patched, fil, indent=1)
                out3 = os.path.join(tmp, "out3")
                try:
                    with warnings.catch_warnings():
                        warnings.simplefilter("ignore")
                        pandora.main(patched_path, out3, False)
                    out += compare_dirs(out1, out3, "C19.replay", "without-derived-right-disp:")
                except Exception as exc2:  # pylint: disable=broad-except
                    out.append(("C19.replay", "without-derived-right-disp:rejected-" + type(exc2).__name__,
                                "saved configuration still refused once right.disp is reset to null: %r" % (exc2,)))
        if replayed:
            out += compare_dirs(out1, out2, "C19.replay", "")
    return out


NOT_APPLICABLE = []


def run(tier, seed):
    rec = Recorder(max_violations=40)
    rec.functions.update({"pandora.main", "pandora.run", "pandora.common.save_results", "pandora.common.write_data_array",
                          "pandora.common.save_config", "pandora.output_tree_design.get_out_file_path",
                          "pandora.check_configuration.check_conf", "pandora.check_configuration.read_config_file",
                          "pandora.img_tools.create_dataset_from_inputs"})
    names = list(templates())
    cases = [make_case(n, seed, vary=False) for n in names]
    n_var = 12 if tier == "thorough" else 1
    for k in range(n_var):
        cases += [make_case(n, seed * 1000 + k + 1, vary=True) for n in names]
    del NOT_APPLICABLE[:]
    logging.disable(logging.CRITICAL)
    try:
        for case in cases:
            found = check_case(case)
            if found is None:
                continue
            rec.case(key=json.dumps(case, sort_keys=True), nontrivial=True,
                     sample={"template": case["template"], "pipeline": case["pipeline"], "disp": case["disp"],
                             "interval": case["interval"], "georef": case["georef"]})
            for clause, wclass, msg in found:
                rec.violation(clause, wclass, msg, dict(case, _clause=clause, _class=wclass))
    finally:
        logging.disable(logging.NOTSET)
    return rec.result(
        bound="pandora.main on 10x14 seeded synthetic stereo pairs (shifted integer texture + non-matching patch + flat "
              "stretch; one template with masks and nodata, one with 3-band images), 8 pipeline templates (sad/ssd/"
              "census/zncc; cbca; std_intensity/ambiguity/risk/interval_bounds incl. suffixed steps; vfit/quadratic; "
              "median/bilateral/median_for_intervals; cross_checking_accurate with none/mc-cnn/sgm filling; "
              "invalid_disparity -9999/NaN/-5; [min,max] list, left grid, left+right grids; georeferenced or not) as "
              "written + %d seeded variation(s) of each (window 1/3/5, subpix 1/2/4, invalid_disparity in "
              "{-9999,NaN,0,-5}, georeferencing, interval bounds); %d generated configuration(s) refused by the API "
              "itself were skipped" % (n_var, len(NOT_APPLICABLE)),
        rule="a case = one configuration file + image pair: one CLI run, one API run of the same file, one CLI run from "
             "the saved cfg/config.json (and, when that is refused because of the derived right interval, one more "
             "with right.disp reset to null to look behind it). Every raster compared exactly (NaN==NaN) with the "
             "in-memory product. Configurations that the API itself refuses or cannot run are skipped and not counted. "
             "All counted cases are non-trivial (distinct configuration or image content).")


def replay(witness_):
    clause, wclass = witness_["_clause"], witness_["_class"]
    case = {k: v for k, v in witness_.items() if k not in ("_clause", "_class")}
    # "NaN" strings of the pipeline are turned into floats by the json helper: restore the user's spelling
    def restore(obj):
        if isinstance(obj, dict):
            return {k: restore(v) for k, v in obj.items()}
        if isinstance(obj, list):
            return [restore(v) for v in obj]
        if isinstance(obj, float) and np.isnan(obj):
            return "NaN"
        return obj
    case = restore(case)
    logging.disable(logging.CRITICAL)
    try:
        found = check_case(case) or []
    finally:
        logging.disable(logging.NOTSET)
    return any(c == clause and w == wclass for c, w, _ in found)
