"""Bounded stand-in for C01 -- accepted pipelines are exactly the documented automaton and run as written.

Oracle (bounded/_pipe.py: DELTA / delta_star) is written from the property statement and sequencing.rst:
    begin -matching_cost-> cost_volume; cost_volume -{aggregation, optimization, semantic_segmentation,
    cost_volume_confidence}-> cost_volume; cost_volume -disparity-> disp_map;
    disp_map -{filter, refinement, validation, multiscale}-> disp_map;  kind(name) = text before the first '.'.

What is executed: the real PandoraMachine (a harness-side SUBCLASS whose <step>_check_conf / <step>_run /
matching_cost_prepare / run_multiscale methods record the call and then delegate to the real method -- or, in "stub"
mode, only record), the real PandoraMachine.check_conf / run / run_prepare / run_exit and the real pandora.run.
optimization / semantic_segmentation have no built-in method: identity plug-ins 'bounded_stub' are registered in this
process only (bounded/_pipe.py: stub_plugins) so that the real registries, dispatchers and machine callbacks are used.

Real-callback runs (sections E and F of run()) use plain step keys (E) and suffix-only step keys (F: pipelines in which a
kind -- validation, filter, refinement, cost_volume_confidence, aggregation, multiscale, ... -- occurs only as
'<kind>.<suffix>'); besides the trace / state / leftover / second-run clauses they require a non-empty right disparity
dataset whenever a validation step is configured ("symmetrically on the right data").
"""
import copy
import itertools
import tempfile

import numpy as np

from bounded.common import Recorder
from bounded import _pipe as P

import pandora
from pandora.state_machine import PandoraMachine
from transitions import MachineError

RUN_CB = {k: k + "_run" for k in P.KINDS}
RUN_CB["multiscale"] = "run_multiscale"
CHECK_CB = {k: k + "_check_conf" for k in P.KINDS}


class RecMachine(PandoraMachine):
    """PandoraMachine with recording wrappers on every step callback (never edits /repo)."""

    def __init__(self, stub_run=False):
        super().__init__()
        self.trace = []
        self.stub_run = stub_run

    def matching_cost_prepare(self, cfg, input_step):
        self.trace.append(("prepare", "matching_cost", input_step, self.current_scale))
        if self.stub_run:
            return None
        return PandoraMachine.matching_cost_prepare(self, cfg, input_step)


def _mk_run(k):
    def callback(self, cfg, input_step):
        self.trace.append(("run", k, input_step, self.current_scale))
        if not self.stub_run:
            return getattr(PandoraMachine, RUN_CB[k])(self, cfg, input_step)
        if k == "multiscale":
            # stub of "go to the next (finer) scale": the only state the driver loop / the transition condition read
            if self.img_left_pyramid:
                self.left_img = self.img_left_pyramid.pop(0)
            if self.img_right_pyramid:
                self.right_img = self.img_right_pyramid.pop(0)
            self.current_scale = self.current_scale - 1
        return None

    return callback


def _mk_check(k):
    def callback(self, cfg, input_step):
        self.trace.append(("check", k, input_step, None))
        return getattr(PandoraMachine, CHECK_CB[k])(self, cfg, input_step)

    return callback


for _k in P.KINDS:
    setattr(RecMachine, RUN_CB[_k], _mk_run(_k))
    setattr(RecMachine, CHECK_CB[_k], _mk_check(_k))


# ---------------------------------------------------------------------------------------------------------------------
# oracles
# ---------------------------------------------------------------------------------------------------------------------
def expected_check_trace(names):
    rounds = 2 if any(P.kind(n) == "validation" for n in names) else 1
    return [(P.kind(n), n) for _ in range(rounds) for n in names]


def expected_run_trace(names, num_scales):
    """per processed scale (coarse -> fine, scale index num_scales-1 .. 0): the configured steps in order, exactly once;
    on a non-final scale up to and including the first multiscale step (which restarts the pipeline at the next
    scale), on the final scale every step, multiscale being a no-op there."""
    exp = []
    for scale in range(num_scales - 1, -1, -1):
        for n in names:
            if P.kind(n) == "multiscale":
                if scale > 0:
                    exp.append((P.kind(n), n, scale))
                    break
                continue
            exp.append((P.kind(n), n, scale))
    return exp


def leftovers(machine):
    """names of triggers still registered on the machine"""
    return sorted(machine.events)


# ---------------------------------------------------------------------------------------------------------------------
# one history on one machine object:  check [, check, run, run, check]
# ---------------------------------------------------------------------------------------------------------------------
def do_check(machine, pipe, imgs):
    """-> (verdict, detail): verdict in {'ok', 'machine_error', 'other:<Type>'}"""
    machine.trace = []
    try:
        machine.check_conf({"pipeline": copy.deepcopy(pipe)}, imgs[0], imgs[1])
    except MachineError as exc:
        return "machine_error", str(exc)[:80]
    except Exception as exc:  # pylint: disable=broad-except
        return "other:" + type(exc).__name__, str(exc)[:120]
    return "ok", ""


def check_post(machine, names):
    """problems with the machine after a successful check_conf of `names`"""
    probs = []
    got = [(k, n) for ph, k, n, _ in machine.trace if ph == "check"]
    if got != expected_check_trace(names):
        probs.append(("C01.check.trace", "check callbacks %s != expected %s" % (got, expected_check_trace(names))))
    if machine.state != "begin":
        probs.append(("C01.check.state", "state after check_conf is %r" % (machine.state,)))
    if leftovers(machine):
        probs.append(("C01.check.leftover", "leftover triggers after check_conf: %s" % leftovers(machine)))
    return probs


def do_run(machine, names, dsets):
    """run the checked pipeline; -> (verdict, detail, problems)"""
    cfg = {"pipeline": copy.deepcopy({n: machine.pipeline_cfg["pipeline"][n] for n in names})}
    machine.trace = []
    try:
        _, right = pandora.run(machine, dsets[0], dsets[1], cfg)
    except MachineError as exc:
        return "machine_error", str(exc)[:80], []
    except Exception as exc:  # pylint: disable=broad-except
        return "other:" + type(exc).__name__, str(exc)[:160], []
    probs = []
    if not machine.stub_run and any(P.kind(n) == "validation" for n in names):
        # "... and (when a validation step is present) symmetrically on the right data": the real callbacks must have
        # produced a right disparity dataset (stub callbacks produce no data at all, nothing to look at there)
        if right is None or len(getattr(right, "data_vars", ())) == 0:
            probs.append(("C01.run.right", "a validation step is configured but the right disparity dataset returned "
                                           "by pandora.run is empty (%r)" % (type(right).__name__,)))
    got = [(k, n, s) for ph, k, n, s in machine.trace if ph == "run"]
    exp = expected_run_trace(names, machine.num_scales)
    if got != exp:
        probs.append(("C01.run.trace", "executed %s != expected %s (num_scales=%s)" % (got, exp, machine.num_scales)))
    if machine.state != "begin":
        probs.append(("C01.run.state", "state after run_exit is %r" % (machine.state,)))
    if leftovers(machine):
        probs.append(("C01.run.leftover", "leftover triggers after run_exit: %s" % leftovers(machine)))
    return "ok", "", probs


def history(names, pipe, imgs, dsets, stub_run, full=True):
    """Executes check, check, run, run, check on ONE machine.  -> (first check verdict, list of (clause, message))"""
    machine = RecMachine(stub_run=stub_run)
    verdict, detail = do_check(machine, pipe, imgs)
    if verdict != "ok":
        return verdict, [], detail
    probs = check_post(machine, names)
    if list(machine.pipeline_cfg["pipeline"]) != list(names):
        probs.append(("C01.check.applied", "checked steps %s != configured %s"
                      % (list(machine.pipeline_cfg["pipeline"]), list(names))))
    if not full:
        return verdict, probs, detail
    first_cfg = copy.deepcopy(machine.pipeline_cfg)
    # second check on the same machine
    v2, d2 = do_check(machine, pipe, imgs)
    if v2 != "ok":
        probs.append(("C01.history.check2", "second check_conf on the same machine: %s %s" % (v2, d2)))
        return verdict, probs, detail
    probs += [(c.replace("C01.check.", "C01.history.check2."), "second check: " + m) for c, m in check_post(machine, names)]
    if not P.cfg_equal(first_cfg, machine.pipeline_cfg, ordered=True):
        probs.append(("C01.history.check2.cfg", "second check completed cfg differs from the first"))
    # run twice
    traces = []
    for i in (1, 2):
        vr, dr, pr = do_run(machine, names, dsets)
        if vr == "machine_error":
            probs.append(("C01.run.nomachineerror" if i == 1 else "C01.history.run2",
                          "run #%d raised MachineError: %s" % (i, dr)))
            return verdict, probs, detail
        if vr != "ok":
            probs.append(("C01.run.exception" if i == 1 else "C01.history.run2",
                          "run #%d raised %s %s" % (i, vr, dr)))
            return verdict, probs, detail
        probs += [(c if i == 1 else c.replace("C01.run.", "C01.history.run2."), "run #%d: %s" % (i, m)) for c, m in pr]
        traces.append(list(machine.trace))
    if traces[0] != traces[1]:
        probs.append(("C01.history.run2.trace", "second run trace differs: %s vs %s" % (traces[0], traces[1])))
    # a check after the runs
    v3, d3 = do_check(machine, pipe, imgs)
    if v3 != "ok":
        probs.append(("C01.history.check3", "check_conf after two runs: %s %s" % (v3, d3)))
    else:
        probs += [(c.replace("C01.check.", "C01.history.check3."), "check after run: " + m)
                  for c, m in check_post(machine, names)]
    return verdict, probs, detail


# ---------------------------------------------------------------------------------------------------------------------
# table cells: one trigger from each state (uses the same calls PandoraMachine.check_conf / run_prepare make)
# ---------------------------------------------------------------------------------------------------------------------
def table_cell(phase, state, k, imgs, current_scale=0):
    """-> (moved_to | 'MachineError' | 'other:..', callbacks recorded)"""
    machine = RecMachine(stub_run=True)
    machine.left_img, machine.right_img = imgs
    machine.current_scale = current_scale
    name = k
    pipe = P.pipeline_for([n for n in ("matching_cost", "optimization", "semantic_segmentation") if n != k] + [name])
    table = machine._transitions_check if phase == "check" else machine._transitions_run  # pylint: disable=protected-access
    machine.add_transitions(table)
    machine.set_state(state)
    try:
        if phase == "check":
            machine.trigger("check_" + k, pipe, name)
        else:
            machine.trigger(k, {"pipeline": pipe}, name)
        out = machine.state
    except MachineError:
        out = "MachineError"
    except Exception as exc:  # pylint: disable=broad-except
        out = "other:" + type(exc).__name__
    return out, [(ph, kk, n) for ph, kk, n, _ in machine.trace if ph == phase]


def run_tables(rec, imgs):
    for phase in ("check", "run"):
        for state in P.STATES:
            for k in P.KINDS:
                scales = (0, 1) if (phase == "run" and k == "multiscale") else (0,)
                for cs in scales:
                    out, calls = table_cell(phase, state, k, imgs, cs)
                    dest = P.DELTA.get((state, k))
                    if dest is None:
                        exp_out, exp_calls = "MachineError", []
                    elif phase == "run" and k == "multiscale":
                        # documented difference: not the last scale -> restart from begin at the next scale;
                        # last scale -> no-op
                        exp_out, exp_calls = ("begin", [(phase, k, k)]) if cs > 0 else (state, [])
                    else:
                        exp_out, exp_calls = dest, [(phase, k, k)]
                    rec.case(key=("table", phase, state, k, cs), nontrivial=True,
                             sample={"part": "table", "phase": phase, "state": state, "trigger": k, "result": out})
                    if out != exp_out or calls != exp_calls:
                        rec.violation(clause="C01.table.%s[%s,%s]" % (phase, state, k),
                                      witness_class="cell-differs-from-delta",
                                      message="%s table: from %s trigger %s (current_scale=%d) -> %s calling %s; documented: "
                                              "%s calling %s" % (phase, state, k, cs, out, calls, exp_out, exp_calls),
                                      witness={"part": "table", "phase": phase, "state": state, "kind": k,
                                               "current_scale": cs})


def table_reproduces(w, imgs):
    out, calls = table_cell(w["phase"], w["state"], w["kind"], imgs, w["current_scale"])
    dest = P.DELTA.get((w["state"], w["kind"]))
    ph, k = w["phase"], w["kind"]
    if dest is None:
        exp = ("MachineError", [])
    elif ph == "run" and k == "multiscale":
        exp = ("begin", [(ph, k, k)]) if w["current_scale"] > 0 else (w["state"], [])
    else:
        exp = (dest, [(ph, k, k)])
    return (out, calls) != exp


# ---------------------------------------------------------------------------------------------------------------------
# evaluation of one pipeline against the oracle
# ---------------------------------------------------------------------------------------------------------------------
def evaluate(names, pick, imgs, dsets, mode, full):
    """-> list of (clause, default witness_class, message).  mode: 'stub' | 'real'"""
    kinds = [P.kind(n) for n in names]
    pipe = P.pipeline_for(names, pick, real=(mode == "real"))
    verdict, probs, detail = history(names, pipe, imgs, dsets, stub_run=(mode == "stub"), full=full)
    accept = P.delta_star(kinds) is not None
    out = []
    if accept and verdict != "ok":
        out.append(("C01.accept", "documented-path-rejected",
                    "pipeline %s spells a path of the documented machine (valid parameters) but check_conf raised %s %s"
                    % (names, verdict, detail)))
    elif not accept and verdict == "ok":
        out.append(("C01.reject", "undocumented-path-accepted",
                    "pipeline %s is not a path of the documented machine but check_conf accepted it" % (names,)))
    elif not accept and verdict != "machine_error":
        out.append(("C01.reject.error_type", "not-a-sequencing-error",
                    "pipeline %s rejected with %s %s instead of the sequencing error (MachineError)"
                    % (names, verdict, detail)))
    for clause, msg in probs:
        out.append((clause, "accepted-pipeline", "pipeline %s: %s" % (names, msg)))
    return out


def reuse_problems(kinds_a, kinds_b, pick, imgs):
    """check pipeline A then pipeline B on one real machine through check_pipeline_section -> [(clause, message)]"""
    from pandora.check_configuration import check_pipeline_section
    machine = PandoraMachine()
    names_a, names_b = P.names_for(kinds_a), P.names_for(kinds_b)
    out = []
    try:
        check_pipeline_section({"pipeline": copy.deepcopy(P.pipeline_for(names_a, pick, real=True))}, imgs[0], imgs[1], machine)
        user_b = {"pipeline": copy.deepcopy(P.pipeline_for(names_b, pick, real=True))}
        got = check_pipeline_section(copy.deepcopy(user_b), imgs[0], imgs[1], machine)
    except Exception as exc:  # pylint: disable=broad-except
        return [("C01.reuse.accept", "documented pipelines %s then %s on one machine: %s %s"
                 % (names_a, names_b, type(exc).__name__, str(exc)[:120]))]
    if list(got["pipeline"]) != list(names_b):
        out.append(("C01.reuse.order", "after checking %s, the accepted pipeline %s came back as %s"
                    % (names_a, names_b, list(got["pipeline"]))))
    for n in names_b:
        for k, v in user_b["pipeline"][n].items():
            if n in got["pipeline"] and got["pipeline"][n].get(k, "<absent>") != v:
                out.append(("C01.reuse.values", "step %s key %s: %r became %r" % (n, k, v, got["pipeline"][n].get(k, "<absent>"))))
    return out


def suffix_class(names):
    """which step kinds occur only under suffixed names (no plain '<kind>' key in the pipeline)"""
    kinds = [P.kind(n) for n in names]
    plain_missing = sorted({k for k in kinds if k not in names})
    return "no-plain-key:" + ",".join(plain_missing) if plain_missing else "plain-first-occurrences"


def report(rec, names, pick, mode, full, problems, part):
    for clause, wclass, msg in problems:
        if wclass in ("documented-path-rejected", "accepted-pipeline"):
            wclass = wclass + "/" + suffix_class(names)
        rec.violation(clause=clause, witness_class=wclass, message=msg,
                      witness={"part": part, "names": list(names), "pick": pick, "mode": mode, "full": full,
                               "clause": clause})


def run(tier, seed):
    rng = np.random.default_rng(seed)
    rec = Recorder(max_violations=40)
    for f in ("PandoraMachine.check_conf", "PandoraMachine.run", "PandoraMachine.run_prepare", "PandoraMachine.run_exit",
              "PandoraMachine.remove_transitions", "PandoraMachine.is_not_last_scale",
              "PandoraMachine.<step>_check_conf (10 callbacks)", "PandoraMachine.<step>_run (10 callbacks, sample)",
              "PandoraMachine.matching_cost_prepare"):
        rec.functions.add("pandora.state_machine." + f)
    rec.functions.add("pandora.run")
    max_len, n_rej_sfx, n_real, n_real_sfx = {"smoke": (3, 50, 2, 1), "quick": (4, 300, 10, 6)}.get(tier, (5, 3000, 60, 150))
    with P.quiet(), P.stub_plugins(), tempfile.TemporaryDirectory() as tmp:
        inp = P.write_small_images(tmp)
        imgs, dsets = P.metadata(inp), P.datasets(inp)

        # A. the two transition tables cell by cell
        run_tables(rec, imgs)

        # B. every kind sequence of length <= max_len, shortest first (names: repeated kinds get '.<n>')
        accepted = []
        for length in range(0, max_len + 1):
            for idx, kinds in enumerate(itertools.product(P.KINDS, repeat=length)):
                names = P.names_for(kinds)
                pick = (seed + idx) % 4
                ok = P.delta_star(kinds) is not None
                problems = evaluate(names, pick, imgs, dsets, "stub", full=ok)
                rec.case(key=("seq", tuple(names), pick), nontrivial=length >= 1,
                         sample={"part": "seq", "names": names, "documented": ok} if ok and length >= 3 else None)
                report(rec, names, pick, "stub", ok, problems, "seq")
                if ok:
                    accepted.append(kinds)

        # C. '.suffix' variants of every documented path: one first occurrence suffixed at a time, then all steps
        #    suffixed except those whose single variant already failed (so that a known failure does not hide others)
        for kinds in accepted:
            failing = set()
            variants = [frozenset([i]) for i in range(len(kinds)) if kinds.index(kinds[i]) == i]
            for sfx in variants + ["rest"]:
                if sfx == "rest":
                    sfx = frozenset(i for i in range(len(kinds)) if kinds[i] not in failing)
                    if len(sfx) < 2:
                        continue
                names = P.names_for(kinds, suffixed=sfx)
                pick = (seed + len(names)) % 4
                problems = evaluate(names, pick, imgs, dsets, "stub", full=True)
                rec.case(key=("sfx", tuple(names), pick), nontrivial=True,
                         sample={"part": "suffix", "names": names} if len(names) == 4 and len(sfx) > 1 else None)
                report(rec, names, pick, "stub", True, problems, "suffix")
                if problems and len(sfx) == 1:
                    failing.add(kinds[next(iter(sfx))])

        # D. random suffixing of sequences that are NOT documented paths: still a sequencing error
        done = 0
        while done < n_rej_sfx:
            length = int(rng.integers(1, max_len + 2))
            kinds = tuple(P.KINDS[i] for i in rng.integers(0, len(P.KINDS), size=length))
            if P.delta_star(kinds) is not None:
                continue
            sfx = frozenset(int(i) for i in np.nonzero(rng.integers(0, 2, size=length))[0])
            names = P.names_for(kinds, suffixed=sfx)
            pick = int(rng.integers(0, 4))
            problems = evaluate(names, pick, imgs, dsets, "stub", full=False)
            rec.case(key=("rejsfx", tuple(names), pick), nontrivial=True)
            report(rec, names, pick, "stub", False, problems, "reject-suffix")
            done += 1

        # E. real step callbacks (recording wrappers that delegate) on a sample of documented paths, 24x32 images
        every = ("matching_cost", "aggregation", "optimization", "semantic_segmentation", "cost_volume_confidence",
                 "disparity", "refinement", "filter", "validation", "multiscale", "filter")
        pool = [k for k in accepted if len(k) >= 2]
        chosen = [every] + [pool[i] for i in rng.choice(len(pool), size=min(n_real, len(pool)), replace=False)]
        for kinds in chosen:
            names = P.names_for(kinds)
            pick = int(rng.integers(0, 4))
            problems = evaluate(names, pick, imgs, dsets, "real", full=True)
            rec.case(key=("real", tuple(names), pick), nontrivial=True,
                     sample={"part": "real", "names": names, "pick": pick} if kinds is every else None)
            report(rec, names, pick, "real", True, problems, "real")

        # F. real step callbacks with SUFFIXED step keys: kinds that occur only under a suffixed name (no plain '<kind>'
        #    key in the pipeline).  The stubs of C cannot see a run-time lookup of a plain key (e.g. run_prepare looking
        #    for cfg['pipeline']['validation']); the real callbacks can.
        n_sfx = 0

        def real_suffixed(kinds, only, pick, part="real-suffix"):
            """`only`: kinds whose first occurrence is suffixed (later occurrences always are) -> no plain key"""
            sfx = frozenset(kinds.index(k) for k in only if k in kinds)
            names = P.names_for(kinds, suffixed=sfx)
            problems = evaluate(names, pick, imgs, dsets, "real", full=True)
            rec.case(key=("real-sfx", tuple(names), pick), nontrivial=True,
                     sample={"part": part, "names": names, "pick": pick}
                     if tuple(only) == ("validation",) and len(names) == 5 else None)
            report(rec, names, pick, "real", True, problems, part)

        # F1. every documented path of length <= 4 that contains a validation step, validation suffix-only (exhaustive)
        for kinds in accepted:
            if "validation" in kinds and len(kinds) <= 4:
                real_suffixed(kinds, ("validation",), (seed + len(kinds)) % 4)
                n_sfx += 1
        # F2. hand-picked pipelines (the user-guide shapes), one or several kinds suffix-only, with/without validation
        mc, dsp, val, flt = "matching_cost", "disparity", "validation", "filter"
        agg, cvc, ref, msc = "aggregation", "cost_volume_confidence", "refinement", "multiscale"
        fixed = [((mc, dsp, flt, val, flt), (val,)), ((mc, dsp, flt, val, flt), (flt,)),
                 ((mc, dsp, flt, val, flt), (flt, val)), ((mc, dsp, flt), (flt,)),
                 ((mc, dsp, ref, val), (ref,)), ((mc, dsp, ref), (ref,)), ((mc, dsp, ref, flt, val), (ref, flt, val)),
                 ((mc, cvc, dsp, val), (cvc,)), ((mc, cvc, dsp), (cvc,)), ((mc, cvc, cvc, dsp, val), (cvc, val)),
                 ((mc, agg, dsp, val), (agg,)), ((mc, agg, dsp), (agg,)), ((mc, agg, cvc, dsp, val), (agg, cvc, val)),
                 ((mc, dsp, val, msc), (val,)), ((mc, dsp, flt, val, msc), (val, msc)),
                 ((mc, dsp, val), (mc, dsp)), ((mc, dsp, val), (mc, dsp, val)),
                 ((mc, agg, cvc, dsp, ref, flt, val), (agg, cvc, ref, flt, val)),
                 (every, (val,)), (every, tuple(P.KINDS))]
        for i, (kinds, only) in enumerate(fixed):
            real_suffixed(kinds, only, (seed + i) % 4)
            n_sfx += 1
        # F3. sampled documented paths: each present kind suffix-only alone, then all of them
        for kinds in [pool[i] for i in rng.choice(len(pool), size=min(n_real_sfx, len(pool)), replace=False)]:
            present = [k for k in P.KINDS if k in kinds]
            for only in [(k,) for k in present if k not in (mc, dsp)] + [tuple(present)]:
                real_suffixed(kinds, only, int(rng.integers(0, 4)), part="real-suffix-sample")
                n_sfx += 1

        # G. one machine checked with one pipeline and then with ANOTHER one, through the public entry
        #    check_configuration.check_pipeline_section: the second accepted pipeline comes back as written (same steps, same
        #    order), whatever the machine checked before ("every check starts from a clean machine")
        n_reuse = 0
        short = [k for k in accepted if 2 <= len(k) <= 4]
        pairs = [(short[i], short[j]) for i, j in zip(rng.integers(0, len(short), size=40 if tier != "smoke" else 6),
                                                      rng.integers(0, len(short), size=40 if tier != "smoke" else 6))]
        pairs += [((mc, dsp, flt), (mc, agg, dsp, flt)), ((mc, agg, dsp, flt), (mc, dsp)), ((mc, dsp, val), (mc, cvc, dsp, ref, val))]
        for ka, kb in pairs:
            problems = reuse_problems(ka, kb, n_reuse % 4, imgs)
            rec.case(key=("reuse", tuple(ka), tuple(kb)), nontrivial=True)
            for clause, msg in problems:
                rec.violation(clause=clause, witness_class="machine-reuse", message=msg,
                              witness={"part": "reuse", "first": list(ka), "second": list(kb), "pick": n_reuse % 4, "clause": clause})
            n_reuse += 1

    return rec.result(
        bound="(G: %d pairs of documented pipelines checked one after the other on ONE machine through check_pipeline_section)  " % n_reuse
              + "all %d step-kind sequences of length <= %d over the 10 kinds (valid parameters, 4 rotating parameter "
              "variants per kind, 24x32 crop of the cones pair, interval [-3,1]); for each of the %d documented paths: "
              "check,check,run,run,check on one machine with recording stubs, plus '.suffix' variants (each first "
              "occurrence alone, then all); %d random suffixed non-paths; %d documented paths (+ one 11-step pipeline "
              "using all 10 kinds) run with the REAL step callbacks; %d more REAL-callback histories with suffix-only "
              "step keys (no plain '<kind>' key: every documented path of length <= 4 containing validation with the "
              "validation key suffixed; 20 hand-picked pipelines with suffix-only validation / filter / refinement / "
              "cost_volume_confidence / aggregation / multiscale / all keys, with and without validation; %d sampled "
              "documented paths with each present kind suffix-only alone and all together); both transition tables "
              "cell by cell (3 states x 10 triggers)"
              % (sum(10 ** i for i in range(max_len + 1)), max_len, len(accepted), n_rej_sfx, len(chosen) - 1, n_sfx,
                 n_real_sfx),
        rule="sequences enumerated in order of length (smallest witness first); repeated kinds are named kind.<n>; a "
             "case is one (step-name list, parameter variant) history on a fresh machine; distinct = distinct "
             "(part, names, variant); non-trivial = at least one step.  accept iff delta* defined, rejection must be "
             "transitions.MachineError; after success state=='begin' and machine.events empty; run trace per scale "
             "(number of processed scales = machine.num_scales as set by run_prepare; C15 polices that number) = "
             "configured steps in order, exactly once, multiscale a no-op on the last scale; stub mode replaces the "
             "bodies of <step>_run/matching_cost_prepare by recorders (run_multiscale stub only moves to the next "
             "scale), real mode records and delegates and additionally requires, when a validation step is "
             "configured, a non-empty right disparity dataset returned by pandora.run (clause C01.run.right).  seed "
             "drives the parameter-variant rotation and the samples.")


def replay(witness):
    with P.quiet(), P.stub_plugins(), tempfile.TemporaryDirectory() as tmp:
        inp = P.write_small_images(tmp)
        imgs, dsets = P.metadata(inp), P.datasets(inp)
        if witness.get("part") == "table":
            return table_reproduces(witness, imgs)
        if witness.get("part") == "reuse":
            return any(c == witness["clause"] for c, _ in reuse_problems(tuple(witness["first"]), tuple(witness["second"]),
                                                                         int(witness["pick"]), imgs))
        problems = evaluate(list(witness["names"]), int(witness["pick"]), imgs, dsets, witness["mode"],
                            bool(witness["full"]))
        return any(c == witness["clause"] for c, _, _ in problems)
