"""Shared helpers of the bounded stand-in (runs under /venv/bin/python with PYTHONPATH=/repo:/verif).

Every bounded module  bounded/Cxx.py  exposes

    run(tier: str, seed: int) -> dict(
        bound=<str: the stated bound of the enumeration>,
        rule=<str: how cases are generated and what makes one distinct / non-trivial>,
        evaluations=<int>, distinct_nontrivial=<int>,
        samples=[<a few cases written out>],
        functions=[<qualified names of the real functions that were executed>],
        violations=[dict(clause=<stable clause id, e.g. 'C07.pixel.outside_right'>,
                         witness_class=<short stable string classifying the witness>,
                         message=<what failed>, witness=<json-serialisable inputs>)])
    replay(witness: dict) -> bool          # True iff the violation reproduces on the real code

Results of this tier are labelled `bounded` in the evidence and are never counted as proved.
"""
import hashlib
import json
import math

import numpy as np


class Recorder:
    def __init__(self, max_violations=20):
        self.evaluations = 0
        self.keys = set()
        self.samples = []
        self.violations = []
        self.max_violations = max_violations
        self.functions = set()

    def case(self, key, nontrivial=True, sample=None):
        self.evaluations += 1
        if nontrivial:
            self.keys.add(hashlib.sha1(repr(key).encode()).hexdigest()[:16])
        if sample is not None and len(self.samples) < 5:
            self.samples.append(jsonable(sample))

    def violation(self, clause, witness_class, message, witness):
        if any(v["clause"] == clause and v["witness_class"] == witness_class for v in self.violations):
            return
        if len(self.violations) < self.max_violations:
            self.violations.append({"clause": clause, "witness_class": witness_class, "message": message,
                                    "witness": jsonable(witness)})

    def result(self, bound, rule):
        return {"bound": bound, "rule": rule, "evaluations": self.evaluations, "distinct_nontrivial": len(self.keys),
                "samples": self.samples, "functions": sorted(self.functions), "violations": self.violations}


def jsonable(x):
    if isinstance(x, np.ndarray):
        return {"__nd__": True, "dtype": str(x.dtype), "shape": list(x.shape), "data": [jsonable(v) for v in x.ravel().tolist()]}
    if isinstance(x, np.generic):
        return jsonable(x.item())
    if isinstance(x, float):
        if math.isnan(x):
            return "nan"
        if math.isinf(x):
            return "inf" if x > 0 else "-inf"
        return x
    if isinstance(x, dict):
        return {str(k): jsonable(v) for k, v in x.items()}
    if isinstance(x, (list, tuple)):
        return [jsonable(v) for v in x]
    if isinstance(x, (int, str, bool)) or x is None:
        return x
    return repr(x)


def unjson(x):
    if isinstance(x, dict) and x.get("__nd__"):
        data = [unjson(v) for v in x["data"]]
        return np.array(data, dtype=x["dtype"]).reshape(x["shape"])
    if isinstance(x, dict):
        return {k: unjson(v) for k, v in x.items()}
    if isinstance(x, list):
        return [unjson(v) for v in x]
    if x == "nan":
        return float("nan")
    if x == "inf":
        return float("inf")
    if x == "-inf":
        return float("-inf")
    return x


def same(a, b):
    """nan-aware exact equality of scalars/arrays"""
    a, b = np.asarray(a), np.asarray(b)
    if a.shape != b.shape:
        return False
    if a.dtype.kind == "f" or b.dtype.kind == "f":
        return bool(np.array_equal(a, b, equal_nan=True))
    return bool(np.array_equal(a, b))
