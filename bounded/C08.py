"""Bounded stand-in of C08 -- right-image products equal the left products of the mirrored problem.

Statement (properties.jsonl, C08): when a validation step makes Pandora produce right-image products, the right
disparity map, validity mask and confidence bands are identical to the left products obtained by running the same
pipeline with the two images (and their masks) exchanged and the disparity interval negated and swapped, and conversely
the right products of that mirrored run equal the original left products.  Without a validation step the right dataset
is empty, and adding a cross-checking step without filling changes nothing in the left disparity map.

What is executed: the real `pandora.run` (fresh `PandoraMachine`, configuration completed by the real
`check_pipeline_section`, datasets accepted by the real `check_datasets`) twice per case:
    A = run(L, R, [a, b])          B = run(R, L, [-b, -a])
Oracle (from the statement only, nothing of the implementation is re-computed):
    C08.right_eq_mirror_left.<product>   A.right.<product> == B.left.<product>
    C08.left_eq_mirror_right.<product>   A.left.<product>  == B.right.<product>
        <product> in disparity_map, validity_mask, confidence_measure (band names and values)
    C08.noright        pipeline without validation  =>  right dataset has no variable at all
    C08.leftindep      pipeline P without validation vs P + {validation: cross_checking_accurate} (no
                       interpolated_disparity) appended  =>  identical left disparity_map
Comparison is exact and NaN-aware (`same`), also for zncc / bilateral: both sides of every equality are the result of
the same deterministic code on the same input contents, so no tolerance is needed (and none is used).
"""
import copy
import itertools
import logging
import os
import warnings

os.environ.setdefault("NUMBA_CACHE_DIR", "/tmp/pv_numba_cache")
# images here are tiny: numba's default of one thread per core only adds contention (measured 3x CPU for the same wall)
os.environ.setdefault("NUMBA_NUM_THREADS", "2")

import numpy as np
import xarray as xr

from bounded.common import Recorder, same

logging.getLogger("transitions.core").setLevel(logging.ERROR)

PRODUCTS = ("disparity_map", "validity_mask", "confidence_measure")

_CCA = {"validation_method": "cross_checking_accurate"}

# name -> (pipeline without its validation step, validation step, steps placed after the validation step)
PIPELINES = {
    "sad_wta": (
        {"matching_cost": {"matching_cost_method": "sad", "window_size": 3, "subpix": 1},
         "disparity": {"disparity_method": "wta", "invalid_disparity": -9999}},
        dict(_CCA), {}),
    "census_cbca_median": (
        {"matching_cost": {"matching_cost_method": "census", "window_size": 3, "subpix": 1},
         "aggregation": {"aggregation_method": "cbca"},
         "disparity": {"disparity_method": "wta", "invalid_disparity": -9999},
         "filter": {"filter_method": "median", "filter_size": 3}},
        dict(_CCA), {}),
    "zncc_std_vfit_median": (
        {"matching_cost": {"matching_cost_method": "zncc", "window_size": 3, "subpix": 2},
         "cost_volume_confidence": {"confidence_method": "std_intensity"},
         "disparity": {"disparity_method": "wta", "invalid_disparity": "NaN"},
         "refinement": {"refinement_method": "vfit"},
         "filter": {"filter_method": "median", "filter_size": 3}},
        dict(_CCA, cross_checking_threshold=1.0), {}),
    "sad2_amb_quadratic_bilateral_interp_mccnn": (
        {"matching_cost": {"matching_cost_method": "sad", "window_size": 3, "subpix": 2},
         "cost_volume_confidence": {"confidence_method": "ambiguity", "eta_max": 0.7, "eta_step": 0.1},
         "disparity": {"disparity_method": "wta", "invalid_disparity": -9999},
         "refinement": {"refinement_method": "quadratic"},
         "filter": {"filter_method": "bilateral", "sigma_color": 4.0, "sigma_space": 3.0}},
        dict(_CCA, interpolated_disparity="mc-cnn"), {}),
    "census5_cbca_interp_sgm_filterafter": (
        {"matching_cost": {"matching_cost_method": "census", "window_size": 5, "subpix": 1},
         "aggregation": {"aggregation_method": "cbca", "cbca_intensity": 6.0, "cbca_distance": 4},
         "disparity": {"disparity_method": "wta", "invalid_disparity": -9999}},
        dict(_CCA, interpolated_disparity="sgm"),
        {"filter": {"filter_method": "median", "filter_size": 3}}),
    "ssd_twoconf_vfit_thr0": (
        {"matching_cost": {"matching_cost_method": "ssd", "window_size": 1, "subpix": 1},
         "cost_volume_confidence": {"confidence_method": "std_intensity"},
         "cost_volume_confidence.amb": {"confidence_method": "ambiguity", "eta_max": 0.5, "eta_step": 0.1},
         "disparity": {"disparity_method": "wta", "invalid_disparity": -9999},
         "refinement": {"refinement_method": "vfit"}},
        dict(_CCA, cross_checking_threshold=0.0),
        {"filter": {"filter_method": "median", "filter_size": 3}}),
    "zncc5_risk_quadratic": (
        {"matching_cost": {"matching_cost_method": "zncc", "window_size": 5, "subpix": 4},
         "cost_volume_confidence": {"confidence_method": "risk", "eta_max": 0.5, "eta_step": 0.1},
         "disparity": {"disparity_method": "wta", "invalid_disparity": -9999},
         "refinement": {"refinement_method": "quadratic"}},
        dict(_CCA, cross_checking_threshold=1.5), {}),
}

INTERVALS_QUICK = [(-3, 1), (0, 3), (-4, -1)]
INTERVALS_THOROUGH = [(-3, 1), (0, 3), (-4, -1), (-2, 2), (1, 4), (-5, 0), (-1, 0), (2, 3)]
SIZES = [(12, 16), (16, 24)]
MASK_VARIANTS = ("none", "left", "both")


# ----------------------------------------------------------------------------------------------------------------------
# inputs
# ----------------------------------------------------------------------------------------------------------------------
def make_pair(shape, img_seed):
    """Integer-valued textured pair: the right image is the left one displaced by -2 (upper half) / +1 (lower half)
    columns plus {0,1} noise, so that matches, occlusions and mismatches all occur inside the tested intervals."""
    rng = np.random.default_rng([img_seed, shape[0], shape[1]])
    rows, cols = shape
    base = rng.integers(0, 32, size=(rows, cols + 8)).astype(np.float32)
    left = base[:, 4:4 + cols].copy()
    right = np.empty_like(left)
    half = rows // 2
    right[:half] = base[:half, 6:6 + cols]  # left(x) = right(x - 2)
    right[half:] = base[half:, 3:3 + cols]  # left(x) = right(x + 1)
    right += rng.integers(0, 2, size=shape).astype(np.float32)
    return left, right


def make_masks(shape, variant, img_seed):
    """Dataset mask convention used here: 0 valid, 1 no data, 2 invalid (valid_pixels=0, no_data_mask=1)."""
    if variant == "none":
        return None, None
    rng = np.random.default_rng([img_seed, shape[0], shape[1], 77])
    msk_l = rng.choice(np.array([0, 0, 0, 0, 0, 0, 0, 0, 1, 2], dtype=np.int16), size=shape)
    if variant == "left":
        return msk_l, None
    msk_r = rng.choice(np.array([0, 0, 0, 0, 0, 0, 0, 0, 1, 2], dtype=np.int16), size=shape)
    return msk_l, msk_r


def dataset(img, msk, disp):
    """In-memory image dataset as documented in the user guide (as_an_api.rst): im, msk (optional), disparity
    (optional), and the mandatory attributes."""
    from pandora.img_tools import add_disparity

    data = xr.Dataset(
        {"im": (["row", "col"], np.array(img, dtype=np.float32))},
        coords={"row": np.arange(img.shape[0]), "col": np.arange(img.shape[1])},
        attrs={"crs": None, "transform": None, "valid_pixels": 0, "no_data_mask": 1, "no_data_img": -9999},
    )
    data.pipe(add_disparity, disparity=None if disp is None else [int(disp[0]), int(disp[1])], window=None)
    if msk is not None:
        data["msk"] = xr.DataArray(np.array(msk, dtype=np.int16), dims=["row", "col"])
    return data


def metadata(shape, disp):
    """What pandora.img_tools.get_metadata gives check_conf for a single-band image of that size."""
    from pandora.img_tools import add_disparity

    meta = xr.Dataset(data_vars={}, coords={"band_im": [None], "row": np.arange(shape[0]), "col": np.arange(shape[1])})
    return meta.pipe(add_disparity, disparity=None if disp is None else [int(disp[0]), int(disp[1])], window=None)


def assemble(name, with_validation=True, strip_interpolation=False):
    before, valid, after = PIPELINES[name]
    pipe = copy.deepcopy(before)
    if with_validation:
        val = copy.deepcopy(valid)
        if strip_interpolation:
            val.pop("interpolated_disparity", None)
        pipe["validation"] = val
    for key, value in after.items():
        pipe[key + ".after" if key in pipe else key] = copy.deepcopy(value)
    return pipe


def execute(img_l, img_r, msk_l, msk_r, interval, pipeline, right_disp_explicit=False):
    """One real run: fresh machine, checked configuration, checked datasets, pandora.run."""
    import pandora
    from pandora.check_configuration import check_datasets, check_pipeline_section
    from pandora.state_machine import PandoraMachine

    right_disp = (-interval[1], -interval[0]) if right_disp_explicit else None
    left = dataset(img_l, msk_l, interval)
    right = dataset(img_r, msk_r, right_disp)
    machine = PandoraMachine()
    cfg = check_pipeline_section(
        {"pipeline": copy.deepcopy(pipeline)}, metadata(img_l.shape, interval), metadata(img_r.shape, right_disp),
        machine)
    check_datasets(left, right)
    out_left, out_right = pandora.run(machine, left, right, cfg)
    return out_left, out_right


def product_diff(ds_a, ds_b, product):
    """None if the product is identical in both datasets, else a short reason"""
    in_a, in_b = product in ds_a.data_vars, product in ds_b.data_vars
    if not in_a and not in_b:
        return None
    if in_a != in_b:
        return "present-on-one-side-only"
    if product == "confidence_measure":
        names_a = [str(n) for n in ds_a.coords["indicator"].data]
        names_b = [str(n) for n in ds_b.coords["indicator"].data]
        if names_a != names_b:
            return "band-names-differ"
    if not same(ds_a[product].data, ds_b[product].data):
        return "values-differ"
    return None


def mirror_checks(case):
    """Returns (list of (clause, witness_class, message), nontrivial flag, small description)"""
    img_l, img_r = make_pair(tuple(case["shape"]), case["img_seed"])
    msk_l, msk_r = make_masks(tuple(case["shape"]), case["masks"], case["img_seed"])
    a, b = case["interval"]
    pipe = assemble(case["pipeline"])
    left_a, right_a = execute(img_l, img_r, msk_l, msk_r, (a, b), pipe, case["right_disp_explicit"])
    left_b, right_b = execute(img_r, img_l, msk_r, msk_l, (-b, -a), pipe, case["right_disp_explicit"])
    failures = []
    for product in PRODUCTS:
        why = product_diff(right_a, left_b, product)
        if why:
            failures.append(("C08.right_eq_mirror_left." + product, why,
                             "right %s of run(L,R,[%d,%d]) differs from left %s of run(R,L,[%d,%d]): %s"
                             % (product, a, b, product, -b, -a, why)))
        why = product_diff(left_a, right_b, product)
        if why:
            failures.append(("C08.left_eq_mirror_right." + product, why,
                             "left %s of run(L,R,[%d,%d]) differs from right %s of run(R,L,[%d,%d]): %s"
                             % (product, a, b, product, -b, -a, why)))
    if "disparity_map" not in right_a.data_vars:
        failures.append(("C08.right_products_present", "no-right-disparity-map",
                         "pipeline with a validation step returned a right dataset without disparity_map"))
        nontrivial = False
        n_valid = 0
    else:
        disp = right_a["disparity_map"].data
        invalid = (right_a["validity_mask"].data & INVALID_BITS) != 0
        n_valid = int((~invalid).sum())
        nontrivial = n_valid >= 4 and len(np.unique(disp[~invalid])) >= 2
    return failures, nontrivial, {"right_valid_pixels": n_valid}


# bits of the validity mask that mean "the point is invalid" (user guide, output.rst: bits 0, 1, 6, 7, 8, 9)
INVALID_BITS = (1 << 0) | (1 << 1) | (1 << 6) | (1 << 7) | (1 << 8) | (1 << 9)


def novalidation_checks(case):
    img_l, img_r = make_pair(tuple(case["shape"]), case["img_seed"])
    msk_l, msk_r = make_masks(tuple(case["shape"]), case["masks"], case["img_seed"])
    interval = tuple(case["interval"])
    pipe_without = assemble(case["pipeline"], with_validation=False)
    pipe_with = copy.deepcopy(pipe_without)
    pipe_with["validation"] = dict(_CCA)
    left_0, right_0 = execute(img_l, img_r, msk_l, msk_r, interval, pipe_without)
    left_1, _ = execute(img_l, img_r, msk_l, msk_r, interval, pipe_with)
    failures = []
    if len(right_0.data_vars) != 0 or any(size != 0 for size in right_0.sizes.values()):
        failures.append(("C08.noright", "right-dataset-not-empty",
                         "pipeline without validation returned a right dataset with variables %s"
                         % sorted(str(v) for v in right_0.data_vars)))
    if not same(left_0["disparity_map"].data, left_1["disparity_map"].data):
        failures.append(("C08.leftindep", "left-disparity-map-changed",
                         "appending {validation: cross_checking_accurate} (no interpolated_disparity) changed %d "
                         "pixels of the left disparity_map"
                         % int((~np.isclose(left_0["disparity_map"].data, left_1["disparity_map"].data,
                                            equal_nan=True)).sum())))
    disp = left_0["disparity_map"].data
    invalid = (left_0["validity_mask"].data & INVALID_BITS) != 0
    nontrivial = int((~invalid).sum()) >= 4 and len(np.unique(disp[~invalid])) >= 2
    return failures, nontrivial, {"left_valid_pixels": int((~invalid).sum())}


# ----------------------------------------------------------------------------------------------------------------------
# enumeration
# ----------------------------------------------------------------------------------------------------------------------
def enumerate_domain(tier, seed):
    names = list(PIPELINES)
    if tier == "quick":
        intervals, img_seeds = INTERVALS_QUICK, [seed]
    else:
        intervals, img_seeds = INTERVALS_THOROUGH, [seed, seed + 1, seed + 2]
    count = 0
    # smallest images first
    for shape in SIZES:
        for img_seed in img_seeds:
            for masks, interval, name in itertools.product(MASK_VARIANTS, intervals, names):
                count += 1
                if tier == "quick":
                    # quick: a Latin-square third of (mask variant x interval x pipeline) per size (every pipeline with
                    # every mask variant and every interval at least once), plus every interval without masks at 12x16
                    diagonal = (MASK_VARIANTS.index(masks) + intervals.index(interval) + names.index(name)
                                + SIZES.index(shape)) % 3 == 0
                    if not diagonal and not (shape == SIZES[0] and masks == "none"):
                        continue
                yield {"kind": "mirror", "shape": list(shape), "img_seed": img_seed, "masks": masks,
                       "interval": list(interval), "pipeline": name,
                       "right_disp_explicit": bool(count % 3 == 0)}
    for shape in SIZES:
        for img_seed in img_seeds:
            for masks, interval, name in itertools.product(MASK_VARIANTS, intervals[:1 if tier == "quick" else 3], names):
                if tier == "quick" and (shape, masks) not in ((SIZES[0], "none"), (SIZES[1], "both")):
                    continue
                yield {"kind": "novalidation", "shape": list(shape), "img_seed": img_seed, "masks": masks,
                       "interval": list(interval), "pipeline": name, "right_disp_explicit": False}


def evaluate(case):
    with warnings.catch_warnings():
        warnings.simplefilter("ignore")  # All-NaN slices, 0/0 in the bilateral filter on fully invalid windows
        if case["kind"] == "mirror":
            return mirror_checks(case)
        return novalidation_checks(case)


def run(tier, seed):
    rec = Recorder()
    rec.functions.update([
        "pandora.run", "pandora.state_machine.PandoraMachine.run_prepare", "pandora.state_machine.PandoraMachine.run",
        "pandora.state_machine.PandoraMachine.matching_cost_prepare",
        "pandora.state_machine.PandoraMachine.matching_cost_run",
        "pandora.state_machine.PandoraMachine.aggregation_run",
        "pandora.state_machine.PandoraMachine.cost_volume_confidence_run",
        "pandora.state_machine.PandoraMachine.disparity_run", "pandora.state_machine.PandoraMachine.refinement_run",
        "pandora.state_machine.PandoraMachine.filter_run", "pandora.state_machine.PandoraMachine.validation_run",
        "pandora.state_machine.PandoraMachine.run_exit",
        "pandora.check_configuration.check_pipeline_section", "pandora.check_configuration.check_datasets",
        "pandora.check_configuration.read_multiscale_params",
    ])
    for case in enumerate_domain(tier, seed):
        try:
            failures, nontrivial, info = evaluate(case)
        except Exception as exc:  # a crash of the real code is reported, never swallowed
            failures = [("C08.run_completes", "exception-" + type(exc).__name__,
                         "pandora.run raised %s: %s" % (type(exc).__name__, str(exc)[:300]))]
            nontrivial, info = False, {}
        key = (case["kind"], tuple(case["shape"]), case["img_seed"], case["masks"], tuple(case["interval"]),
               case["pipeline"], case["right_disp_explicit"])
        rec.case(key=key, nontrivial=nontrivial, sample=dict(case, **info))
        for clause, witness_class, message in failures:
            rec.violation(clause=clause, witness_class=witness_class, message=message, witness=dict(case, clause=clause))
    return rec.result(
        bound="integer-valued (0..32) synthetic pairs of size 12x16 and 16x24 (piecewise-constant true disparity -2/+1 "
              "plus {0,1} noise), masks in {none, left only, both} with values {0 valid, 1 nodata, 2 invalid}, "
              "disparity intervals %s (quick) / %s (thorough), %d pipelines with a cross_checking_accurate step "
              "(sad/ssd/census/zncc, subpix 1/2/4, cbca, std_intensity/ambiguity/risk confidence, vfit/quadratic, "
              "median/bilateral filter before or after validation, interpolated_disparity mc_cnn/sgm); right "
              "interval either absent from the right dataset or given explicitly as [-b,-a]; plus the same pipelines "
              "without validation (right dataset empty; + cross-checking without filling leaves the left map)"
              % (INTERVALS_QUICK, INTERVALS_THOROUGH, len(PIPELINES)),
        rule="thorough: cases = product(size, 3 image seeds derived from --seed, mask variant, interval, pipeline), "
             "smaller size first; quick: one image seed, per size a Latin-square third of (mask variant x interval x "
             "pipeline) (every pipeline meets every mask variant and every interval) plus all intervals x pipelines "
             "without masks at 12x16; the no-validation cases use the first interval(s) only; a case is one "
             "(A=run(L,R,[a,b]), B=run(R,L,[-b,-a])) double execution of the real pandora.run; "
             "it is distinct by that tuple and non-trivial when the right (resp. left for the no-validation cases) "
             "map has >= 4 valid pixels carrying >= 2 different disparities; comparison exact, NaN-aware, no "
             "tolerance (both sides are the same deterministic computation on equal inputs)")


def replay(witness):
    case = {k: witness[k] for k in ("kind", "shape", "img_seed", "masks", "interval", "pipeline", "right_disp_explicit")}
    try:
        failures, _, _ = evaluate(case)
    except Exception:
        return witness.get("clause") == "C08.run_completes" or "clause" not in witness
    if "clause" in witness:
        return any(clause == witness["clause"] for clause, _, _ in failures)
    return bool(failures)
