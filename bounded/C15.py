"""Bounded stand-in of C15 -- a multiscale step really processes num_scales scales, coarse to fine.

Statement (properties.jsonl, C15): when the pipeline contains a multiscale step, the steps before it are executed once
per scale on images whose sizes shrink by scale_factor per level, from the coarsest level to the original images, the
coarsest level searching the user interval divided by scale_factor^(num_scales-1); steps after the multiscale step run
once, at full resolution, and the returned maps have the original image size.  At each finer level the interval
searched at a pixel is scale_factor times [min - marge, max + marge] of the valid coarser disparities inside the
matching window around a coarse pixel at most one pixel away from its geometric parent, or the whole user interval of
that level when that coarse pixel was invalid or on the border; the input datasets are not modified.

What is executed: the real `pandora.run` on a `RecordingMachine` -- a subclass of the real `PandoraMachine` defined
*here* (nothing is changed in /repo) whose ten `<step>_run` callbacks and `run_multiscale` first append an observation
(callback, step name, image shape, current scale; for `matching_cost_run` the [min,max] disparity grids the machine is
about to search; for `run_multiscale` the coarse disparity map / validity mask it is given) and then call the
unmodified method.  The oracle below is written from the statement and multiscale.rst only.

Clauses (each has its own id so that a known failure of one does not hide the others)
    C15.params              read_multiscale_params(checked cfg) == (num_scales, scale_factor) of the multiscale step
    C15.scales.count        every step before the multiscale step is executed exactly num_scales times
    C15.after.once          every step after the multiscale step is executed exactly once
    C15.after.fullres       ... on the original-size images
    C15.output.shape        returned left (and right, when produced) maps have the original row/col size
    C15.frame.inputs        the two input datasets are deep-equal before / after (variables, coords, attrs)
    C15.run_completes       pandora.run does not raise on a checked configuration
  evaluated only when the number of matching_cost executions equals num_scales (i.e. not under D1):
    C15.pyramid.shapes      k-th execution works on rows/cols = previous-finer-size / scale_factor (floor or ceil when
                            not divisible), last execution on the original size
    C15.interval.coarsest   first execution searches user / scale_factor^(num_scales-1) everywhere
    C15.interval.finer      per-pixel relation of the statement (left side); `.right` suffix for the right side when a
                            validation step makes the machine process the right image too (user interval [-max,-min])
    C15.interval.grid_covers_image   the grid handed to a level is at least as large as that level's image

Modes.  `natural`: pandora.run exactly as shipped.  `d1_bypassed`: while pandora.run executes, the name
`pandora.read_multiscale_params` (looked up by pandora.run) is temporarily bound, in this process only, to a stand-in
returning the (num_scales, scale_factor) of the pipeline's multiscale step -- what its docstring promises.  This makes
the finer-grained clauses observable on the current tree, where D1 (the real function looks for "multiscale" at the top
level of the configuration and therefore always answers (1, 1)) otherwise stops everything at C15.scales.count.
Violations seen only in that mode carry the suffix " [D1-bypassed]" in their witness_class and `mode` in the witness:
they are *not* reachable through the shipped pandora.run today.
"""
import copy
import itertools
import logging
import math
import os
import warnings

os.environ.setdefault("NUMBA_CACHE_DIR", "/tmp/pv_numba_cache")
# images here are tiny: numba's default of one thread per core only adds contention (measured 3x CPU for the same wall)
os.environ.setdefault("NUMBA_NUM_THREADS", "2")

import numpy as np
import xarray as xr

from bounded.common import Recorder, same

logging.getLogger("transitions.core").setLevel(logging.ERROR)

# bits of the validity mask that mean "the point is invalid" (user guide, output.rst: bits 0, 1, 6, 7, 8, 9)
INVALID_BITS = (1 << 0) | (1 << 1) | (1 << 6) | (1 << 7) | (1 << 8) | (1 << 9)

SHAPE = (48, 64)

CALLBACKS = ("matching_cost_run", "aggregation_run", "semantic_segmentation_run", "optimization_run", "disparity_run",
             "filter_run", "refinement_run", "validation_run", "cost_volume_confidence_run", "run_multiscale")

_MS = "__MULTISCALE__"  # placeholder replaced by the multiscale step of the case
_WTA = {"disparity_method": "wta", "invalid_disparity": -9999}

# ordered pipelines; band is filled in for multiband inputs
PIPELINES = {
    "sad3_median|ms": [
        ("matching_cost", {"matching_cost_method": "sad", "window_size": 3, "subpix": 1}),
        ("disparity", dict(_WTA)),
        ("filter", {"filter_method": "median", "filter_size": 3}),
        (_MS, None)],
    "census5_cbca|ms|median": [
        ("matching_cost", {"matching_cost_method": "census", "window_size": 5, "subpix": 1}),
        ("aggregation", {"aggregation_method": "cbca"}),
        ("disparity", dict(_WTA)),
        (_MS, None),
        ("filter", {"filter_method": "median", "filter_size": 3})],
    "sad3_median|ms|validation_median": [
        ("matching_cost", {"matching_cost_method": "sad", "window_size": 3, "subpix": 1}),
        ("disparity", dict(_WTA)),
        ("filter", {"filter_method": "median", "filter_size": 3}),
        (_MS, None),
        ("validation", {"validation_method": "cross_checking_accurate"}),
        ("filter.after", {"filter_method": "median", "filter_size": 3})],
    "zncc5_vfit_median_validation|ms": [
        ("matching_cost", {"matching_cost_method": "zncc", "window_size": 5, "subpix": 2}),
        ("disparity", dict(_WTA)),
        ("refinement", {"refinement_method": "vfit"}),
        ("filter", {"filter_method": "median", "filter_size": 3}),
        ("validation", {"validation_method": "cross_checking_accurate"}),
        (_MS, None)],
    "sad1_amb|ms|quadratic_bilateral": [
        ("matching_cost", {"matching_cost_method": "sad", "window_size": 1, "subpix": 1}),
        ("cost_volume_confidence", {"confidence_method": "ambiguity", "eta_max": 0.5, "eta_step": 0.1}),
        ("disparity", dict(_WTA)),
        (_MS, None),
        ("refinement", {"refinement_method": "quadratic"}),
        ("filter", {"filter_method": "bilateral", "sigma_color": 4.0, "sigma_space": 3.0})],
}

INPUT_VARIANTS = ("mono", "mono_masks", "multiband_masks")


# ----------------------------------------------------------------------------------------------------------------------
# inputs
# ----------------------------------------------------------------------------------------------------------------------
def make_images(variant, img_seed):
    """48x64 integer-valued smooth-ish texture (so that the Gaussian pyramid keeps structure); the right image is the
    left one displaced by -4 columns (upper half) / +2 columns (lower half) plus {0,1} noise."""
    rows, cols = SHAPE
    rng = np.random.default_rng([img_seed, 15])
    coarse = rng.integers(0, 64, size=(rows // 4 + 2, (cols + 16) // 4 + 2)).astype(np.float64)
    big = np.kron(coarse, np.ones((4, 4)))[:rows, :cols + 16]
    big = np.floor(big + rng.integers(0, 8, size=big.shape)).astype(np.float32)
    left = big[:, 8:8 + cols].copy()
    right = np.empty_like(left)
    half = rows // 2
    right[:half] = big[:half, 12:12 + cols]  # left(x) = right(x - 4)
    right[half:] = big[half:, 6:6 + cols]  # left(x) = right(x + 2)
    right += rng.integers(0, 2, size=SHAPE).astype(np.float32)
    msk_l = msk_r = None
    if variant != "mono":
        pool = np.array([0] * 18 + [1, 2], dtype=np.int16)
        msk_l = rng.choice(pool, size=SHAPE)
        msk_r = rng.choice(pool, size=SHAPE)
    if variant == "multiband_masks":
        left = np.stack([np.float32(63) - left, left])
        right = np.stack([np.float32(63) - right, right])
    return left, right, msk_l, msk_r


def dataset(img, msk, disp):
    from pandora.img_tools import add_disparity

    rows, cols = img.shape[-2:]
    if img.ndim == 2:
        data = xr.Dataset({"im": (["row", "col"], np.array(img, dtype=np.float32))},
                          coords={"row": np.arange(rows), "col": np.arange(cols)})
    else:
        data = xr.Dataset({"im": (["band_im", "row", "col"], np.array(img, dtype=np.float32))},
                          coords={"band_im": ["r", "g"], "row": np.arange(rows), "col": np.arange(cols)})
    data.attrs = {"crs": None, "transform": None, "valid_pixels": 0, "no_data_mask": 1, "no_data_img": -9999}
    data.pipe(add_disparity, disparity=None if disp is None else [int(disp[0]), int(disp[1])], window=None)
    if msk is not None:
        data["msk"] = xr.DataArray(np.array(msk, dtype=np.int16), dims=["row", "col"])
    return data


def metadata(img, disp):
    from pandora.img_tools import add_disparity

    rows, cols = img.shape[-2:]
    bands = [None] if img.ndim == 2 else ["r", "g"]
    meta = xr.Dataset(data_vars={}, coords={"band_im": bands, "row": np.arange(rows), "col": np.arange(cols)})
    return meta.pipe(add_disparity, disparity=None if disp is None else [int(disp[0]), int(disp[1])], window=None)


def assemble(case):
    pipe = {}
    for key, value in PIPELINES[case["pipeline"]]:
        if key == _MS:
            pipe["multiscale"] = {"multiscale_method": "fixed_zoom_pyramid", "num_scales": case["num_scales"],
                                  "scale_factor": case["scale_factor"], "marge": case["marge"]}
        else:
            value = copy.deepcopy(value)
            if key == "matching_cost" and case["input"] == "multiband_masks":
                value["band"] = "g"
            pipe[key] = value
    return pipe


def user_interval(case):
    """divisible: [-2, 1] * scale_factor^(num_scales-1), so that every level's user interval is integral"""
    power = case["scale_factor"] ** (case["num_scales"] - 1)
    if case["interval"] == "divisible":
        return (-2 * power, 1 * power)
    return (-2 * power - 1, 1 * power + 1)  # "nondivisible": no level but the finest has an integral user interval


# ----------------------------------------------------------------------------------------------------------------------
# observation
# ----------------------------------------------------------------------------------------------------------------------
_MACHINE_CLASS = []


def recording_machine():
    """A subclass of the real PandoraMachine whose callbacks record what they are about to work on"""
    if _MACHINE_CLASS:
        return _MACHINE_CLASS[0]()
    from pandora.state_machine import PandoraMachine

    class RecordingMachine(PandoraMachine):
        def __init__(self):
            super().__init__()
            self.trace = []

    def wrap(name):
        original = getattr(PandoraMachine, name)

        def method(self, cfg, input_step):
            entry = {"callback": name, "step": input_step, "scale": self.current_scale,
                     "shape": tuple(int(n) for n in self.left_img["im"].shape[-2:])}
            if name == "matching_cost_run":
                entry["disp_min"] = np.array(self.disp_min, dtype=np.float64)
                entry["disp_max"] = np.array(self.disp_max, dtype=np.float64)
                if self.right_disp_map == "cross_checking_accurate":
                    entry["right_disp_min"] = np.array(self.right_disp_min, dtype=np.float64)
                    entry["right_disp_max"] = np.array(self.right_disp_max, dtype=np.float64)
            if name == "run_multiscale":
                entry["coarse_disp"] = np.array(self.left_disparity["disparity_map"].data, dtype=np.float64)
                entry["coarse_mask"] = np.array(self.left_disparity["validity_mask"].data).astype(np.int64)
                if self.right_disp_map == "cross_checking_accurate" and "disparity_map" in self.right_disparity:
                    entry["right_coarse_disp"] = np.array(self.right_disparity["disparity_map"].data, dtype=np.float64)
                    entry["right_coarse_mask"] = np.array(self.right_disparity["validity_mask"].data).astype(np.int64)
            self.trace.append(entry)
            return original(self, cfg, input_step)

        method.__name__ = name
        return method

    for callback in CALLBACKS:
        setattr(RecordingMachine, callback, wrap(callback))
    _MACHINE_CLASS.append(RecordingMachine)
    return RecordingMachine()


def params_from_pipeline(cfg):
    """Stand-in used in mode d1_bypassed only: the multiscale parameters of the pipeline's multiscale step"""
    for key, value in cfg.get("pipeline", {}).items():
        if key.split(".")[0] == "multiscale":
            return value["num_scales"], value["scale_factor"]
    return 1, 1


def snapshot(data):
    return {"vars": {str(k): (v.dims, np.array(v.data, copy=True)) for k, v in data.data_vars.items()},
            "coords": {str(k): np.array(v.data, copy=True) for k, v in data.coords.items()},
            "attrs": copy.deepcopy(dict(data.attrs))}


def _eq(a, b):
    if isinstance(a, np.ndarray) or isinstance(b, np.ndarray):
        a, b = np.asarray(a), np.asarray(b)
        if a.dtype.kind in "OUS" or b.dtype.kind in "OUS":
            return a.shape == b.shape and bool(np.all(a == b))
        return same(a, b)
    if isinstance(a, float) and isinstance(b, float) and math.isnan(a) and math.isnan(b):
        return True
    if isinstance(a, (list, tuple)) and isinstance(b, (list, tuple)):
        return len(a) == len(b) and type(a) is type(b) and all(_eq(x, y) for x, y in zip(a, b))
    if isinstance(a, dict) and isinstance(b, dict):
        return a.keys() == b.keys() and all(_eq(a[k], b[k]) for k in a)
    try:
        return bool(a == b) and type(a) is type(b)
    except Exception:
        return False


def snapshot_diff(before, data):
    """list of short descriptions of what differs between the snapshot and the dataset now"""
    after = snapshot(data)
    out = []
    for part in ("vars", "coords", "attrs"):
        for key in sorted(set(before[part]) | set(after[part])):
            if key not in after[part]:
                out.append("%s[%s] removed" % (part, key))
            elif key not in before[part]:
                out.append("%s[%s] added" % (part, key))
            elif part == "vars":
                (dims_b, arr_b), (dims_a, arr_a) = before[part][key], after[part][key]
                if dims_b != dims_a or arr_b.dtype != arr_a.dtype or not same(arr_b, arr_a):
                    out.append("vars[%s] changed" % key)
            elif not _eq(before[part][key], after[part][key]):
                out.append("%s[%s] changed" % (part, key))
    return out


def execute(case):
    """Runs the case on the real code; returns a dict of observations"""
    import pandora
    from pandora.check_configuration import check_datasets, check_pipeline_section

    interval = user_interval(case)
    img_l, img_r, msk_l, msk_r = make_images(case["input"], case["img_seed"])
    left, right = dataset(img_l, msk_l, interval), dataset(img_r, msk_r, None)
    machine = recording_machine()
    pipe = assemble(case)
    cfg = check_pipeline_section({"pipeline": copy.deepcopy(pipe)}, metadata(img_l, interval), metadata(img_r, None),
                                 machine)
    check_datasets(left, right)
    snap_l, snap_r = snapshot(left), snapshot(right)
    obs = {"interval": interval, "pipe": pipe, "cfg": cfg, "error": None, "left": None, "right": None}
    shipped = pandora.read_multiscale_params
    try:
        obs["params"] = tuple(shipped(copy.deepcopy(cfg)))
    except Exception as exc:
        obs["params"] = exc
    if case["mode"] == "d1_bypassed":
        pandora.read_multiscale_params = params_from_pipeline
    try:
        obs["left"], obs["right"] = pandora.run(machine, left, right, cfg)
    except Exception as exc:  # reported under C15.run_completes
        obs["error"] = exc
    finally:
        pandora.read_multiscale_params = shipped
    obs["trace"] = machine.trace
    obs["frame_left"] = snapshot_diff(snap_l, left)
    obs["frame_right"] = snapshot_diff(snap_r, right)
    return obs


# ----------------------------------------------------------------------------------------------------------------------
# oracle
# ----------------------------------------------------------------------------------------------------------------------
def whole_ok(observed, exact):
    """observed bound of a 'whole user interval of the level': exact when integral, else any neighbouring rounding"""
    if float(exact).is_integer():
        return observed == exact
    return np.abs(observed - exact) < 1.0


def expected_from_coarse(coarse_disp, coarse_mask, window, marge, factor):
    """Per coarse pixel: (is_whole, emin, emax) as the statement defines them"""
    rows, cols = coarse_disp.shape
    off = (window - 1) // 2
    valid = ((coarse_mask & INVALID_BITS) == 0) & ~np.isnan(coarse_disp)
    is_whole = np.ones((rows, cols), dtype=bool)
    emin = np.full((rows, cols), np.nan)
    emax = np.full((rows, cols), np.nan)
    for i in range(off, rows - off):
        for j in range(off, cols - off):
            if not valid[i, j]:
                continue
            win = coarse_disp[i - off:i + off + 1, j - off:j + off + 1]
            vals = win[valid[i - off:i + off + 1, j - off:j + off + 1]]
            is_whole[i, j] = False
            emin[i, j] = factor * (vals.min() - marge)
            emax[i, j] = factor * (vals.max() + marge)
    return is_whole, emin, emax


def finer_mismatches(grid_min, grid_max, shape, coarse_disp, coarse_mask, window, marge, factor, whole, tol):
    """-> (bad, near_whole): boolean maps (level image shape); `bad` marks the pixels whose searched interval is not
    one the statement allows, `near_whole` the pixels having an invalid/border coarse pixel among the admissible ones
    (geometric parent +- 1), used only to classify the witnesses"""
    rows, cols = shape
    gmin, gmax = grid_min[:rows, :cols], grid_max[:rows, :cols]
    is_whole, emin, emax = expected_from_coarse(coarse_disp, coarse_mask, window, marge, factor)
    crow, ccol = coarse_disp.shape
    parent_r = np.arange(rows) // factor
    parent_c = np.arange(cols) // factor
    whole_match = whole_ok(gmin, whole[0]) & whole_ok(gmax, whole[1])
    ok = np.zeros((rows, cols), dtype=bool)
    near_whole = np.zeros((rows, cols), dtype=bool)
    for d_r, d_c in itertools.product((-1, 0, 1), repeat=2):
        q_r, q_c = parent_r + d_r, parent_c + d_c
        inside = ((q_r >= 0) & (q_r < crow))[:, None] & ((q_c >= 0) & (q_c < ccol))[None, :]
        q_r, q_c = np.clip(q_r, 0, crow - 1), np.clip(q_c, 0, ccol - 1)
        cand_whole = is_whole[np.ix_(q_r, q_c)]
        cand_min, cand_max = emin[np.ix_(q_r, q_c)], emax[np.ix_(q_r, q_c)]
        with np.errstate(invalid="ignore"):
            close = (np.abs(gmin - cand_min) <= tol * (1 + np.abs(cand_min))) & \
                    (np.abs(gmax - cand_max) <= tol * (1 + np.abs(cand_max)))
        ok |= inside & np.where(cand_whole, whole_match, close)
        near_whole |= inside & cand_whole
    return ~ok, near_whole


def check(case, obs):
    """-> list of (clause, witness_class, message); plus info dict"""
    failures = []
    n_scales, factor, marge = case["num_scales"], case["scale_factor"], case["marge"]
    suffix = " [D1-bypassed]" if case["mode"] == "d1_bypassed" else ""
    full = tuple(SHAPE)
    trace = obs["trace"]
    info = {}

    def fail(clause, witness_class, message):
        failures.append((clause, witness_class + suffix, message))

    if obs["error"] is not None:
        exc = obs["error"]
        fail("C15.run_completes", "exception-" + type(exc).__name__,
             "pandora.run raised %s: %s" % (type(exc).__name__, str(exc)[:300]))

    # ---- the shipped parameter reader, asked directly (same in both modes; reported for mode natural only)
    if case["mode"] == "natural":
        params = obs["params"]
        if isinstance(params, Exception):
            fail("C15.params", "exception-" + type(params).__name__,
                 "read_multiscale_params(checked cfg) raised %s: %s" % (type(params).__name__, str(params)[:300]))
        elif params != (n_scales, factor):
            fail("C15.params", "returns-(1,1)-for-pipeline-with-multiscale-step" if params == (1, 1)
                 else "wrong-parameters",
                 "read_multiscale_params(checked cfg) = %s for a pipeline whose multiscale step has num_scales=%d, "
                 "scale_factor=%d" % (params, n_scales, factor))

    # ---- frame: inputs not modified (meaningful even after a crash)
    for side in ("left", "right"):
        if obs["frame_" + side]:
            what = obs["frame_" + side]
            kind = "attrs-only" if all(w.startswith("attrs") for w in what) else "data-written"
            fail("C15.frame.inputs", "%s-input-%s" % (side, kind), "%s input dataset modified by pandora.run: %s"
                 % (side, ", ".join(what)))

    steps = list(obs["pipe"])
    ms_index = steps.index("multiscale")
    before, after = steps[:ms_index], steps[ms_index + 1:]
    executions = {step: [e for e in trace if e["step"] == step and e["callback"] != "run_multiscale"] for step in steps}
    mc_runs = [e for e in trace if e["callback"] == "matching_cost_run"]
    info["matching_cost_executions"] = len(mc_runs)
    info["shapes"] = [list(e["shape"]) for e in mc_runs]

    if obs["error"] is None:
        # ---- number of scales executed
        for step in before:
            count = len(executions[step])
            if count != n_scales:
                witness_class = ("multiscale-step-ignored-single-scale" if count == 1 and len(mc_runs) == 1
                                 else "wrong-number-of-executions")
                fail("C15.scales.count", witness_class,
                     "step '%s' (before the multiscale step) executed %d time(s) for num_scales=%d; matching_cost saw "
                     "image sizes %s" % (step, count, n_scales, info["shapes"]))
                break
        # ---- steps after the multiscale step
        for step in after:
            count = len(executions[step])
            if count != 1:
                fail("C15.after.once", "executed-%d-times" % count,
                     "step '%s' (after the multiscale step) executed %d times" % (step, count))
            elif executions[step][0]["shape"] != full:
                fail("C15.after.fullres", "not-full-resolution", "step '%s' (after the multiscale step) ran on a %s "
                     "image, original is %s" % (step, executions[step][0]["shape"], full))
        # ---- returned maps
        for side in ("left", "right"):
            out = obs[side]
            if side == "left" and (out is None or "disparity_map" not in out.data_vars):
                fail("C15.output.shape", "no-left-disparity-map", "no left disparity_map returned")
                continue
            if out is None or "disparity_map" not in out.data_vars:
                continue
            for var in ("disparity_map", "validity_mask", "confidence_measure"):
                if var in out.data_vars and tuple(out[var].shape[:2]) != full:
                    fail("C15.output.shape", "%s-%s-wrong-size" % (side, var),
                         "%s %s has shape %s, original image is %s" % (side, var, tuple(out[var].shape), full))

    # ---- finer-grained clauses: only when the right number of scales was executed (not under D1)
    info["finer_clauses_evaluated"] = bool(len(mc_runs) == n_scales and n_scales > 1)
    if not info["finer_clauses_evaluated"]:
        return failures, info

    # pyramid shapes, from the finest (must be the original) to the coarsest
    shapes = [e["shape"] for e in mc_runs]
    if shapes[-1] != full:
        fail("C15.pyramid.shapes", "last-level-not-original", "last matching_cost execution on %s, original %s"
             % (shapes[-1], full))
    for k in range(n_scales - 2, -1, -1):
        finer, coarser = shapes[k + 1], shapes[k]
        for axis in (0, 1):
            if coarser[axis] not in (finer[axis] // factor, -(-finer[axis] // factor)):
                fail("C15.pyramid.shapes", "level-size-not-divided-by-scale-factor",
                     "execution %d works on %s, execution %d on %s: not a division by %d"
                     % (k, coarser, k + 1, finer, factor))
                break
    for step in before:
        got = [e["shape"] for e in executions[step]]
        if len(got) == n_scales and got != shapes:
            fail("C15.pyramid.shapes", "step-not-on-level-image", "step '%s' ran on %s, matching_cost on %s"
                 % (step, got, shapes))

    window = obs["pipe"]["matching_cost"]["window_size"]
    user = obs["interval"]
    ms_runs = [e for e in trace if e["callback"] == "run_multiscale"]
    sides = [("", "disp_min", "disp_max", "coarse_disp", "coarse_mask", user)]
    if "right_disp_min" in mc_runs[0]:
        sides.append((".right", "right_disp_min", "right_disp_max", "right_coarse_disp", "right_coarse_mask",
                      (-user[1], -user[0])))
    for tag, k_min, k_max, k_disp, k_mask, interval in sides:
        # coarsest level
        first = mc_runs[0]
        power = factor ** (n_scales - 1)
        exact = (interval[0] / power, interval[1] / power)
        gmin, gmax = np.atleast_2d(first[k_min]), np.atleast_2d(first[k_max])
        if not (np.all(whole_ok(gmin, exact[0])) and np.all(whole_ok(gmax, exact[1]))):
            fail("C15.interval.coarsest" + tag, "coarsest-interval-not-user-over-power",
                 "coarsest level searches [%s, %s] (grid extrema), expected user %s / %d = [%g, %g]"
                 % (gmin.min(), gmax.max(), list(interval), power, exact[0], exact[1]))
        # finer levels
        for k in range(1, n_scales):
            run_k = mc_runs[k]
            if k - 1 >= len(ms_runs) or k_disp not in ms_runs[k - 1]:
                fail("C15.interval.finer" + tag, "no-coarse-map-observed",
                     "no run_multiscale execution observed before matching_cost execution %d" % k)
                continue
            grid_min, grid_max = np.atleast_2d(run_k[k_min]), np.atleast_2d(run_k[k_max])
            rows, cols = run_k["shape"]
            if grid_min.shape[0] < rows or grid_min.shape[1] < cols or grid_max.shape != grid_min.shape:
                fail("C15.interval.grid_covers_image" + tag, "grid-smaller-than-level-image",
                     "execution %d image is %s but the disparity grids are %s / %s"
                     % (k, run_k["shape"], grid_min.shape, grid_max.shape))
                continue
            level_power = factor ** (n_scales - 1 - k)
            whole = (interval[0] / level_power, interval[1] / level_power)
            coarse_disp, coarse_mask = ms_runs[k - 1][k_disp], ms_runs[k - 1][k_mask]
            finite = coarse_disp[((coarse_mask & INVALID_BITS) == 0) & ~np.isnan(coarse_disp)]
            dyadic = bool(np.all(finite * 16 == np.round(finite * 16)))
            info.setdefault("coarse_pixels_under_window_rule" + tag, []).append(
                int((~expected_from_coarse(coarse_disp, coarse_mask, window, marge, factor)[0]).sum()))
            bad, near_whole = finer_mismatches(grid_min, grid_max, (rows, cols), coarse_disp, coarse_mask, window,
                                               marge, factor, whole, 0.0 if dyadic else 1e-4)
            if not bad.any():
                continue
            is_whole, emin, emax = expected_from_coarse(coarse_disp, coarse_mask, window, marge, factor)
            truncated = "whole-interval-truncated-user-interval-not-multiple-of-scale-power"
            for witness_class, subset in (
                    ("whole-interval-expected" if case["interval"] == "divisible" else truncated, bad & near_whole),
                    ("window-min-max-marge-expected", bad & ~near_whole)):
                if not subset.any():
                    continue
                r, c = [int(v[0]) for v in np.nonzero(subset)]
                p_r, p_c = min(r // factor, is_whole.shape[0] - 1), min(c // factor, is_whole.shape[1] - 1)
                fail("C15.interval.finer" + tag, witness_class,
                     "execution %d (image %s): %d pixel(s) search an interval the statement does not allow (class: %s "
                     "coarse pixel within one pixel of the geometric parent is invalid/on the border); first (%d,%d) "
                     "searches [%g, %g]; its geometric parent (%d,%d) gives %s; whole user interval of the level "
                     "[%g, %g]"
                     % (k, run_k["shape"], int(subset.sum()), "some" if witness_class != "window-min-max-marge-expected"
                        else "no", r, c, grid_min[r, c], grid_max[r, c], p_r, p_c,
                        "the whole interval (invalid or border)" if is_whole[p_r, p_c] else
                        "%d*[min-%d, max+%d] = [%g, %g]" % (factor, marge, marge, emin[p_r, p_c], emax[p_r, p_c]),
                        whole[0], whole[1]))
    return failures, info


def evaluate(case):
    with warnings.catch_warnings():
        warnings.simplefilter("ignore")
        obs = execute(case)
    failures, info = check(case, obs)
    out = obs["left"]
    nontrivial = False
    if out is not None and "disparity_map" in out.data_vars:
        valid = (np.array(out["validity_mask"].data).astype(np.int64) & INVALID_BITS) == 0
        values = out["disparity_map"].data[valid]
        nontrivial = bool(valid.sum() >= 16 and len(np.unique(values[~np.isnan(values)])) >= 2)
    return failures, nontrivial, info


# ----------------------------------------------------------------------------------------------------------------------
# enumeration
# ----------------------------------------------------------------------------------------------------------------------
def enumerate_domain(tier, seed):
    params = list(itertools.product((2, 3), (2, 3), (0, 1, 2)))  # num_scales, scale_factor, marge
    names = list(PIPELINES)
    for mode in ("natural", "d1_bypassed"):
        if tier == "quick":
            # every (num_scales, scale_factor, marge) once per mode with a rotating pipeline / input variant,
            # then the remaining pipelines on (2, 2, 1)
            combos = []
            for idx, (n_s, s_f, mrg) in enumerate(params):
                combos.append((n_s, s_f, mrg, names[idx % len(names)], INPUT_VARIANTS[idx % 2], "divisible", seed))
            for name in names:
                combos.append((2, 2, 1, name, "mono", "divisible", seed))
            combos.append((2, 2, 1, names[0], "multiband_masks", "divisible", seed))
            combos.append((3, 2, 1, names[0], "mono", "nondivisible", seed))
        else:
            combos = []
            for (n_s, s_f, mrg), name in itertools.product(params, names):
                for variant in INPUT_VARIANTS[:2]:
                    for img_seed in (seed, seed + 1):
                        combos.append((n_s, s_f, mrg, name, variant, "divisible", img_seed))
                combos.append((n_s, s_f, mrg, name, "mono", "nondivisible", seed))
            for (n_s, s_f, mrg) in params:
                combos.append((n_s, s_f, mrg, names[0], "multiband_masks", "divisible", seed))
        for n_s, s_f, mrg, name, variant, interval, img_seed in combos:
            yield {"mode": mode, "num_scales": n_s, "scale_factor": s_f, "marge": mrg, "pipeline": name,
                   "input": variant, "interval": interval, "img_seed": img_seed}


CASE_KEYS = ("mode", "num_scales", "scale_factor", "marge", "pipeline", "input", "interval", "img_seed")


def run(tier, seed):
    rec = Recorder(max_violations=40)
    rec.functions.update([
        "pandora.run", "pandora.check_configuration.read_multiscale_params",
        "pandora.check_configuration.check_pipeline_section", "pandora.check_configuration.check_datasets",
        "pandora.state_machine.PandoraMachine.run_prepare", "pandora.state_machine.PandoraMachine.run",
        "pandora.state_machine.PandoraMachine.matching_cost_prepare",
        "pandora.state_machine.PandoraMachine.matching_cost_run",
        "pandora.state_machine.PandoraMachine.is_not_last_scale",
        "pandora.state_machine.PandoraMachine.run_multiscale (mode d1_bypassed only)",
        "pandora.multiscale.fixed_zoom_pyramid.FixedZoomPyramid.disparity_range (mode d1_bypassed only)",
        "pandora.img_tools.prepare_pyramid (mode d1_bypassed only)",
        "pandora.img_tools.fill_nodata_image (mode d1_bypassed only)",
        "pandora.img_tools.masks_pyramid (mode d1_bypassed only)",
        "pandora.img_tools.convert_pyramid_to_dataset (mode d1_bypassed only)",
    ])
    finer = 0
    for index, case in enumerate(enumerate_domain(tier, seed)):
        try:
            failures, nontrivial, info = evaluate(case)
        except Exception as exc:  # configuration / dataset refused before pandora.run: harness-level, still reported
            failures = [("C15.harness", "exception-outside-pandora-run-" + type(exc).__name__,
                         "%s: %s" % (type(exc).__name__, str(exc)[:300]))]
            nontrivial, info = False, {}
        finer += bool(info.get("finer_clauses_evaluated"))
        rec.case(key=tuple(case[k] for k in CASE_KEYS), nontrivial=nontrivial,
                 sample=dict(case, **info) if index % 7 == 0 else None)  # samples spread over both modes
        for clause, witness_class, message in failures:
            rec.violation(clause=clause, witness_class=witness_class, message=message,
                          witness=dict(case, clause=clause, witness_class=witness_class))
    result = rec.result(
        bound="one synthetic integer-valued 48x64 pair per image seed (true disparity -4 / +2, {0,1} noise), input "
              "variants {mono, mono + both masks (0 valid / 1 nodata / 2 invalid), 2-band + masks with band 'g'}, "
              "multiscale fixed_zoom_pyramid with num_scales in {2,3} x scale_factor in {2,3} x marge in {0,1,2}, "
              "user interval [-2,1]*scale_factor^(num_scales-1) (every level integral) or that interval widened by 1 "
              "on each side (non-integral levels), %d pipelines (%s) with steps before and after the multiscale step; "
              "each in mode natural (shipped pandora.run) and mode d1_bypassed (see module docstring)"
              % (len(PIPELINES), ", ".join(PIPELINES)),
        rule="quick: each (num_scales, scale_factor, marge) once per mode with rotating pipeline/input variant, all "
             "pipelines on (2,2,1), one multiband and one non-divisible case; thorough: full product of parameters x "
             "pipelines x {mono, mono_masks} x 2 image seeds + non-divisible + multiband cases.  A case is distinct "
             "by (mode, num_scales, scale_factor, marge, pipeline, input variant, interval kind, image seed) and "
             "non-trivial when the returned left map has >= 16 valid pixels with >= 2 different disparities.  "
             "Interval comparison exact when all valid coarse disparities are multiples of 1/16 (always so without "
             "refinement before the multiscale step), else relative tolerance 1e-4; non-integral 'whole user "
             "interval of the level' bounds accept any rounding to a neighbouring integer.  Finer-grained clauses "
             "were evaluated on %d of the cases (those where matching_cost ran num_scales times)." % finer)
    result["finer_clauses_evaluated_on"] = finer
    return result


def replay(witness):
    case = {k: witness[k] for k in CASE_KEYS}
    try:
        failures, _, _ = evaluate(case)
    except Exception:
        return witness.get("clause") == "C15.harness"
    if "clause" in witness:
        return any(clause == witness["clause"] and witness_class == witness.get("witness_class", witness_class)
                   for clause, witness_class, _ in failures)
    return bool(failures)
