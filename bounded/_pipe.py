"""Helpers shared by bounded/C01.py, bounded/C05.py and bounded/C20.py (pipeline / configuration level properties).

Everything here is harness-side only: the documented automaton (written from the property statement and
docs/source/userguide/sequencing.rst), step-name helpers, tiny input images written to a temporary directory, and stub
plug-in classes for the two step kinds that have no built-in method in this tree (optimization, semantic_segmentation).
Nothing under /repo is edited; registrations are undone when the context managers exit.
"""
import contextlib
import copy
import logging
import math
import os
import sys
import types
import warnings

import numpy as np

# ---------------------------------------------------------------------------------------------------------------------
# The documented automaton (property statement C01 / sequencing.rst)
# ---------------------------------------------------------------------------------------------------------------------
KINDS = ["matching_cost", "aggregation", "optimization", "semantic_segmentation", "cost_volume_confidence",
         "disparity", "filter", "refinement", "validation", "multiscale"]
STATES = ["begin", "cost_volume", "disp_map"]
DELTA = {("begin", "matching_cost"): "cost_volume",
         ("cost_volume", "aggregation"): "cost_volume",
         ("cost_volume", "optimization"): "cost_volume",
         ("cost_volume", "semantic_segmentation"): "cost_volume",
         ("cost_volume", "cost_volume_confidence"): "cost_volume",
         ("cost_volume", "disparity"): "disp_map",
         ("disp_map", "filter"): "disp_map",
         ("disp_map", "refinement"): "disp_map",
         ("disp_map", "validation"): "disp_map",
         ("disp_map", "multiscale"): "disp_map"}


def kind(name):
    """step kind = text before the first '.'"""
    return name.split(".")[0]


def delta_star(kinds, state="begin"):
    """fold of DELTA; None when undefined"""
    for k in kinds:
        state = DELTA.get((state, k))
        if state is None:
            return None
    return state


def accepted_kind_sequences(max_len):
    """all kind sequences of length <= max_len on which delta* is defined, shortest first (includes the empty one)"""
    out, frontier = [()], [((), "begin")]
    for _ in range(max_len):
        nxt = []
        for seq, st in frontier:
            for k in KINDS:
                d = DELTA.get((st, k))
                if d is not None:
                    nxt.append((seq + (k,), d))
        out.extend(s for s, _ in nxt)
        frontier = nxt
    return out


def names_for(kinds, suffixed=()):
    """unique step names for a kind sequence: first occurrence plain (or '.s<i>' when its index is in `suffixed`),
    later occurrences always suffixed '.<n>' (a dict cannot hold the same key twice)."""
    seen, names = {}, []
    for i, k in enumerate(kinds):
        n = seen.get(k, 0)
        seen[k] = n + 1
        if n == 0:
            names.append(k + (".s%d" % i if i in suffixed else ""))
        else:
            names.append("%s.%d" % (k, n) if i not in suffixed else "%s.s%d" % (k, i))
    return names


# ---------------------------------------------------------------------------------------------------------------------
# Valid step configurations (documented parameters, in-domain values) -- several variants per kind
# ---------------------------------------------------------------------------------------------------------------------
STUB = "bounded_stub"
VALID = {
    "matching_cost": [{"matching_cost_method": "sad"},
                      {"matching_cost_method": "census", "window_size": 3},
                      {"matching_cost_method": "zncc", "window_size": 5, "subpix": 2},
                      {"matching_cost_method": "ssd", "window_size": 3, "subpix": 4}],
    "aggregation": [{"aggregation_method": "cbca"},
                    {"aggregation_method": "cbca", "cbca_intensity": 25.0, "cbca_distance": 3}],
    "optimization": [{"optimization_method": STUB}],
    "semantic_segmentation": [{"segmentation_method": STUB, "RGB_bands": None}],
    "cost_volume_confidence": [{"confidence_method": "std_intensity"},
                               {"confidence_method": "ambiguity"},
                               {"confidence_method": "risk", "eta_max": 0.5, "eta_step": 0.1},
                               {"confidence_method": "interval_bounds"}],
    "disparity": [{"disparity_method": "wta"},
                  {"disparity_method": "wta", "invalid_disparity": -5}],
    "filter": [{"filter_method": "median"},
               {"filter_method": "bilateral"},
               {"filter_method": "median", "filter_size": 5},
               {"filter_method": "median_for_intervals"}],
    "refinement": [{"refinement_method": "vfit"}, {"refinement_method": "quadratic"}],
    "validation": [{"validation_method": "cross_checking_accurate"},
                   {"validation_method": "cross_checking_accurate", "cross_checking_threshold": 2,
                    "interpolated_disparity": "sgm"}],
    "multiscale": [{"multiscale_method": "fixed_zoom_pyramid"},
                   {"multiscale_method": "fixed_zoom_pyramid", "num_scales": 3, "marge": 2}],
}


def pipeline_for(names, pick=0, real=False):
    """ordered {name: valid cfg}; `pick` rotates through the variants.  real=True avoids median_for_intervals (needs an
    interval_bounds confidence step to have run before -- a data dependency, not a sequencing one)."""
    pipe = {}
    for i, n in enumerate(names):
        variants = VALID[kind(n)]
        if real and kind(n) == "filter":
            variants = variants[:3]
        pipe[n] = copy.deepcopy(variants[(pick + i) % len(variants)])
    return pipe


# ---------------------------------------------------------------------------------------------------------------------
# Process-local set-up
# ---------------------------------------------------------------------------------------------------------------------
@contextlib.contextmanager
def quiet():
    """silence pandora's logging.error chatter (some calls have broken format strings) and library warnings"""
    prev = logging.root.manager.disable
    logging.disable(logging.CRITICAL)
    with warnings.catch_warnings():
        warnings.simplefilter("ignore")
        try:
            yield
        finally:
            logging.disable(prev)


@contextlib.contextmanager
def stub_plugins():
    """Register harness-side identity plug-ins 'bounded_stub' for optimization and semantic_segmentation (no built-in
    method exists in this tree).  They go through the real registries / dispatchers / machine callbacks."""
    from pandora import optimization, semantic_segmentation

    class _StubOptimization(optimization.AbstractOptimization):
        def __init__(self, _img, **cfg):
            self.cfg = dict(cfg)

        def desc(self):
            pass

        def optimize_cv(self, cv, img_left, img_right):
            return cv

    class _StubSegmentation(semantic_segmentation.AbstractSemanticSegmentation):
        def __init__(self, _img, **cfg):
            self.cfg = dict(cfg)

        def desc(self):
            pass

        def compute_semantic_segmentation(self, cv, img_left, img_right):
            return img_left

    reg_o = optimization.AbstractOptimization.optimization_methods_avail
    reg_s = semantic_segmentation.AbstractSemanticSegmentation.segmentation_methods_avail
    reg_o[STUB] = _StubOptimization
    reg_s[STUB] = _StubSegmentation
    try:
        yield
    finally:
        reg_o.pop(STUB, None)
        reg_s.pop(STUB, None)


@contextlib.contextmanager
def fake_pandora2d(active=True):
    """matching_cost 'step' values other than 1 are reserved to pandora2d (documented); the library tests that by looking
    for 'pandora2d' in sys.modules.  Put a dummy entry there for the duration of the block (process-local)."""
    if not active or "pandora2d" in sys.modules:
        yield
        return
    sys.modules["pandora2d"] = types.ModuleType("pandora2d")
    try:
        yield
    finally:
        sys.modules.pop("pandora2d", None)


def write_small_images(tmpdir, shape=(24, 32), tag="", bands=None):
    """Crop of the cones pair of /repo/tests/pandora written as GeoTIFF; returns the 'input' section.
    bands: None -> monoband (from left.png/right.png); list of names -> multiband from left_rgb.tif with these
    descriptions."""
    import rasterio
    from pandora.img_tools import rasterio_open
    rows, cols = shape
    r0, c0 = 100, 200
    paths = {}
    with warnings.catch_warnings():
        warnings.simplefilter("ignore")
        for side in ("left", "right"):
            if bands is None:
                arr = rasterio_open("/repo/tests/pandora/%s.png" % side).read()[:1]
            else:
                arr = rasterio_open("/repo/tests/pandora/%s_rgb.tif" % side).read()[:len(bands)]
            arr = arr[:, r0:r0 + rows, c0:c0 + cols]
            path = os.path.join(tmpdir, "%s%s_%dx%d.tif" % (side, tag, rows, cols))
            with rasterio.open(path, "w", driver="GTiff", height=rows, width=cols, count=arr.shape[0],
                               dtype=arr.dtype) as dst:
                dst.write(arr)
                if bands is not None:
                    for i, b in enumerate(bands):
                        dst.set_band_description(i + 1, b)
            paths[side] = path
    return {"left": {"img": paths["left"], "disp": [-3, 1]}, "right": {"img": paths["right"]}}


def full_input(inp):
    """the input section completed with the documented defaults (what check_input_section returns)"""
    out = copy.deepcopy(inp)
    for side in ("left", "right"):
        for k, v in (("nodata", -9999), ("mask", None), ("classif", None), ("segm", None)):
            out[side].setdefault(k, v)
    out["right"].setdefault("disp", None)
    return out


def metadata(inp):
    """(left, right) metadata datasets as pandora.check_configuration.check_conf builds them"""
    from pandora.img_tools import get_metadata
    f = full_input(inp)
    with warnings.catch_warnings():
        warnings.simplefilter("ignore")
        return (get_metadata(f["left"]["img"], f["left"]["disp"], f["left"]["classif"], f["left"]["segm"]),
                get_metadata(f["right"]["img"], f["right"]["disp"], f["right"]["classif"], f["right"]["segm"]))


def datasets(inp):
    """(left, right) image datasets as pandora.main builds them (right interval = mirrored left interval)"""
    from pandora.img_tools import create_dataset_from_inputs
    f = full_input(inp)
    if f["right"]["disp"] is None and not isinstance(f["left"]["disp"], str):
        f["right"]["disp"] = [-f["left"]["disp"][1], -f["left"]["disp"][0]]
    with warnings.catch_warnings():
        warnings.simplefilter("ignore")
        return create_dataset_from_inputs(input_config=f["left"]), create_dataset_from_inputs(input_config=f["right"])


# ---------------------------------------------------------------------------------------------------------------------
# nan-aware structural equality of configurations (key order optionally significant)
# ---------------------------------------------------------------------------------------------------------------------
def cfg_equal(a, b, ordered=False):
    if isinstance(a, dict) or isinstance(b, dict):
        if not (isinstance(a, dict) and isinstance(b, dict)):
            return False
        if ordered:
            if list(a) != list(b):
                return False
        elif set(a) != set(b):
            return False
        return all(cfg_equal(a[k], b[k], ordered) for k in a)
    if isinstance(a, (list, tuple)) or isinstance(b, (list, tuple)):
        if not (isinstance(a, (list, tuple)) and isinstance(b, (list, tuple))) or len(a) != len(b):
            return False
        return all(cfg_equal(x, y, ordered) for x, y in zip(a, b))
    if isinstance(a, (float, np.floating)) and isinstance(b, (float, np.floating)):
        if math.isnan(a) and math.isnan(b):
            return True
    if isinstance(a, bool) != isinstance(b, bool):
        return False
    try:
        return bool(a == b)
    except Exception:  # pylint: disable=broad-except
        return False
