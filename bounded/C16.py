"""Bounded stand-in of C16 -- image datasets faithfully encode input rasters, masks, nodata and ROI.

Real code executed: pandora.img_tools.get_window and pandora.img_tools.create_dataset_from_inputs on GeoTIFFs written
by this module with rasterio into a TemporaryDirectory.

Oracle (written from the property statement, docs/source/userguide/input.rst and as_an_api.rst, not from the code):

* im          = the samples written, as float32; when nodata is NaN / +-inf the samples that are NaN / +-inf become -9999;
                band names (coordinate band_im) = the descriptions written in the file (multiband images).
* msk         a pixel is no-data  <=> some band sample equals nodata (isnan for NaN nodata, isinf for +-inf nodata)
              -> value attrs['no_data_mask']; else invalid <=> input mask sample != 0 -> any value that is neither
              attrs['valid_pixels'] nor attrs['no_data_mask']; else attrs['valid_pixels'].
              No 'msk' variable when there is no mask file and no no-data sample (with an all-zero mask file both
              presence and absence are tolerated: DESIGN C16.nodata).
* disparity   [min, max] broadcast to two planes, or the two bands of the grid file; band_disp = ['min', 'max'].
* classif / segm  = the rasters written (classif band names = descriptions).
* ROI         window = rows [first-up, last+down] x cols [first-left, last+right] intersected with the image
              (margins = left, up, right, down); dataset == the oracle applied to the cropped rasters == crop of the full
              read, row/col coordinates = absolute indices; empty intersection => refusal (any exception).
"""
import itertools
import os
import tempfile
import warnings

import numpy as np
import rasterio
from rasterio.transform import Affine

from bounded.common import Recorder, same

MARGINS = (0, 1, 3)
MASK_VALUES = (-3, 0, 1, 2, 255)


# ----------------------------------------------------------------------------------------------------------------------
# files
# ----------------------------------------------------------------------------------------------------------------------
def _write(path, arr, names=None, georef=False):
    arr = np.asarray(arr)
    if arr.ndim == 2:
        arr = arr[None]
    kw = {}
    if georef:
        kw = {"crs": "EPSG:32631", "transform": Affine(0.5, 0.0, 100.0, 0.0, -0.5, 200.0)}
    with warnings.catch_warnings():
        warnings.simplefilter("ignore")
        with rasterio.open(path, "w", driver="GTiff", width=arr.shape[2], height=arr.shape[1], count=arr.shape[0],
                           dtype=str(arr.dtype), **kw) as dst:
            dst.write(arr)
            if names:
                dst.descriptions = tuple(names)


def materialise(scn, tmpdir):
    """Write the rasters of a scenario; return the input section handed to create_dataset_from_inputs."""
    cfg = {"img": os.path.join(tmpdir, "img.tif"), "nodata": scn["nodata"]}
    _write(cfg["img"], scn["img"], scn.get("names"), georef=bool(scn.get("georef")))
    if scn.get("mask") is not None:
        cfg["mask"] = os.path.join(tmpdir, "mask.tif")
        _write(cfg["mask"], scn["mask"])
    disp = scn.get("disp")
    if disp is not None:
        if isinstance(disp, np.ndarray):
            cfg["disp"] = os.path.join(tmpdir, "disp.tif")
            _write(cfg["disp"], disp)
        else:
            cfg["disp"] = [int(disp[0]), int(disp[1])]
    if scn.get("classif") is not None:
        cfg["classif"] = os.path.join(tmpdir, "classif.tif")
        _write(cfg["classif"], scn["classif"], scn.get("classif_names"))
    if scn.get("segm") is not None:
        cfg["segm"] = os.path.join(tmpdir, "segm.tif")
        _write(cfg["segm"], scn["segm"])
    return cfg


# ----------------------------------------------------------------------------------------------------------------------
# oracle
# ----------------------------------------------------------------------------------------------------------------------
def expected_window(roi, width, height):
    """(r0, r1, c0, c1) inclusive, or None when the ROI (margins included) does not meet the image."""
    m_left, m_up, m_right, m_down = roi["margins"]
    c0 = max(roi["col"]["first"] - m_left, 0)
    c1 = min(roi["col"]["last"] + m_right, width - 1)
    r0 = max(roi["row"]["first"] - m_up, 0)
    r1 = min(roi["row"]["last"] + m_down, height - 1)
    if c0 > c1 or r0 > r1:
        return None
    return r0, r1, c0, c1


def outside_class(roi, width, height):
    """Stable class of an ROI that lies entirely outside the image."""
    m_left, m_up, m_right, m_down = roi["margins"]
    parts = []
    c_first, c_last = roi["col"]["first"] - m_left, roi["col"]["last"] + m_right
    r_first, r_last = roi["row"]["first"] - m_up, roi["row"]["last"] + m_down
    if c_first == width:
        parts.append("roi-first-equals-width")
    elif c_first > width:
        parts.append("roi-first-beyond-width")
    if c_last == -1:
        parts.append("roi-last-col-equals-minus-one")
    elif c_last < -1:
        parts.append("roi-last-col-below-minus-one")
    if r_first == height:
        parts.append("roi-first-equals-height")
    elif r_first > height:
        parts.append("roi-first-beyond-height")
    if r_last == -1:
        parts.append("roi-last-row-equals-minus-one")
    elif r_last < -1:
        parts.append("roi-last-row-below-minus-one")
    # one stable class per witness: the first boundary ("equals") condition when there is one
    boundary = [p for p in parts if "equals" in p]
    return boundary[0] if boundary else "+".join(parts)


def nodata_samples(img, nodata):
    img = np.asarray(img)
    if isinstance(nodata, float) and np.isnan(nodata):
        return np.isnan(img.astype(np.float32))
    if isinstance(nodata, float) and np.isinf(nodata):
        return np.isinf(img.astype(np.float32))
    return img.astype(np.float64) == float(nodata)


def expected_dataset(scn, win):
    """Oracle on the rasters cropped to win=(r0,r1,c0,c1)."""
    r0, r1, c0, c1 = win
    rs, cs = slice(r0, r1 + 1), slice(c0, c1 + 1)
    img = np.asarray(scn["img"])[:, rs, cs]
    nd_s = nodata_samples(img, scn["nodata"])
    im = img.astype(np.float32)
    nodata = scn["nodata"]
    if isinstance(nodata, float) and (np.isnan(nodata) or np.isinf(nodata)):
        im = np.where(nd_s, np.float32(-9999), im).astype(np.float32)
    exp = {"im": im if im.shape[0] > 1 else im[0], "nd": nd_s.any(axis=0), "row": np.arange(r0, r1 + 1),
           "col": np.arange(c0, c1 + 1)}
    mask = scn.get("mask")
    exp["mask_in"] = None if mask is None else np.asarray(mask)[rs, cs]
    exp["inv"] = np.zeros_like(exp["nd"]) if mask is None else ((exp["mask_in"] != 0) & ~exp["nd"])
    disp = scn.get("disp")
    if disp is None:
        exp["disparity"] = None
    elif isinstance(disp, np.ndarray):
        exp["disparity"] = disp[:, rs, cs]
    else:
        exp["disparity"] = np.stack([np.full(exp["nd"].shape, disp[0]), np.full(exp["nd"].shape, disp[1])])
    exp["classif"] = None if scn.get("classif") is None else np.asarray(scn["classif"])[:, rs, cs]
    exp["segm"] = None if scn.get("segm") is None else np.asarray(scn["segm"])[rs, cs]
    return exp


# ----------------------------------------------------------------------------------------------------------------------
# checks (each returns a list of (clause, witness_class, message))
# ----------------------------------------------------------------------------------------------------------------------
def check_dataset(scn, ds, win):
    out = []
    exp = expected_dataset(scn, win)
    # image
    if "im" not in ds:
        return [("C16.im.frame", "no-im-variable", "dataset has no 'im'")]
    got = ds["im"].data
    if got.dtype != np.float32:
        out.append(("C16.im.frame", "im-not-float32", "im dtype %s" % got.dtype))
    if not same(got, exp["im"]):
        cls = "im-shape" if got.shape != exp["im"].shape else "im-samples-changed"
        out.append(("C16.im.frame", cls, "im %r != expected %r" % (got.tolist(), exp["im"].tolist())))
    if np.asarray(scn["img"]).shape[0] > 1:
        names = list(ds.coords["band_im"].data) if "band_im" in ds.coords else None
        if names != list(scn["names"]):
            out.append(("C16.im.bands", "band-names-differ", "band_im %r != file descriptions %r" % (names, scn["names"])))
    # coordinates
    for axis in ("row", "col"):
        if axis not in ds.coords or not same(ds.coords[axis].data, exp[axis]):
            out.append(("C16.coords", axis + "-coordinate", "%s coords %r != %r" % (
                axis, ds.coords[axis].data.tolist() if axis in ds.coords else None, exp[axis].tolist())))
    # mask
    if "msk" not in ds:
        if exp["nd"].any() or exp["inv"].any():
            out.append(("C16.nodata", "msk-missing-with-pixels-to-flag", "no 'msk' although there are pixels to flag"))
    else:
        if scn.get("mask") is None and not exp["nd"].any():
            out.append(("C16.mask.absent", "msk-present-nothing-to-flag", "'msk' created without mask file / no-data sample"))
        msk = ds["msk"].data
        if msk.shape != exp["nd"].shape:
            out.append(("C16.nodata", "msk-shape", "msk shape %r != %r" % (msk.shape, exp["nd"].shape)))
        else:
            ndm, valid = ds.attrs.get("no_data_mask"), ds.attrs.get("valid_pixels")
            g_nd, g_valid = msk == ndm, msk == valid
            g_inv = ~g_nd & ~g_valid
            if (exp["nd"] & ~g_nd).any():
                out.append(("C16.nodata", "nodata-sample-not-flagged", "msk=%r nodata expected at %r" % (
                    msk.tolist(), exp["nd"].tolist())))
            if (~exp["nd"] & g_nd).any():
                out.append(("C16.nodata", "spurious-nodata-flag", "msk=%r nodata expected only at %r" % (
                    msk.tolist(), exp["nd"].tolist())))
            miss = exp["inv"] & ~g_inv & ~g_nd
            if miss.any():
                vals = exp["mask_in"][miss]
                cls = "negative-mask-value" if (vals < 0).all() else "nonzero-mask-value-not-invalid"
                out.append(("C16.nodata", cls, "input mask %r -> msk %r: non-zero input values %r left valid" % (
                    exp["mask_in"].tolist(), msk.tolist(), sorted(set(vals.tolist())))))
            if (~exp["inv"] & ~exp["nd"] & g_inv).any():
                out.append(("C16.nodata", "zero-mask-value-invalid", "msk %r flags invalid where the input mask is 0: %r" % (
                    msk.tolist(), None if exp["mask_in"] is None else exp["mask_in"].tolist())))
    # no-data samples rewritten to -9999 => recorded no_data value must be consistent (only when rewritten)
    # disparity
    if exp["disparity"] is None:
        if "disparity" in ds:
            out.append(("C16.disp", "disparity-without-disp", "disparity variable without 'disp' input"))
    else:
        if "disparity" not in ds:
            out.append(("C16.disp", "disparity-missing", "no disparity variable"))
        else:
            bands = list(ds.coords["band_disp"].data) if "band_disp" in ds.coords else None
            if bands != ["min", "max"]:
                out.append(("C16.disp", "band-disp-names", "band_disp=%r" % (bands,)))
            if not same(ds["disparity"].data, exp["disparity"]):
                kind = "grid" if isinstance(scn["disp"], np.ndarray) else "list"
                out.append(("C16.disp", "disparity-values-" + kind, "disparity %r != %r" % (
                    ds["disparity"].data.tolist(), np.asarray(exp["disparity"]).tolist())))
    # classif / segm
    if exp["classif"] is not None:
        if "classif" not in ds or not same(ds["classif"].data, exp["classif"]):
            out.append(("C16.classif", "classif-values", "classif differs from the raster"))
        elif list(ds.coords["band_classif"].data) != list(scn["classif_names"]):
            out.append(("C16.classif", "classif-band-names", "band_classif %r" % list(ds.coords["band_classif"].data)))
    elif "classif" in ds:
        out.append(("C16.classif", "classif-without-input", "classif variable without input"))
    if exp["segm"] is not None:
        if "segm" not in ds or not same(ds["segm"].data, exp["segm"]):
            out.append(("C16.segm", "segm-values", "segm differs from the raster"))
    elif "segm" in ds:
        out.append(("C16.segm", "segm-without-input", "segm variable without input"))
    return out


def check_crop(scn, ds_roi, ds_full, win):
    """ROI read == crop of the full read (coordinates included)."""
    out = []
    r0, r1, c0, c1 = win
    crop = ds_full.isel(row=slice(r0, r1 + 1), col=slice(c0, c1 + 1))
    for name in sorted(set(crop.data_vars) | set(ds_roi.data_vars)):
        if name in crop and name in ds_roi:
            if crop[name].dims != ds_roi[name].dims or not same(crop[name].data, ds_roi[name].data):
                out.append(("C16.roi.crop", "variable-differs-" + str(name), "%s: roi read %r != crop %r" % (
                    name, ds_roi[name].data.tolist(), crop[name].data.tolist())))
        elif name == "msk" and name in crop and scn.get("mask") is None:
            # the full image has a no-data sample, the window may have none: 'msk' legitimately absent then
            if (crop["msk"].data != ds_full.attrs.get("valid_pixels")).any():
                out.append(("C16.roi.crop", "msk-missing-in-roi-read", "crop of full msk has flags, roi read has no msk"))
        else:
            out.append(("C16.roi.crop", "variable-set-differs-" + str(name), "%s present in only one of roi read / crop" % name))
    for coord in sorted(set(crop.coords) | set(ds_roi.coords)):
        if coord not in crop.coords or coord not in ds_roi.coords or not same(
                np.asarray(crop.coords[coord].data).astype(str) if crop.coords[coord].dtype.kind in "UO" else crop.coords[coord].data,
                np.asarray(ds_roi.coords[coord].data).astype(str) if ds_roi.coords[coord].dtype.kind in "UO" else ds_roi.coords[coord].data):
            out.append(("C16.roi.crop", "coordinate-differs-" + str(coord), "coordinate %s differs between roi read and crop" % coord))
    return out


def check_read(scn, cfg, roi, ds_full=None):
    """Run the real reader on the materialised scenario, with or without ROI; return findings."""
    from pandora.img_tools import create_dataset_from_inputs
    height, width = np.asarray(scn["img"]).shape[1:]
    if roi is None:
        try:
            ds = create_dataset_from_inputs(dict(cfg))
        except Exception as exc:  # pylint: disable=broad-except
            return [("C16.read.total", "full-read-raises-" + type(exc).__name__, "full read raised %r" % (exc,))], None
        return check_dataset(scn, ds, (0, height - 1, 0, width - 1)), ds
    win = expected_window(roi, width, height)
    try:
        ds = create_dataset_from_inputs(dict(cfg), roi)
    except Exception as exc:  # pylint: disable=broad-except
        if win is None:
            return [], None
        return [("C16.roi.crop", "meeting-roi-refused-" + type(exc).__name__, "ROI meeting the image refused: %r" % (exc,))], None
    if win is None:
        return [("C16.roi.refuse", outside_class(roi, width, height),
                 "ROI entirely outside the %dx%d (rows x cols) image not refused: sizes %r" % (height, width, dict(ds.sizes)))], ds
    out = check_dataset(scn, ds, win)
    out = [("C16.roi.crop" if c in ("C16.coords", "C16.im.frame") else c, w, m) for c, w, m in out]
    if ds_full is not None:
        out += check_crop(scn, ds, ds_full, win)
    return out, ds


def check_window(roi, width, height):
    from pandora.img_tools import get_window
    win = expected_window(roi, width, height)
    try:
        got = get_window(roi, width, height)
    except Exception as exc:  # pylint: disable=broad-except
        if win is None:
            return []
        return [("C16.window.post", "meeting-roi-refused", "get_window raised %r, expected window %r" % (exc, win))]
    if win is None:
        return [("C16.window.refuse", outside_class(roi, width, height),
                 "ROI entirely outside the image (width=%d, height=%d): %r returned instead of a refusal" % (width, height, got))]
    r0, r1, c0, c1 = win
    if (got.col_off, got.row_off, got.width, got.height) != (c0, r0, c1 - c0 + 1, r1 - r0 + 1):
        return [("C16.window.post", "window-mismatch", "%r, expected col_off=%d row_off=%d width=%d height=%d" % (
            got, c0, r0, c1 - c0 + 1, r1 - r0 + 1))]
    return []


# ----------------------------------------------------------------------------------------------------------------------
# domain
# ----------------------------------------------------------------------------------------------------------------------
def make_roi(cf, cl, rf, rl, margins):
    return {"col": {"first": int(cf), "last": int(cl)}, "row": {"first": int(rf), "last": int(rl)},
            "margins": [int(m) for m in margins]}


def axis_configs(n):
    """all (first, last, margin_before, margin_after), first <= last in [-2, n+2], margins in {0,1,3}"""
    for mb, ma in sorted(itertools.product(MARGINS, MARGINS), key=lambda m: (m[0] + m[1], m)):  # simplest witnesses first
        for first in sorted(range(-2, n + 3), key=abs):
            for last in range(first, n + 3):
                yield first, last, mb, ma


def few_axis_configs(n):
    """inside / overlapping / outside representatives for the other axis"""
    return [(0, n - 1, 0, 0), (0, 0, 1, 0), (n - 1, n + 1, 1, 3), (-2, 0, 0, 1), (n + 1, n + 2, 0, 0)]


DTYPE_NODATA = [("uint8", -9999), ("uint8", 0), ("int16", -9999), ("int16", 0), ("float32", -9999), ("float32", 0),
                ("float32", float("nan")), ("float32", float("inf"))]
MASK_KINDS = ("none", "int16", "uint8", "zeros")
DISP_KINDS = ("none", "list", "grid_f32", "grid_i16")
SIZES = [(1, 1), (1, 7), (6, 1), (2, 3), (3, 4), (6, 7)]


def gen_scenario(rng, height, width, bands, dtype, nodata, mask_kind, disp_kind, extras, p_nodata):
    pool = [1, 2, 3, 5]
    img = rng.choice(pool, size=(bands, height, width)).astype(np.float64)
    representable = not (dtype == "uint8" and nodata == -9999) and not (dtype != "float32" and isinstance(nodata, float))
    if representable and p_nodata > 0:
        hit = rng.random(img.shape) < p_nodata
        img[hit] = nodata
        if isinstance(nodata, float) and np.isinf(nodata):
            neg = hit & (rng.random(img.shape) < 0.3)
            img[neg] = -np.inf
    if dtype == "float32" and p_nodata > 0:
        odd = rng.random(img.shape) < 0.05  # non-finite samples that are NOT the nodata value stay as they are
        if not (isinstance(nodata, float) and np.isnan(nodata)):
            img[odd] = np.nan
        elif not (isinstance(nodata, float) and np.isinf(nodata)):
            img[odd] = np.inf
    scn = {"img": img.astype(dtype), "nodata": nodata, "georef": bool(rng.integers(2)),
           "names": ["b%d" % k for k in range(bands)] if bands > 1 else None}
    if mask_kind == "int16":
        scn["mask"] = rng.choice(MASK_VALUES, size=(height, width)).astype(np.int16)
    elif mask_kind == "uint8":
        scn["mask"] = rng.choice([0, 0, 1, 2, 255], size=(height, width)).astype(np.uint8)
    elif mask_kind == "zeros":
        scn["mask"] = np.zeros((height, width), np.uint8)
    if disp_kind == "list":
        lo = int(rng.integers(-4, 3))
        scn["disp"] = [lo, lo + int(rng.integers(0, 4))]
    elif disp_kind.startswith("grid"):
        lo = rng.integers(-4, 3, size=(height, width))
        grid = np.stack([lo, lo + rng.integers(0, 4, size=(height, width))])
        scn["disp"] = grid.astype(np.float32 if disp_kind == "grid_f32" else np.int16)
    if extras:
        k = int(rng.integers(1, 4))
        scn["classif"] = rng.integers(0, 2, size=(k, height, width)).astype(rng.choice(["uint8", "int16"]))
        scn["classif_names"] = ["class%d" % i for i in range(k)]
        scn["segm"] = rng.integers(0, 300, size=(height, width)).astype(np.int16)
    return scn


def tiny_scenarios(width):
    """1 x width monoband images: every mask raster over MASK_VALUES, every nodata, sample in {1, nodata}"""
    for dtype, nodata in [("int16", -9999), ("int16", 0), ("float32", float("nan")), ("float32", float("inf"))]:
        for samples in itertools.product([1, nodata], repeat=width):
            img = np.array(samples, dtype=np.float64).reshape(1, 1, width).astype(dtype)
            yield {"img": img, "nodata": nodata, "names": None, "disp": [-1, 1]}
            for mvals in itertools.product(MASK_VALUES, repeat=width):
                yield {"img": img, "nodata": nodata, "names": None, "disp": [-1, 1],
                       "mask": np.array(mvals, dtype=np.int16).reshape(1, width)}


def scenario_key(scn, roi=None):
    parts = []
    for k in sorted(scn):
        v = scn[k]
        parts.append((k, (str(v.dtype), v.shape, v.tobytes()) if isinstance(v, np.ndarray) else repr(v)))
    return (tuple(parts), repr(roi))


def scenario_nontrivial(scn):
    img = np.asarray(scn["img"])
    return bool(nodata_samples(img, scn["nodata"]).any() or scn.get("mask") is not None or img.shape[0] > 1
                or isinstance(scn.get("disp"), np.ndarray) or scn.get("classif") is not None or scn.get("segm") is not None)


def witness(scn, roi, clause, wclass):
    wit = {k: v for k, v in scn.items()}
    wit["roi"] = roi
    wit["_clause"], wit["_class"] = clause, wclass
    return wit


# ----------------------------------------------------------------------------------------------------------------------
# run
# ----------------------------------------------------------------------------------------------------------------------
def _sweep_windows(rec, tier, rng):
    sizes = [(w, h) for h in range(1, 7) for w in range(1, 8)]
    sizes.sort(key=lambda s: (s[0] * s[1], s))
    for width, height in sizes:
        jobs = [(c, r) for c in axis_configs(width) for r in few_axis_configs(height)]
        jobs += [(c, r) for r in axis_configs(height) for c in few_axis_configs(width)]
        if tier == "thorough" and (width, height) in ((1, 1), (3, 2), (4, 3), (7, 6)):
            jobs += [(c, r) for c in axis_configs(width) for r in axis_configs(height)]
        for (cf, cl, ml, mr), (rf, rl, mu, md) in jobs:
            roi = make_roi(cf, cl, rf, rl, (ml, mu, mr, md))
            win = expected_window(roi, width, height)
            clipped = win is None or win != (rf, rl, cf, cl)
            rec.case(key=("win", width, height, cf, cl, rf, rl, ml, mu, mr, md), nontrivial=clipped,
                     sample={"fn": "get_window", "roi": roi, "width": width, "height": height, "expected": win})
            for clause, wclass, msg in check_window(roi, width, height):
                rec.violation(clause, wclass, msg, {"kind": "window", "roi": roi, "width": width, "height": height,
                                                    "_clause": clause, "_class": wclass})


def _run_scenario(rec, scn, rois):
    with tempfile.TemporaryDirectory() as tmp:
        cfg = materialise(scn, tmp)
        findings, ds_full = check_read(scn, cfg, None)
        rec.case(key=scenario_key(scn), nontrivial=scenario_nontrivial(scn),
                 sample={"fn": "create_dataset_from_inputs", "img": scn["img"], "nodata": scn["nodata"],
                         "mask": scn.get("mask"), "disp": "grid" if isinstance(scn.get("disp"), np.ndarray) else scn.get("disp")})
        for clause, wclass, msg in findings:
            rec.violation(clause, wclass, msg, witness(scn, None, clause, wclass))
        height, width = scn["img"].shape[1:]
        for roi in rois:
            findings, _ = check_read(scn, cfg, roi, ds_full)
            win = expected_window(roi, width, height)
            rec.case(key=scenario_key(scn, roi), nontrivial=win is None or win != (
                roi["row"]["first"], roi["row"]["last"], roi["col"]["first"], roi["col"]["last"]))
            for clause, wclass, msg in findings:
                rec.violation(clause, wclass, msg, witness(scn, roi, clause, wclass))


def _roi_axis_sweep(width, height, rng, per_axis_margins=None):
    rois = []
    for cf, cl, ml, mr in axis_configs(width):
        if per_axis_margins is not None and rng.random() > per_axis_margins:
            continue
        rf, rl, mu, md = few_axis_configs(height)[0 if ml + mr == 0 else int(rng.integers(0, 4))]
        rois.append(make_roi(cf, cl, rf, rl, (ml, mu, mr, md)))
    for rf, rl, mu, md in axis_configs(height):
        if per_axis_margins is not None and rng.random() > per_axis_margins:
            continue
        cf, cl, ml, mr = few_axis_configs(width)[0 if mu + md == 0 else int(rng.integers(0, 4))]
        rois.append(make_roi(cf, cl, rf, rl, (ml, mu, mr, md)))
    return rois


def run(tier, seed):
    rng = np.random.default_rng(seed)
    rec = Recorder(max_violations=40)
    rec.functions.update({"pandora.img_tools.get_window", "pandora.img_tools.create_dataset_from_inputs",
                          "pandora.img_tools.add_mask", "pandora.img_tools.add_no_data", "pandora.img_tools.add_disparity",
                          "pandora.img_tools.add_classif", "pandora.img_tools.add_segm"})
    thorough = tier == "thorough"

    # 1. get_window alone
    _sweep_windows(rec, tier, rng)

    # 2. tiny exhaustive images (1x1 always, 1x2 all in thorough / 80 in quick), full read
    tiny = list(tiny_scenarios(1))
    tiny2 = list(tiny_scenarios(2))
    if not thorough:
        tiny2 = [tiny2[i] for i in sorted(rng.choice(len(tiny2), size=80, replace=False))]
    for scn in tiny + tiny2:
        _run_scenario(rec, scn, [])

    # 3. grid of scenario kinds, full read
    grid = [(size, bands, dn, mk, dk, ex)
            for size in SIZES for bands in (1, 2, 3) for dn in DTYPE_NODATA for mk in MASK_KINDS for dk in DISP_KINDS
            for ex in (False, True)]
    if not thorough:
        idx = sorted(rng.choice(len(grid), size=300, replace=False))
        grid = [grid[i] for i in idx]
    grid.sort(key=lambda g: g[0][0] * g[0][1] * g[1])
    for (height, width), bands, (dtype, nodata), mk, dk, ex in grid:
        scn = gen_scenario(rng, height, width, bands, dtype, nodata, mk, dk, ex, p_nodata=float(rng.choice([0.0, 0.3])))
        _run_scenario(rec, scn, [])

    # 4. ROI reads
    roi_sizes = [((1, 1), None), ((2, 3), None), ((3, 4), None if thorough else 0.6), ((6, 7), 1.0 if thorough else 0.15)]
    n_var = 4 if thorough else 1
    for (height, width), frac in roi_sizes:
        for _ in range(n_var):
            if (height, width) == (1, 1):  # smallest witness first: plain monoband image, [min,max] list
                scn = gen_scenario(rng, 1, 1, 1, "int16", -9999, "none", "list", False, 0.0)
            else:
                bands = int(rng.integers(1, 4))
                dtype, nodata = DTYPE_NODATA[int(rng.integers(0, len(DTYPE_NODATA)))]
                scn = gen_scenario(rng, height, width, bands, dtype, nodata, str(rng.choice(["int16", "uint8", "none"])),
                                   str(rng.choice(["list", "grid_f32", "grid_i16"])), True, 0.3)
            _run_scenario(rec, scn, _roi_axis_sweep(width, height, rng, frac))
    if thorough:
        # every (first,last) 4-tuple of the 3x4 image with uniform margins + one random margin tuple
        scn = gen_scenario(rng, 3, 4, 2, "float32", float("nan"), "int16", "grid_f32", True, 0.3)
        rois = []
        for cf in range(-2, 7):
            for cl in range(cf, 7):
                for rf in range(-2, 6):
                    for rl in range(rf, 6):
                        for m in ((0, 0, 0, 0), (1, 1, 1, 1), (3, 3, 3, 3), tuple(int(x) for x in rng.choice(MARGINS, size=4))):
                            rois.append(make_roi(cf, cl, rf, rl, m))
        _run_scenario(rec, scn, rois)
        scn = gen_scenario(rng, 6, 7, 1, "int16", 0, "int16", "list", True, 0.3)
        rois = []
        for cf in range(-2, 10):
            for cl in range(cf, 10):
                for rf in range(-2, 9):
                    for rl in range(rf, 9):
                        rois.append(make_roi(cf, cl, rf, rl, tuple(int(x) for x in rng.choice(MARGINS, size=4))))
        _run_scenario(rec, scn, rois)

    return rec.result(
        bound="get_window: images 1..7 wide x 1..6 high, every (first<=last in [-2,n+2], margins in {0,1,3}) on one axis x 5 "
              "representative configs on the other (thorough: full cross product for 1x1,3x2,4x3,7x6); "
              "create_dataset_from_inputs on GeoTIFFs written with rasterio: all 1x1 (thorough: all 1x2) monoband images "
              "over samples {1,nodata} x every int16 mask over {-3,0,1,2,255} x nodata {-9999,0,NaN,inf}; "
              "%s of the grid sizes {1x1,1x7,6x1,2x3,3x4,6x7} x bands {1,2,3} x (dtype,nodata) 8 pairs x mask "
              "{none,int16,uint8,zeros} x disp {none,list,grid f32,grid i16} x classif+segm {no,yes} with seeded random "
              "contents; ROI reads on 1x1,2x3,3x4,6x7 images: per-axis sweep of every (first,last,margins)%s" % (
                  "all 4608 points" if thorough else "300 seeded points",
                  " + all (first,last) 4-tuples of a 3x4 and a 6x7 image" if thorough else " (subsampled on 3x4, 6x7)"),
        rule="integer-valued samples, exact comparison (NaN==NaN). A case = one call of get_window or "
             "create_dataset_from_inputs; key = (rasters bytes, config, roi). Non-trivial: get_window/ROI read when the "
             "expected window differs from the bare [first,last] rectangle (margin, clipping or refusal); full read when "
             "the scenario has a no-data sample, a mask file, several bands, a disparity grid or classif/segm. "
             "Refusal = any exception. Smallest images first.")


def replay(witness_):
    clause, wclass = witness_["_clause"], witness_["_class"]
    if witness_.get("kind") == "window":
        found = check_window(witness_["roi"], witness_["width"], witness_["height"])
    else:
        scn = {k: v for k, v in witness_.items() if k not in ("roi", "_clause", "_class", "kind")}
        scn["img"] = np.asarray(scn["img"])
        with tempfile.TemporaryDirectory() as tmp:
            cfg = materialise(scn, tmp)
            _, ds_full = check_read(scn, cfg, None)
            found, _ = check_read(scn, cfg, witness_.get("roi"), ds_full)
    return any(c == clause and w == wclass for c, w, _ in found)
