"""C18 -- runs are reproducible and side-effect free whatever the threading.

The real pipeline (pandora.check_configuration.check_pipeline_section + pandora.run) is executed in *fresh
subprocesses* started with NUMBA_NUM_THREADS in {1,2,4,16} and PANDORA_NUMBA_PARALLEL in {True, False}; every process
returns SHA-256 digests of all its products.  Oracle = the statement (metamorphic, no reference values):

  C18.threads.all_products        all products bit-identical for every thread count (same PANDORA_NUMBA_PARALLEL)
  C18.parallel_off.disparity_flags disparity map + pre-validation flags (pipeline run without its validation step)
                                   identical with parallelisation on and off
  C18.repeat.same_machine         same machine object re-run (and re-checked + re-run) -> identical products
  C18.repeat.fresh_machine        a fresh machine, after checks/runs of other pipelines (other matching-cost classes) on
                                   other machine objects of the process -> identical products
  C18.inputs.unchanged            the caller's datasets (im, msk, disparity, attrs, coords, variable set) are unchanged

The main process never imports pandora (numba compiles pandora.interval_tools at import, ~20 s per process): all the
real executions happen in the workers (`python -m bounded.C18 --worker spec.json out.json`).
"""
import copy
import hashlib
import json
import os
import subprocess
import sys
import tempfile
import time

import numpy as np

from bounded.common import Recorder

_FUNCS = ["pandora.run", "pandora.check_configuration.check_pipeline_section", "pandora.check_configuration.check_datasets",
          "pandora.state_machine.PandoraMachine.check_conf", "pandora.state_machine.PandoraMachine.run_prepare",
          "pandora.state_machine.PandoraMachine.run", "pandora.state_machine.PandoraMachine.run_exit",
          "pandora.refinement.refinement.AbstractRefinement.loop_refinement",
          "pandora.cost_volume_confidence.ambiguity.Ambiguity.compute_ambiguity",
          "pandora.cost_volume_confidence.risk.Risk.compute_risk",
          "pandora.cost_volume_confidence.interval_bounds.IntervalBounds.compute_interval_bounds",
          "pandora.interval_tools.interval_regularization", "pandora.interval_tools.create_connected_graph",
          "pandora.interval_tools.graph_regularization"]

# ------------------------------------------------------------------------------------------------------- pipelines
PIPELINES = {
    # the pipeline under test: every prange kernel of the property (refinement, ambiguity, risk, interval bounds +
    # regularization graph) and the validation
    "census-conf-vfit-median-xcheck": {
        "matching_cost": {"matching_cost_method": "census", "window_size": 5, "subpix": 1},
        "cost_volume_confidence": {"confidence_method": "ambiguity", "eta_max": 0.7, "eta_step": 0.05},
        "cost_volume_confidence.risk": {"confidence_method": "risk", "eta_max": 0.7, "eta_step": 0.05},
        "cost_volume_confidence.int": {"confidence_method": "interval_bounds", "possibility_threshold": 0.9,
                                       "regularization": True, "ambiguity_indicator": "", "ambiguity_threshold": 0.6,
                                       "ambiguity_kernel_size": 5, "vertical_depth": 2, "quantile_regularization": 0.9},
        "disparity": {"disparity_method": "wta", "invalid_disparity": -9999},
        "refinement": {"refinement_method": "vfit"},
        "filter": {"filter_method": "median", "filter_size": 3},
        "validation": {"validation_method": "cross_checking_accurate"},
    },
    "zncc-conf-quadratic-xcheck": {
        "matching_cost": {"matching_cost_method": "zncc", "window_size": 3, "subpix": 1},
        "cost_volume_confidence.amb": {"confidence_method": "ambiguity", "eta_max": 0.5, "eta_step": 0.1,
                                       "normalization": False},
        "cost_volume_confidence.int": {"confidence_method": "interval_bounds", "possibility_threshold": 0.8,
                                       "regularization": True, "ambiguity_indicator": "amb", "ambiguity_threshold": 0.7,
                                       "ambiguity_kernel_size": 3, "vertical_depth": 1, "quantile_regularization": 1.0},
        "cost_volume_confidence.risk": {"confidence_method": "risk"},
        "disparity": {"disparity_method": "wta", "invalid_disparity": -9999},
        "refinement": {"refinement_method": "quadratic"},
        "validation": {"validation_method": "cross_checking_accurate"},
    },
    "sad-cbca-conf-vfit-bilateral-xcheck": {
        "matching_cost": {"matching_cost_method": "sad", "window_size": 3, "subpix": 1},
        "aggregation": {"aggregation_method": "cbca", "cbca_intensity": 8.0, "cbca_distance": 3},
        "cost_volume_confidence": {"confidence_method": "ambiguity"},
        "cost_volume_confidence.risk": {"confidence_method": "risk"},
        "cost_volume_confidence.int": {"confidence_method": "interval_bounds", "regularization": True},
        "disparity": {"disparity_method": "wta", "invalid_disparity": -9999},
        "refinement": {"refinement_method": "vfit"},
        "filter": {"filter_method": "bilateral", "sigma_color": 2.0, "sigma_space": 1.0},
        "validation": {"validation_method": "cross_checking_accurate"},
    },
}
# other pipelines, other matching-cost classes, checked / run on *other* machine objects in between
OTHERS = [
    {"matching_cost": {"matching_cost_method": "zncc", "window_size": 5, "subpix": 2},
     "disparity": {"disparity_method": "wta", "invalid_disparity": -5},
     "refinement": {"refinement_method": "quadratic"},
     "filter": {"filter_method": "bilateral", "sigma_color": 3.0, "sigma_space": 1.0}},
    {"matching_cost": {"matching_cost_method": "ssd", "window_size": 3, "subpix": 1, "step": 1},
     "aggregation": {"aggregation_method": "cbca", "cbca_intensity": 5.0, "cbca_distance": 2},
     "cost_volume_confidence": {"confidence_method": "std_intensity"},
     "disparity": {"disparity_method": "wta", "invalid_disparity": 0},
     "validation": {"validation_method": "cross_checking_accurate", "cross_checking_threshold": 2}},
    {"matching_cost": {"matching_cost_method": "sad", "window_size": 1, "subpix": 4},
     "cost_volume_confidence.x": {"confidence_method": "ambiguity", "eta_max": 0.3, "eta_step": 0.1},
     "disparity": {"disparity_method": "wta", "invalid_disparity": -9999},
     "filter": {"filter_method": "median", "filter_size": 5}},
    {"matching_cost": {"matching_cost_method": "census", "window_size": 3, "subpix": 1},
     "disparity": {"disparity_method": "wta", "invalid_disparity": -9999},
     "refinement": {"refinement_method": "vfit"}},
]


# ============================================================================================ worker (imports pandora)
def make_pair(img_seed, h, w, interval, masks):
    rng = np.random.default_rng([int(img_seed), 18])
    dmin, dmax = interval
    pad = 8
    blocks = rng.integers(0, 25, size=(h // 4 + 1, (w + 2 * pad) // 3 + 1))
    base = np.kron(blocks, np.ones((4, 3), dtype=np.int64))[:h, :w + 2 * pad] + rng.integers(0, 8, size=(h, w + 2 * pad))
    inner = list(range(dmin + 1, dmax)) or [dmin]
    d_top, d_bot = int(rng.choice(inner)), int(rng.choice(inner))
    left = base[:, pad:pad + w].copy()
    right = np.empty_like(left)
    cols = np.arange(w)
    for r in range(h):
        right[r] = base[r, pad + cols - (d_top if r < h // 2 else d_bot)]
    right = np.clip(right + rng.integers(-1, 2, size=(h, w)), 0, 31)
    ml = mr = None
    if masks:
        ml, mr = np.zeros((h, w), dtype=np.int16), np.zeros((h, w), dtype=np.int16)
        for m in (ml, mr):
            u = rng.random((h, w))
            m[u < 0.02] = 1
            m[(u >= 0.02) & (u < 0.05)] = 2
    return left.astype(np.float32), right.astype(np.float32), ml, mr


def _dataset(im, msk, disp):
    import xarray as xr
    from affine import Affine
    from pandora.img_tools import add_disparity
    h, w = im.shape
    ds = xr.Dataset({"im": (["row", "col"], np.array(im, dtype=np.float32, copy=True))},
                    coords={"row": np.arange(h), "col": np.arange(w)})
    ds.attrs = {"no_data_img": -9999, "valid_pixels": 0, "no_data_mask": 1, "crs": None,
                "transform": Affine(1.0, 0.0, 0.0, 0.0, 1.0, 0.0)}
    if msk is not None:
        ds["msk"] = xr.DataArray(np.array(msk, dtype=np.int16, copy=True), dims=["row", "col"])
    ds.pipe(add_disparity, disparity=disp, window=None)
    return ds


def _metadata(h, w, disp):
    import xarray as xr
    from pandora.img_tools import add_disparity
    ds = xr.Dataset(data_vars={}, coords={"band_im": [None], "row": np.arange(h), "col": np.arange(w)})
    return ds.pipe(add_disparity, disparity=disp, window=None)


def _arr_digest(a):
    a = np.asarray(a)
    hh = hashlib.sha256()
    hh.update(("%s|%s|" % (a.dtype.str, a.shape)).encode())
    if a.dtype.kind in "OU":
        hh.update(repr(a.tolist()).encode())
    else:
        hh.update(np.ascontiguousarray(a).tobytes())
    return hh.hexdigest()


def digest_dataset(ds):
    """per-variable SHA-256 of a product dataset: every data variable, every coordinate, the attributes"""
    out = {}
    for name in sorted(ds.data_vars):
        out["var:" + str(name)] = _arr_digest(ds[name].data) + "|" + ",".join(map(str, ds[name].dims))
    for name in sorted(ds.coords):
        out["coord:" + str(name)] = _arr_digest(ds.coords[name].data)
    out["attrs"] = hashlib.sha256(repr(sorted((str(k), repr(v)) for k, v in ds.attrs.items())).encode()).hexdigest()
    return out


def digest_products(left, right):
    d = {}
    for side, ds in (("left", left), ("right", right)):
        for k, v in digest_dataset(ds).items():
            d[side + "." + k] = v
    return d


def _all(d):
    return hashlib.sha256(json.dumps(d, sort_keys=True).encode()).hexdigest()


def snapshot_inputs(dl, dr):
    snap = {}
    for side, ds in (("left", dl), ("right", dr)):
        snap[side] = {"vars": {str(n): (ds[n].dims, ds[n].dtype.str, ds[n].shape, np.array(ds[n].data, copy=True).tobytes())
                               for n in ds.data_vars},
                      "coords": {str(n): (ds.coords[n].dtype.str, ds.coords[n].shape,
                                          repr(np.array(ds.coords[n].data, copy=True).tolist())) for n in ds.coords},
                      "attrs": copy.deepcopy(dict(ds.attrs))}
    return snap


def diff_inputs(snap, dl, dr):
    """list of the parts of the caller's datasets that differ from the snapshot"""
    now = snapshot_inputs(dl, dr)
    out = []
    for side in ("left", "right"):
        for kind in ("vars", "coords"):
            a, b = snap[side][kind], now[side][kind]
            for n in sorted(set(a) | set(b)):
                if n not in a:
                    out.append("%s.%s added" % (side, n))
                elif n not in b:
                    out.append("%s.%s removed" % (side, n))
                elif a[n] != b[n]:
                    out.append("%s.%s changed" % (side, n))
        a, b = snap[side]["attrs"], now[side]["attrs"]
        for n in sorted(set(a) | set(b), key=str):
            if n not in a:
                out.append("%s.attrs[%s] added" % (side, n))
            elif n not in b:
                out.append("%s.attrs[%s] removed" % (side, n))
            else:
                try:
                    eq = bool(a[n] == b[n]) or (a[n] != a[n] and b[n] != b[n])
                except Exception:
                    eq = repr(a[n]) == repr(b[n])
                if not eq or type(a[n]) is not type(b[n]):
                    out.append("%s.attrs[%s] changed" % (side, n))
    return out


def _check(pipeline, h, w, interval, machine):
    from pandora import check_configuration
    return check_configuration.check_pipeline_section({"pipeline": copy.deepcopy(pipeline)}, _metadata(h, w, list(interval)),
                                                      _metadata(h, w, None), machine)


def worker_case(case):
    """one (pipeline, image) in this process: products, re-runs, interleavings, input comparison"""
    import warnings
    import pandora
    from pandora import check_configuration
    from pandora.state_machine import PandoraMachine
    name, h, w, interval, masks, img_seed = (case["pipeline"], case["h"], case["w"], list(case["interval"]),
                                             case["masks"], case["img_seed"])
    pipeline = PIPELINES[name]
    left, right, ml, mr = make_pair(img_seed, h, w, interval, masks)
    dl, dr = _dataset(left, ml, interval), _dataset(right, mr, None)
    check_configuration.check_datasets(dl, dr)
    snap = snapshot_inputs(dl, dr)
    res = {"case": case, "runs": {}, "inputs_changed": {}}
    with warnings.catch_warnings():
        warnings.simplefilter("ignore")
        # -- run 1: fresh machine, nothing else happened for this pipeline
        mach_a = PandoraMachine()
        cfg = _check(pipeline, h, w, interval, mach_a)
        out_l, out_r = pandora.run(mach_a, dl, dr, cfg)
        first = digest_products(out_l, out_r)
        res["digests"] = first
        res["all"] = _all(first)
        res["inputs_changed"]["run1"] = diff_inputs(snap, dl, dr)
        dm, vm = np.asarray(out_l["disparity_map"].data), np.asarray(out_l["validity_mask"].data)
        conf = np.asarray(out_l["confidence_measure"].data)
        valid = (vm & 0b01111000011) == 0
        res["stats"] = {"valid_pixels": int(valid.sum()), "subpixel_disparities": int((valid & (dm != np.rint(dm))).sum()),
                        "finite_confidence_values": int(np.isfinite(conf).sum()),
                        "low_ambiguity_confidence_pixels": int((conf[:, :, [i for i, n in enumerate(out_l.coords["indicator"].data)
                                                                             if "ambiguity" in str(n)][0]] < 0.6).sum()),
                        "indicators": [str(i) for i in out_l.coords["indicator"].data]}

        # -- other pipelines / other matching-cost classes on other machine objects (check only, check+run)
        def others(k):
            for j, other in enumerate(OTHERS):
                mach = PandoraMachine()
                ocfg = _check(other, h, w, [-2, 2], mach)
                if (j + k) % 2 == 0:
                    o_left, o_right, o_ml, o_mr = make_pair(img_seed + 7 + j, h, w, [-2, 2], bool(j % 2))
                    pandora.run(mach, _dataset(o_left, o_ml, [-2, 2]), _dataset(o_right, o_mr, None), ocfg)

        # -- run 2: the same machine object again, same cfg object, same datasets
        out_l, out_r = pandora.run(mach_a, dl, dr, cfg)
        res["runs"]["same_machine.rerun"] = digest_products(out_l, out_r)
        others(0)
        # -- run 3: same machine object, after the other pipelines, re-checked then re-run
        cfg3 = _check(pipeline, h, w, interval, mach_a)
        out_l, out_r = pandora.run(mach_a, dl, dr, cfg3)
        res["runs"]["same_machine.recheck_rerun_after_others"] = digest_products(out_l, out_r)
        others(1)
        # -- run 4: same machine object, third plain re-run after more interleaving
        out_l, out_r = pandora.run(mach_a, dl, dr, cfg3)
        res["runs"]["same_machine.rerun_after_others"] = digest_products(out_l, out_r)
        # -- run 5: a fresh machine in a process that has seen everything above
        mach_f = PandoraMachine()
        cfg5 = _check(pipeline, h, w, interval, mach_f)
        out_l, out_r = pandora.run(mach_f, dl, dr, cfg5)
        res["runs"]["fresh_machine.after_others"] = digest_products(out_l, out_r)
        res["inputs_changed"]["all_runs"] = diff_inputs(snap, dl, dr)
        # -- disparity map and pre-validation flags: the pipeline without its validation step, fresh machine
        pre = {k: v for k, v in pipeline.items() if k != "validation"}
        mach_p = PandoraMachine()
        cfgp = _check(pre, h, w, interval, mach_p)
        out_l, _ = pandora.run(mach_p, dl, dr, cfgp)
        res["pre"] = {"disparity_map": _arr_digest(out_l["disparity_map"].data),
                      "validity_mask": _arr_digest(out_l["validity_mask"].data)}
        res["inputs_changed"]["pre_validation_run"] = diff_inputs(snap, dl, dr)
    return res


def worker_main(spec_path, out_path):
    import logging
    t0 = time.time()
    spec = json.load(open(spec_path))
    out = {"env": {k: os.environ.get(k) for k in ("NUMBA_NUM_THREADS", "PANDORA_NUMBA_PARALLEL", "NUMBA_CACHE_DIR")},
           "results": [], "errors": []}
    try:
        import numba
        import pandora  # noqa: F401  (compiles pandora.interval_tools)
        from pandora.refinement.refinement import AbstractRefinement
        from pandora.cost_volume_confidence.ambiguity import Ambiguity
        from pandora import interval_tools
        logging.getLogger("transitions.core").setLevel(logging.ERROR)
        out["import_s"] = round(time.time() - t0, 1)
        out["numba_threads"] = int(numba.get_num_threads())
        out["parallel_option"] = {"loop_refinement": bool(AbstractRefinement.loop_refinement.targetoptions.get("parallel")),
                                  "compute_ambiguity": bool(Ambiguity.compute_ambiguity.targetoptions.get("parallel")),
                                  "create_connected_graph": bool(
                                      interval_tools.create_connected_graph.targetoptions.get("parallel"))}
        for case in spec["cases"]:
            try:
                out["results"].append(worker_case(case))
            except Exception as exc:  # reported to the parent: a run that fails under one threading only is a finding
                import traceback
                out["errors"].append({"case": case, "error": "%s: %s" % (type(exc).__name__, str(exc)[:300]),
                                      "trace": traceback.format_exc()[-1200:]})
        try:
            out["threading_layer"] = numba.threading_layer()
        except Exception as exc:
            out["threading_layer"] = "n/a (%s)" % type(exc).__name__
    except Exception as exc:
        import traceback
        out["fatal"] = "%s: %s\n%s" % (type(exc).__name__, exc, traceback.format_exc()[-1500:])
    out["wall_s"] = round(time.time() - t0, 1)
    json.dump(out, open(out_path, "w"))


# =================================================================================================== parent process
def spawn(config, cases, tmp):
    threads, parallel = int(config[0]), bool(config[1])
    tag = "t%d_%s" % (threads, "par" if parallel else "seq")
    spec, outp = os.path.join(tmp, tag + ".spec.json"), os.path.join(tmp, tag + ".out.json")
    json.dump({"cases": cases}, open(spec, "w"))
    env = dict(os.environ)
    env["NUMBA_NUM_THREADS"] = str(threads)
    env["PANDORA_NUMBA_PARALLEL"] = "True" if parallel else "False"
    base = os.environ.get("NUMBA_CACHE_DIR", "/tmp/pv_numba_cache")
    # numba's on-disk cache key does not contain the `parallel` option: keep the two variants apart
    env["NUMBA_CACHE_DIR"] = base if parallel else base.rstrip("/") + "_seq"
    env["PYTHONPATH"] = os.pathsep.join(["/repo", "/verif"] + [p for p in env.get("PYTHONPATH", "").split(os.pathsep) if p])
    env.pop("NUMBA_THREADING_LAYER", None)
    log = open(os.path.join(tmp, tag + ".log"), "w")
    proc = subprocess.Popen([sys.executable, "-m", "bounded.C18", "--worker", spec, outp], env=env, cwd="/verif",
                            stdout=log, stderr=subprocess.STDOUT)
    return {"config": [threads, parallel], "proc": proc, "out": outp, "log": log.name, "t0": time.time()}


def run_workers(configs, cases, max_parallel, timeout_s):
    """{(threads, parallel): worker output dict}"""
    results = {}
    with tempfile.TemporaryDirectory(prefix="c18_") as tmp:
        pending, running = list(configs), []
        while pending or running:
            while pending and len(running) < max_parallel:
                running.append(spawn(pending.pop(0), cases, tmp))
            time.sleep(0.3)
            for job in list(running):
                rc = job["proc"].poll()
                expired = time.time() - job["t0"] > timeout_s
                if rc is None and not expired:
                    continue
                if rc is None:
                    job["proc"].kill()
                    job["proc"].wait()
                running.remove(job)
                key = (job["config"][0], job["config"][1])
                try:
                    results[key] = json.load(open(job["out"]))
                except Exception:
                    tail = open(job["log"]).read()[-800:] if os.path.exists(job["log"]) else ""
                    results[key] = {"fatal": "worker %s produced no result (rc=%s, timeout=%s): %s" % (key, rc, expired, tail),
                                    "results": [], "errors": []}
    return results


def case_id(case):
    return "%s|%dx%d|%s|masks=%s|seed=%d" % (case["pipeline"], case["h"], case["w"], case["interval"], case["masks"],
                                             case["img_seed"])


def first_diff(a, b):
    keys = sorted(set(a) | set(b))
    bad = [k for k in keys if a.get(k) != b.get(k)]
    return bad


def product_class(bad):
    """stable short class from the list of differing product digests"""
    names = sorted({k.split(":")[-1] if ":" in k else k.split(".")[-1] for k in bad})
    return ",".join(names[:4])


def judge(rec, results, cases):
    """evaluate the clauses on the worker outputs"""
    by_cfg = {}
    for cfg_key, out in results.items():
        for r in out.get("results", []):
            by_cfg.setdefault(case_id(r["case"]), {})[cfg_key] = r
    for case in cases:
        cid = case_id(case)
        got = by_cfg.get(cid, {})
        # ---- per process: re-runs, fresh machine, inputs
        for cfg_key in sorted(results):
            out = results[cfg_key]
            r = got.get(cfg_key)
            honoured = (out.get("numba_threads") == cfg_key[0]
                        and all(v == cfg_key[1] for v in (out.get("parallel_option") or {"x": None}).values()))
            if r is None:
                err = [e for e in out.get("errors", []) if case_id(e["case"]) == cid]
                rec.case(key=("worker", cid, cfg_key), nontrivial=False,
                         sample={"case": cid, "threads": cfg_key[0], "parallel": cfg_key[1],
                                 "failed": (err[0]["error"] if err else out.get("fatal", "no result"))[:300]})
                continue
            st = r["stats"]
            nontrivial = bool(honoured and st["valid_pixels"] >= 20 and st["subpixel_disparities"] >= 5
                              and st["finite_confidence_values"] >= 20 and st["low_ambiguity_confidence_pixels"] >= 1)
            rec.case(key=("worker", cid, cfg_key), nontrivial=nontrivial,
                     sample={"case": cid, "threads": cfg_key[0], "parallel": cfg_key[1], "sha256_all_products": r["all"],
                             "stats": st, "numba_threads_seen": out.get("numba_threads"),
                             "parallel_option_seen": out.get("parallel_option"), "threading_layer": out.get("threading_layer")})
            wit = {"kind": "inprocess", "case": case, "config": [cfg_key[0], cfg_key[1]]}
            for label, dig in r["runs"].items():
                rec.case(key=("repeat", cid, cfg_key, label), nontrivial=nontrivial)
                bad = first_diff(r["digests"], dig)
                if bad:
                    clause = "C18.repeat.same_machine" if label.startswith("same_machine") else "C18.repeat.fresh_machine"
                    rec.violation(clause=clause, witness_class="%s:%s" % (label, product_class(bad)),
                                  message="%s: products differ from the first run of the same process in %s (threads=%d, parallel=%s)"
                                          % (label, bad[:6], cfg_key[0], cfg_key[1]),
                                  witness=dict(wit, label=label))
            for when, changed in r["inputs_changed"].items():
                rec.case(key=("inputs", cid, cfg_key, when), nontrivial=nontrivial)
                if changed:
                    rec.violation(clause="C18.inputs.unchanged",
                                  witness_class=",".join(sorted({c.split(" ")[0] for c in changed})[:4]),
                                  message="after %s the caller's datasets differ: %s" % (when, changed[:8]),
                                  witness=dict(wit, when=when))
        # ---- across processes
        keys = sorted(got)
        for par in (True, False):
            group = [k for k in keys if k[1] == par]
            missing = [k for k in sorted(results) if k[1] == par and k not in got]
            if group and missing:
                for k in missing:
                    out = results[k]
                    err = [e for e in out.get("errors", []) if case_id(e["case"]) == cid]
                    what = err[0]["error"] if err else out.get("fatal", "no result")
                    if "timeout=True" in what:
                        continue  # budget, not behaviour
                    rec.violation(clause="C18.threads.all_products",
                                  witness_class="run-fails-under-one-threading:" + what.split(":")[0][:40],
                                  message="run succeeded with (threads, parallel)=%s but failed with %s: %s" % (group[0], k, what[:300]),
                                  witness={"kind": "threads", "case": case, "configs": [list(group[0]), list(k)]})
            for k in group[1:]:
                rec.case(key=("threads", cid, group[0], k), nontrivial=True)
                bad = first_diff(got[group[0]]["digests"], got[k]["digests"])
                if bad:
                    rec.violation(clause="C18.threads.all_products", witness_class=product_class(bad),
                                  message="PANDORA_NUMBA_PARALLEL=%s: NUMBA_NUM_THREADS=%d and %d give different %s"
                                          % (par, group[0][0], k[0], bad[:6]),
                                  witness={"kind": "threads", "case": case, "configs": [list(group[0]), list(k)]})
        par_on = [k for k in keys if k[1]]
        par_off = [k for k in keys if not k[1]]
        if par_on and par_off:
            ref = par_on[0]
            for k in par_off:
                rec.case(key=("parallel_off", cid, ref, k), nontrivial=True)
                bad = first_diff(got[ref]["pre"], got[k]["pre"])
                if bad:
                    rec.violation(clause="C18.parallel_off.disparity_flags", witness_class=",".join(bad),
                                  message="pipeline without validation: %s differ between (threads=%d, parallel on) and "
                                          "(threads=%d, parallel off)" % (bad, ref[0], k[0]),
                                  witness={"kind": "parallel_off", "case": case, "configs": [list(ref), list(k)]})


def plan(tier, seed):
    rng = np.random.default_rng([int(seed), 1818])
    names = list(PIPELINES)
    if tier == "quick":
        configs = [(16, True), (4, True), (1, True), (2, False)]
        cases = [{"pipeline": name, "h": 20, "w": 30, "interval": [[-3, 2], [-2, 3]][int(rng.integers(2))],
                  "masks": bool(rng.integers(2)), "img_seed": int(seed) * 1000 + int(rng.integers(1000))}
                 for name in (names[0], names[2])]
        return configs, cases, 4, 80
    configs = [(16, True), (4, True), (2, True), (1, True), (16, False), (4, False), (2, False), (1, False)]
    cases = []
    for name in names:
        for (h, w, n) in ((20, 30, 2), (40, 60, 2), (64, 96, 1)):
            for k in range(n):
                cases.append({"pipeline": name, "h": h, "w": w,
                              "interval": [[-3, 2], [-2, 3], [-4, 4]][int(rng.integers(3))], "masks": bool(k),
                              "img_seed": int(seed) * 1000 + int(rng.integers(1000))})
    return configs, cases, 4, 900


def run(tier: str, seed: int) -> dict:
    rec = Recorder()
    rec.functions.update(_FUNCS)
    configs, cases, max_par, timeout_s = plan(tier, seed)
    results = run_workers(configs, cases, max_par, timeout_s)
    if not any(out.get("results") for out in results.values()):
        raise RuntimeError("no worker produced a result: " + json.dumps({str(k): (v.get("fatal") or v.get("errors"))
                                                                         for k, v in results.items()})[:1500])
    judge(rec, results, cases)
    bound = ("fresh subprocesses with (NUMBA_NUM_THREADS, PANDORA_NUMBA_PARALLEL) in %s; pipelines %s on seeded integer-valued "
             "synthetic pairs %s (right = shifted left + noise, optional masks), %d (pipeline, image) cases; in every process: "
             "run on a fresh machine, re-run on the same machine object, re-check + re-run and plain re-run after 4 other "
             "pipelines (zncc/ssd+cbca/sad subpix 4/census) were checked or run on other machine objects, run on a fresh "
             "machine afterwards, run of the pipeline without validation; input datasets deep-compared after the first run, "
             "after all runs and after the pre-validation run"
             % ([list(c) for c in configs], sorted({c["pipeline"] for c in cases}),
                sorted({"%dx%d" % (c["h"], c["w"]) for c in cases}), len(cases)))
    rule = ("evaluation = one worker result (pipeline, image, threads, parallel) or one comparison made on it (4 repeat "
            "comparisons, 3 input comparisons per worker result; one comparison per further thread count of the same "
            "PANDORA_NUMBA_PARALLEL; one on/off comparison per parallel-off process). Products = every data variable, "
            "coordinate and the attributes of the left and right output datasets, compared through SHA-256 of dtype, shape "
            "and raw bytes (bit-exact, no tolerance). With parallel off vs on only disparity_map and validity_mask of the "
            "pipeline without its validation step are compared (the statement claims no more). A worker case is non-trivial "
            "iff the process reports numba.get_num_threads() == requested and the `parallel` target option of "
            "loop_refinement/compute_ambiguity/create_connected_graph == requested, and the left output has >= 20 valid pixels, "
            ">= 5 sub-pixel disparities, >= 20 finite confidence values and >= 1 pixel whose ambiguity confidence is below 0.6 "
            "(so that the interval regularization graph is not empty). Numba disk caches of the two parallel settings "
            "are kept in separate directories. A worker that times out is not a violation.")
    return rec.result(bound=bound, rule=rule)


def replay(witness: dict) -> bool:
    case = witness["case"]
    kind = witness["kind"]
    configs = [tuple(witness["config"])] if kind == "inprocess" else [tuple(c) for c in witness["configs"]]
    configs = [(int(t), bool(p)) for t, p in configs]
    results = run_workers(configs, [case], len(configs), 900)
    rec = Recorder()
    judge(rec, results, [case])
    want = {"inprocess": ("C18.repeat", "C18.inputs"), "threads": ("C18.threads",), "parallel_off": ("C18.parallel_off",)}[kind]
    return any(v["clause"].startswith(want) for v in rec.violations)


if __name__ == "__main__":
    if len(sys.argv) == 4 and sys.argv[1] == "--worker":
        worker_main(sys.argv[2], sys.argv[3])
    else:
        print(__doc__)
