"""Bounded stand-in of C17 -- malformed inputs are refused up front; well-formed inputs never are.

Real code executed: pandora.check_configuration.check_datasets / check_dataset on xarray datasets built here, and
pandora.check_configuration.check_input_section on input sections whose files are written here with rasterio.

Oracle (from the statement + docs/source/userguide/input.rst):
  wellformed_ds(ds)    image 'im' present and not entirely NaN; band names (coordinate band_im, when there is one) all
                       str; every other data variable has the image's (rows, cols) as last two dimensions; the five
                       attributes no_data_img, valid_pixels, no_data_mask, crs, transform present; a disparity variable,
                       when present, has a band_disp coordinate containing 'min' and 'max' and min <= max everywhere.
  wellformed_pair(l,r) both well-formed, left has a disparity variable, same (rows, cols).
  wellformed_input     see FIELDS below: every field takes a documented form and a right grid needs a left grid.
Acceptance = normal return; refusal = any exception.
"""
import copy
import itertools
import logging
import os
import tempfile
import warnings

import numpy as np
import rasterio
import xarray as xr
from rasterio import Affine

from bounded.common import Recorder

MANDATORY_ATTRS = ("no_data_img", "valid_pixels", "no_data_mask", "crs", "transform")


# ======================================================================================================================
# part 1: datasets
# ======================================================================================================================
def build_dataset(seed, rows, cols, bands, extras, disp_kind, dtype, nan_kind):
    """A well-formed dataset (seeded)."""
    rng = np.random.default_rng(seed)
    shape = (rows, cols) if bands == 0 else (bands, rows, cols)
    data = rng.integers(0, 10, size=shape).astype(dtype)
    if nan_kind == "some" and data.size > 1:
        flat = data.reshape(-1)
        flat[rng.choice(flat.size, size=max(1, flat.size // 3), replace=False)] = np.nan
        if np.isnan(flat).all():
            flat[0] = 1
    elif nan_kind == "band" and bands > 1:
        data[0] = np.nan  # one band entirely NaN: the image is still not entirely NaN
    coords = {"row": np.arange(rows), "col": np.arange(cols)}
    if bands:
        coords["band_im"] = ["r", "g", "b", "n"][:bands]
    ds = xr.Dataset({"im": (["row", "col"] if bands == 0 else ["band_im", "row", "col"], data)}, coords=coords)
    ds.attrs = {"no_data_img": -9999, "valid_pixels": 0, "no_data_mask": 1, "crs": None,
                "transform": Affine(1.0, 0.0, 0.0, 0.0, 1.0, 0.0)}
    if "msk" in extras:
        ds["msk"] = xr.DataArray(rng.integers(0, 3, size=(rows, cols)).astype(np.int16), dims=["row", "col"])
    if "classif" in extras:
        ds.coords["band_classif"] = ["forest", "water"]
        ds["classif"] = xr.DataArray(rng.integers(0, 2, size=(2, rows, cols)).astype(np.int16),
                                     dims=["band_classif", "row", "col"])
    if "segm" in extras:
        ds["segm"] = xr.DataArray(rng.integers(0, 5, size=(rows, cols)).astype(np.int16), dims=["row", "col"])
    if disp_kind != "none":
        if disp_kind == "const":
            dmin = np.full((rows, cols), -2.0)
            dmax = np.full((rows, cols), 1.0)
        else:
            dmin = rng.integers(-4, 2, size=(rows, cols)).astype(np.float64)
            dmax = dmin + rng.integers(0, 4, size=(rows, cols))
        if disp_kind == "swapped":  # bands stored as [max, min]: selection is by name
            ds.coords["band_disp"] = ["max", "min"]
            arr = np.stack([dmax, dmin])
        else:
            ds.coords["band_disp"] = ["min", "max"]
            arr = np.stack([dmin, dmax])
        ds["disparity"] = xr.DataArray(arr.astype(np.float32), dims=["band_disp", "row", "col"])
    return ds


def _copy(ds):
    out = ds.copy(deep=True)
    out.attrs = dict(ds.attrs)
    return out


def _v_no_im(ds, rng):
    return ds.rename({"im": "image"})


def _v_all_nan(ds, rng):
    ds["im"] = ds["im"].astype(np.float32) * np.nan
    return ds


def _band_setter(values_of):
    def fun(ds, rng):
        n = ds.sizes["band_im"]  # KeyError on monoband -> not applicable
        return ds.assign_coords(band_im=values_of(n))
    return fun


def _offgrid(name, drow, dcol):
    def fun(ds, rng):
        rows, cols = ds["im"].shape[-2:]
        nrow, ncol = rows + drow, cols + dcol
        if nrow < 1 or ncol < 1:
            raise KeyError("not applicable")
        if name == "classif":
            arr = xr.DataArray(np.zeros((2, nrow, ncol), np.int16), dims=["band_c2", name + "_row", name + "_col"])
        elif name == "disparity":
            arr = xr.DataArray(np.stack([np.zeros((nrow, ncol), np.float32), np.ones((nrow, ncol), np.float32)]),
                               dims=["band_disp", name + "_row", name + "_col"])
            if "disparity" in ds:
                ds = ds.drop_vars("disparity")
            if "band_disp" not in ds.coords:
                ds.coords["band_disp"] = ["min", "max"]
            elif list(ds.coords["band_disp"].data) != ["min", "max"]:
                ds = ds.assign_coords(band_disp=["min", "max"])
        else:
            arr = xr.DataArray(np.zeros((nrow, ncol), np.int16), dims=[name + "_row", name + "_col"])
        if name in ds:
            ds = ds.drop_vars(name)
        ds[name] = arr
        return ds
    return fun


def _v_transposed(ds, rng):
    rows, cols = ds["im"].shape[-2:]
    if rows == cols:
        raise KeyError("not applicable")
    if "segm" in ds:
        ds = ds.drop_vars("segm")
    ds["segm"] = xr.DataArray(np.zeros((cols, rows), np.int16), dims=["segm_col", "segm_row"])
    return ds


def _v_var_1d(ds, rng):
    ds["profile"] = xr.DataArray(np.zeros(ds.sizes["col"], np.int16), dims=["col"])
    return ds


def _attr_remover(name):
    def fun(ds, rng):
        del ds.attrs[name]
        return ds
    return fun


def _v_no_disparity(ds, rng):
    return ds.drop_vars("disparity")


def _v_disp_no_coord(ds, rng):
    arr = ds["disparity"].data
    ds = ds.drop_vars(["disparity", "band_disp"])
    ds["disparity"] = xr.DataArray(arr, dims=["band_disp", "row", "col"])
    return ds


def _disp_bands(names):
    def fun(ds, rng):
        _ = ds["disparity"]
        return ds.assign_coords(band_disp=names)
    return fun


def _v_disp_min_gt_max_pixel(ds, rng):
    rows, cols = ds["disparity"].shape[-2:]
    r, c = int(rng.integers(rows)), int(rng.integers(cols))
    arr = ds["disparity"].data
    names = list(ds.coords["band_disp"].data)
    arr[names.index("min"), r, c] = arr[names.index("max"), r, c] + 1
    return ds


def _v_disp_min_gt_max_all(ds, rng):
    arr = ds["disparity"].data
    names = list(ds.coords["band_disp"].data)
    arr[names.index("min")] = arr[names.index("max")] + 2
    return ds


def _grow(axis):
    def fun(ds, rng):
        attrs = dict(ds.attrs)
        out = xr.concat([ds, ds.isel({axis: [-1]})], dim=axis, data_vars="minimal", coords="minimal", compat="override")
        out = out.assign_coords({axis: np.arange(out.sizes[axis])})
        out.attrs = attrs
        return out
    return fun


# name -> (function, alters only the pair relation?)
DS_VIOLATIONS = {
    "no-image": _v_no_im,
    "image-all-nan": _v_all_nan,
    "band-names-int": _band_setter(lambda n: list(range(n))),
    "band-names-float": _band_setter(lambda n: [float(i) for i in range(n)]),
    "band-names-nan": _band_setter(lambda n: [np.nan] * n),
    "band-names-mixed-object": _band_setter(lambda n: np.array(["r"] + list(range(1, n)), dtype=object)),
    "msk-off-grid-rows": _offgrid("msk", 1, 0),
    "msk-off-grid-cols": _offgrid("msk", 0, 1),
    "msk-off-grid-smaller": _offgrid("msk", -1, -1),
    "classif-off-grid": _offgrid("classif", 0, 1),
    "segm-off-grid": _offgrid("segm", 1, 1),
    "segm-transposed": _v_transposed,
    "disparity-off-grid": _offgrid("disparity", 1, 0),
    "extra-variable-off-grid": _offgrid("occlusion", 2, 0),
    "variable-1d": _v_var_1d,
    "attr-missing-no_data_img": _attr_remover("no_data_img"),
    "attr-missing-valid_pixels": _attr_remover("valid_pixels"),
    "attr-missing-no_data_mask": _attr_remover("no_data_mask"),
    "attr-missing-crs": _attr_remover("crs"),
    "attr-missing-transform": _attr_remover("transform"),
    "no-disparity": _v_no_disparity,
    "disparity-no-band-coordinate": _v_disp_no_coord,
    "disparity-bands-a-b": _disp_bands(["a", "b"]),
    "disparity-bands-min-only": _disp_bands(["min", "x"]),
    "disparity-bands-max-only": _disp_bands(["y", "max"]),
    "disparity-min-gt-max-one-pixel": _v_disp_min_gt_max_pixel,
    "disparity-min-gt-max-everywhere": _v_disp_min_gt_max_all,
    "one-more-row": _grow("row"),
    "one-more-col": _grow("col"),
}


def wellformed_ds(ds):
    """The statement, clause by clause. Returns (bool, reason)."""
    if "im" not in ds.data_vars:
        return False, "no image"
    im = np.asarray(ds["im"].data)
    if im.dtype.kind == "f" and np.isnan(im).all():
        return False, "image entirely NaN"
    if "band_im" in ds.coords and not all(isinstance(b, str) for b in ds.coords["band_im"].data.tolist()):
        return False, "band names not str"
    grid = im.shape[-2:]
    for name in ds.data_vars:
        if name != "im" and tuple(ds[name].shape[-2:]) != tuple(grid):
            return False, "variable %s not on the image grid" % name
    for att in MANDATORY_ATTRS:
        if att not in ds.attrs:
            return False, "attribute %s missing" % att
    if "disparity" in ds.data_vars:
        disp = ds["disparity"]
        if "band_disp" not in disp.coords:
            return False, "disparity without band_disp"
        names = list(disp.coords["band_disp"].data.tolist())
        if "min" not in names or "max" not in names:
            return False, "disparity without min/max bands"
        arr = np.asarray(disp.data)
        if (arr[names.index("min")] > arr[names.index("max")]).any():
            return False, "min > max"
    return True, ""


def wellformed_pair(left, right):
    for side, ds in (("left", left), ("right", right)):
        ok, why = wellformed_ds(ds)
        if not ok:
            return False, side + ": " + why
    if "disparity" not in left.data_vars:
        return False, "left without disparity"
    if tuple(left["im"].shape[-2:]) != tuple(right["im"].shape[-2:]):
        return False, "images of different sizes"
    return True, ""


_BASE_CACHE = {}


def base_pair(base):
    key = repr(sorted(base.items()))
    if key not in _BASE_CACHE:
        if len(_BASE_CACHE) > 8:
            _BASE_CACHE.clear()
        common = dict(rows=base["rows"], cols=base["cols"], bands=base["bands"], extras=base["extras"], dtype=base["dtype"])
        left = build_dataset(base["seed"], disp_kind=base["left_disp"], nan_kind=base["nan_kind"], **common)
        right = build_dataset(base["seed"] + 1, disp_kind=base["right_disp"], nan_kind="none", **common)
        _BASE_CACHE[key] = (left, right)
    return _BASE_CACHE[key]


def make_pair(recipe):
    """recipe = {'base': {...}, 'violations': [[side, name, vseed], ...]} -> (left, right) or None when not applicable.
    The cached base datasets are never modified: a side is deep-copied before its first violation is applied."""
    left, right = base_pair(recipe["base"])
    pair = {"left": left, "right": right}
    copied = set()
    for side, name, vseed in recipe["violations"]:
        try:
            with warnings.catch_warnings():
                warnings.simplefilter("ignore")
                src = pair[side] if side in copied else _copy(pair[side])
                copied.add(side)
                pair[side] = DS_VIOLATIONS[name](src, np.random.default_rng(vseed))
        except (KeyError, ValueError, IndexError):
            return None
    return pair["left"], pair["right"]


def describe(ds):
    return {"vars": {str(k): [list(map(str, v.dims)), list(v.shape)] for k, v in ds.data_vars.items()},
            "coords": {str(k): (np.asarray(v.data).tolist() if v.size <= 8 else "len %d" % v.size) for k, v in ds.coords.items()},
            "attrs": sorted(ds.attrs)}


def eval_pair(recipe, single_too=True):
    """-> None (not applicable) or list of findings; each finding = (clause, witness_class, message)"""
    from pandora.check_configuration import check_datasets, check_dataset
    made = make_pair(recipe)
    if made is None:
        return None
    left, right = made
    label = "+".join("%s:%s" % (s, n) for s, n, _ in recipe["violations"]) or "well-formed"
    out = []
    exp, why = wellformed_pair(left, right)
    try:
        with warnings.catch_warnings():
            warnings.simplefilter("ignore")
            check_datasets(left, right)
        acc, exc = True, None
    except Exception as err:  # pylint: disable=broad-except
        acc, exc = False, err
    if acc != exp:
        if exp:
            out.append(("C17.pair.iff", "wellformed-refused:" + label,
                        "well-formed pair refused with %r; left=%r right=%r" % (exc, describe(left), describe(right))))
        else:
            out.append(("C17.pair.iff", "malformed-accepted:" + label,
                        "malformed pair accepted (%s); left=%r right=%r" % (why, describe(left), describe(right))))
    for side, ds in ((("left", left), ("right", right)) if single_too else ()):
        exp1, why1 = wellformed_ds(ds)
        try:
            with warnings.catch_warnings():
                warnings.simplefilter("ignore")
                check_dataset(ds)
            acc1, exc1 = True, None
        except Exception as err:  # pylint: disable=broad-except
            acc1, exc1 = False, err
        if acc1 != exp1:
            mine = "+".join(n for s, n, _ in recipe["violations"] if s == side) or "well-formed"
            out.append(("C17.ds.iff", ("wellformed-refused:" if exp1 else "malformed-accepted:") + mine,
                        "check_dataset(%s) %s (%s%r); %r" % (side, "refused" if exp1 else "accepted", why1, exc1, describe(ds))))
    return out


def base_recipes(tier, rng):
    sizes = [(1, 1), (2, 3), (3, 3), (4, 5)]
    bases = []
    for (rows, cols), bands, extras, ldisp in itertools.product(
            sizes, (0, 2, 3), ([], ["msk"], ["classif"], ["msk", "classif", "segm"]), ("const", "grid", "swapped")):
        bases.append({"rows": rows, "cols": cols, "bands": bands, "extras": extras, "left_disp": ldisp,
                      "right_disp": str(rng.choice(["none", "const", "grid"])), "dtype": str(rng.choice(["float32", "float64"])),
                      "nan_kind": str(rng.choice(["none", "some", "band"])), "seed": int(rng.integers(1 << 30))})
    return bases


# ======================================================================================================================
# part 2: input sections
# ======================================================================================================================
ABSENT = "<absent>"
TMP = "$TMP/"
H, W = 4, 5


def _wtif(path, arr, names=None):
    arr = np.asarray(arr)
    if arr.ndim == 2:
        arr = arr[None]
    with warnings.catch_warnings():
        warnings.simplefilter("ignore")
        with rasterio.open(path, "w", driver="GTiff", width=arr.shape[2], height=arr.shape[1], count=arr.shape[0],
                           dtype=str(arr.dtype)) as dst:
            dst.write(arr)
            if names:
                dst.descriptions = tuple(names)


def write_input_files(tmp):
    rng = np.random.default_rng(17)
    _wtif(os.path.join(tmp, "left.tif"), rng.integers(1, 200, size=(H, W)).astype(np.uint8))
    _wtif(os.path.join(tmp, "right.tif"), rng.integers(1, 200, size=(H, W)).astype(np.uint8))
    _wtif(os.path.join(tmp, "other_size.tif"), rng.integers(1, 200, size=(H - 1, W)).astype(np.uint8))
    _wtif(os.path.join(tmp, "mask.tif"), rng.integers(0, 2, size=(H, W)).astype(np.uint8))
    _wtif(os.path.join(tmp, "classif.tif"), rng.integers(0, 2, size=(2, H, W)).astype(np.uint8), ["forest", "water"])
    _wtif(os.path.join(tmp, "segm.tif"), rng.integers(0, 4, size=(H, W)).astype(np.int16))
    lo = rng.integers(-3, 1, size=(H, W))
    good = np.stack([lo, lo + rng.integers(0, 3, size=(H, W))]).astype(np.float32)
    _wtif(os.path.join(tmp, "grid.tif"), good)
    _wtif(os.path.join(tmp, "grid_right.tif"), -good[::-1])
    _wtif(os.path.join(tmp, "grid_1band.tif"), good[:1])
    _wtif(os.path.join(tmp, "grid_3band.tif"), np.concatenate([good, good[1:] + 1]))
    _wtif(os.path.join(tmp, "grid_other_size.tif"), good[:, :-1, :])
    bad = good.copy()
    bad[0, 2, 3] = bad[1, 2, 3] + 1
    _wtif(os.path.join(tmp, "grid_min_gt_max.tif"), bad)
    with open(os.path.join(tmp, "not_a_raster.tif"), "w", encoding="utf-8") as fil:
        fil.write("this is not a raster\n")


def P(name):
    return TMP + name


BAD_PATHS = [("missing-file", P("missing.tif")), ("unreadable-file", P("not_a_raster.tif")), ("non-string", 3)]
IMG_OK = lambda side: [("ok", P(side + ".tif"))]
IMG_BAD = [("absent", ABSENT), ("none", None)] + BAD_PATHS
NODATA_OK = [("absent", ABSENT), ("-9999", -9999), ("0", 0), ("7", 7), ("nan", float("nan"))]
NODATA_BAD = [("float", 1.5), ("string", "abc"), ("none", None), ("inf", float("inf")), ("list", [0])]
AUX_BAD = BAD_PATHS + [("other-size", P("other_size.tif"))]
LDISP_OK = [("list", [-2, 2]), ("list-equal", [1, 1]), ("grid", P("grid.tif"))]
LDISP_BAD = [("absent", ABSENT), ("none", None), ("list-inverted", [2, -2]), ("list-length-1", [1]), ("list-empty", []),
             ("list-longer-than-2", [0, 5, 7]), ("list-longer-than-2", [5, 7, 0]), ("list-longer-than-2", [0, 1, 2, 3]), ("list-float", [0.5, 2]),
             ("list-str", ["a", "b"]), ("int", 45), ("grid-1band", P("grid_1band.tif")), ("grid-3band", P("grid_3band.tif")),
             ("grid-other-size", P("grid_other_size.tif")), ("grid-min-gt-max", P("grid_min_gt_max.tif")),
             ("missing-file", P("missing.tif")), ("unreadable-file", P("not_a_raster.tif"))]
RDISP_OK = [("absent", ABSENT), ("none", None)]  # + grid when the left one is a grid
RDISP_BAD = [("list", [0, 5]), ("int", 32), ("grid-1band", P("grid_1band.tif")), ("grid-3band", P("grid_3band.tif")),
             ("grid-other-size", P("grid_other_size.tif")), ("grid-min-gt-max", P("grid_min_gt_max.tif")),
             ("missing-file", P("missing.tif")), ("unreadable-file", P("not_a_raster.tif"))]


def aux_ok(kind):
    return [("absent", ABSENT), ("none", None), ("ok", P(kind + ".tif"))]


def fields():
    """field -> (ok options, bad options)"""
    out = {}
    for side in ("left", "right"):
        out[(side, "img")] = (IMG_OK(side), IMG_BAD)
        out[(side, "nodata")] = (NODATA_OK, NODATA_BAD)
        for kind in ("mask", "classif", "segm"):
            out[(side, kind)] = (aux_ok(kind), AUX_BAD)
        out[(side, "foo")] = ([("absent", ABSENT)], [("unknown-key", 1)])
    out[("left", "disp")] = (LDISP_OK, LDISP_BAD)
    out[("right", "disp")] = (RDISP_OK + [("grid", P("grid_right.tif"))], RDISP_BAD)
    return out


def build_cfg(choice, tmp):
    """choice: {(side, key): value}; returns the user cfg with real paths"""
    cfg = {"input": {"left": {}, "right": {}}}
    for (side, key), val in choice.items():
        if isinstance(val, str) and val == ABSENT:
            continue
        if isinstance(val, str) and val.startswith(TMP):
            val = os.path.join(tmp, val[len(TMP):])
        cfg["input"][side][key] = copy.deepcopy(val)
    return cfg


def eval_input(choice, expected, label, tmp):
    from pandora.check_configuration import check_input_section
    cfg = build_cfg(choice, tmp)
    try:
        with warnings.catch_warnings():
            warnings.simplefilter("ignore")
            ret = check_input_section(copy.deepcopy(cfg))
        acc, exc = True, None
    except Exception as err:  # pylint: disable=broad-except
        acc, exc, ret = False, err, None
    if acc == expected:
        return []
    shown = {"%s.%s" % k: v for k, v in choice.items() if not (isinstance(v, str) and v == ABSENT)}
    if expected:
        return [("C17.input.iff", "documented-form-refused:" + label, "refused with %s: %s ; cfg=%r" % (
            type(exc).__name__, str(exc)[:200], shown))]
    return [("C17.input.iff", "undocumented-form-accepted:" + label, "accepted although %s ; cfg=%r ; returned %r" % (
        label, shown, ret["input"] if ret else None))]


def random_ok_choice(rng, flds, ldisp=None):
    choice = {}
    for key, (oks, _) in flds.items():
        choice[key] = oks[int(rng.integers(len(oks)))][1]
    if ldisp is not None:
        choice[("left", "disp")] = dict(LDISP_OK)[ldisp]
    if not (isinstance(choice[("left", "disp")], str)) and isinstance(choice[("right", "disp")], str) \
            and choice[("right", "disp")] != ABSENT:
        choice[("right", "disp")] = None  # a right grid only goes with a left grid
    return choice


def choice_key(choice):
    return tuple(sorted((k, repr(v)) for k, v in choice.items()))


def choice_witness(choice, clause, wclass):
    return {"kind": "input", "choice": [[k[0], k[1], v] for k, v in choice.items()], "_clause": clause, "_class": wclass}


# ======================================================================================================================
def run(tier, seed):
    rng = np.random.default_rng(seed)
    rec = Recorder(max_violations=40)
    rec.functions.update({"pandora.check_configuration.check_datasets", "pandora.check_configuration.check_dataset",
                          "pandora.check_configuration.check_shape", "pandora.check_configuration.check_attributes",
                          "pandora.check_configuration.check_band_names",
                          "pandora.check_configuration.check_disparities_from_dataset",
                          "pandora.check_configuration.check_input_section",
                          "pandora.check_configuration.check_disparities_from_input",
                          "pandora.check_configuration.check_images", "pandora.check_configuration.check_image_dimension"})
    thorough = tier == "thorough"
    logging.disable(logging.CRITICAL)
    try:
        # ---- datasets
        bases = base_recipes(tier, rng)
        names = list(DS_VIOLATIONS)
        singles = [(s, n) for s in ("left", "right") for n in names]
        n_pair, n_single = (36, len(bases)) if thorough else (3, 48)
        pair_bases = set(int(i) for i in rng.choice(len(bases), size=n_pair, replace=False))
        single_bases = pair_bases | set(int(i) for i in rng.choice(len(bases), size=n_single, replace=False))
        for ib, base in enumerate(bases):
            todo = [[]]
            if ib in single_bases:
                todo += [[v] for v in singles]
            if ib in pair_bases:
                todo += [[a, b] for a, b in itertools.combinations(singles, 2)]
            for viol in todo:
                recipe = {"base": base, "violations": [[s, n, int(rng.integers(1 << 30))] for s, n in viol]}
                found = eval_pair(recipe, single_too=len(viol) < 2)
                if found is None:
                    continue
                rec.case(key=(repr(sorted(base.items())), tuple(viol)), nontrivial=True,
                         sample={"fn": "check_datasets", "base": base, "violations": viol})
                for clause, wclass, msg in found:
                    rec.violation(clause, wclass, msg, {"kind": "datasets", "recipe": recipe, "_clause": clause, "_class": wclass})

        # ---- input sections
        flds = fields()
        with tempfile.TemporaryDirectory() as tmp:
            write_input_files(tmp)
            # well-formed forms: all must be accepted
            n_ok = 1500 if thorough else 250
            ok_choices = []
            for i in range(n_ok):
                ok_choices.append(random_ok_choice(rng, flds, ldisp=["list", "list-equal", "grid"][i % 3]))
            for choice in ok_choices:
                rec.case(key=("in", choice_key(choice)), nontrivial=True,
                         sample={"fn": "check_input_section", "choice": {"%s.%s" % k: v for k, v in choice.items()}})
                for clause, wclass, msg in eval_input(choice, True, "well-formed", tmp):
                    rec.violation(clause, wclass, msg, choice_witness(choice, clause, wclass))
            # single violations on several bases, minimal base first
            minimal = {k: oks[0][1] for k, (oks, _) in flds.items()}
            minimal[("left", "disp")] = [-2, 2]
            minimal_grid = dict(minimal)
            minimal_grid[("left", "disp")] = P("grid.tif")
            s_bases = [minimal, minimal_grid] + [ok_choices[int(i)] for i in rng.choice(n_ok, size=12 if thorough else 3, replace=False)]
            bad_list = [(key, lab, val) for key, (_, bads) in flds.items() for lab, val in bads]
            for base in s_bases:
                for key, lab, val in bad_list:
                    choice = dict(base)
                    choice[key] = val
                    label = "%s.%s=%s" % (key[0], key[1], lab)
                    rec.case(key=("in", choice_key(choice)), nontrivial=True)
                    for clause, wclass, msg in eval_input(choice, False, label, tmp):
                        rec.violation(clause, wclass, msg, choice_witness(choice, clause, wclass))
                # combination violation: right grid with a left [min,max] list
                if not isinstance(base[("left", "disp")], str):
                    choice = dict(base)
                    choice[("right", "disp")] = P("grid_right.tif")
                    rec.case(key=("in", choice_key(choice)), nontrivial=True)
                    for clause, wclass, msg in eval_input(choice, False, "right-grid-with-left-list", tmp):
                        rec.violation(clause, wclass, msg, choice_witness(choice, clause, wclass))
                # missing right section
                cfg_choice = {k: v for k, v in base.items() if k[0] == "left"}
                rec.case(key=("in", choice_key(cfg_choice)), nontrivial=True)
                for clause, wclass, msg in eval_input(cfg_choice, False, "right.img=absent", tmp):
                    rec.violation(clause, wclass, msg, choice_witness(cfg_choice, clause, wclass))
            # pairwise violations
            pairs = [(a, b) for a, b in itertools.combinations(bad_list, 2) if a[0] != b[0]]
            if not thorough:
                pairs = [pairs[int(i)] for i in sorted(rng.choice(len(pairs), size=700, replace=False))]
            for base in ([minimal, minimal_grid] if thorough else [minimal if seed % 2 == 0 else minimal_grid]):
                for (k1, l1, v1), (k2, l2, v2) in pairs:
                    choice = dict(base)
                    choice[k1], choice[k2] = v1, v2
                    label = "%s.%s=%s+%s.%s=%s" % (k1[0], k1[1], l1, k2[0], k2[1], l2)
                    rec.case(key=("in", choice_key(choice)), nontrivial=True)
                    for clause, wclass, msg in eval_input(choice, False, label, tmp):
                        rec.violation(clause, wclass, msg, choice_witness(choice, clause, wclass))
    finally:
        logging.disable(logging.NOTSET)

    return rec.result(
        bound="check_datasets/check_dataset: 144 seeded well-formed left/right pairs (sizes 1x1,2x3,3x3,4x5; mono/2/3 bands; "
              "msk/classif/segm; left disparity constant, grid, or stored [max,min]; right disparity none/constant/grid; "
              "float32/float64; partial NaN) unviolated, %s with each of %d single violations on either side, %s with every "
              "pair of violations (check_dataset alone is also run on each side for the unviolated and single cases); "
              "check_input_section on 4x5 files written here: %d seeded well-formed sections (nodata absent/int/NaN, "
              "mask/classif/segm absent/None/path, disp list/equal list/grid, right disp absent/None/grid), every single "
              "undocumented value of every field on %d bases, %s pairs of undocumented values" % (
                  "all" if thorough else "48 seeded pairs", len(DS_VIOLATIONS), "36 seeded pairs" if thorough else "3 seeded pairs",
                  1500 if thorough else 250, 14 if thorough else 5, "all" if thorough else "700 seeded"),
        rule="a case = one (pair of datasets | input section); expected verdict computed on the final objects by the "
             "statement's predicate (wellformed_pair / wellformed_input), acceptance = normal return, refusal = any "
             "exception. Violations that cannot be applied to a base (e.g. band names on a monoband image, two removals "
             "of the same variable) are skipped and not counted. All counted cases are non-trivial (distinct "
             "(base, violations) or distinct section); witness_class names the violated clause(s) so distinct "
             "failures stay distinct.")


def replay(witness_):
    clause, wclass = witness_["_clause"], witness_["_class"]
    logging.disable(logging.CRITICAL)
    try:
        if witness_["kind"] == "datasets":
            found = eval_pair(witness_["recipe"]) or []
        else:
            choice = {(s, k): v for s, k, v in witness_["choice"]}
            label = wclass.split(":", 1)[1]
            expected = wclass.startswith("documented-form-refused")
            with tempfile.TemporaryDirectory() as tmp:
                write_input_files(tmp)
                found = eval_input(choice, expected, label, tmp)
    finally:
        logging.disable(logging.NOTSET)
    return any(c == clause and w == wclass for c, w, _ in found)
