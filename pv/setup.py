"""MANIFEST.setup_cmd: check the tool chain, byte-compile pv, run the engine's own smoke tests."""
import compileall
import os
import shutil
import subprocess
import sys

HERE = os.path.dirname(os.path.dirname(os.path.abspath(__file__)))


def main():
    import z3
    assert z3.get_version_string().split(".")[0] >= "4"
    assert shutil.which("cvc5") or os.path.exists("/usr/bin/cvc5"), "cvc5 missing"
    assert os.path.exists("/venv/bin/python"), "/venv/bin/python missing"
    ok = compileall.compile_dir(os.path.join(HERE, "pv"), quiet=1)
    assert ok
    from pv import selfcheck
    selfcheck.main()
    from pv import selfcheck_alias
    selfcheck_alias.main()
    print("pv setup ok")


if __name__ == "__main__":
    main()
