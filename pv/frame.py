"""Frame-only mode (option(frame_only=True)): kernels whose VALUES are not modelled but whose accesses to shared arrays
are -- used for the prange race-freedom and bounds obligations of the numba confidence kernels (C18).

Everything computed by numpy from arrays becomes `Top`: a private, freshly allocated value that absorbs any further
operation.  Soundness of the access log: every element read/write of a shared array (a parameter, or an array allocated
before the parallel loop) goes through the ordinary subscript paths and is logged; a slice of a shared array handed to a
numpy function is logged as a read of the whole slice (unconstrained positions on the sliced axes); functions that may
return a VIEW of their argument are refused on shared arrays (Unsupported) instead of being absorbed.
"""
import ast
import z3
from . import fl
from .vals import SArr, SList, SFunc, Unsupported, fresh_int, fresh_bool, fresh_float, fresh_name
from .lazy import LArr, _Lit
from .expr import as_bool

VIEW_FUNCS = {"reshape", "ravel", "squeeze", "swapaxes", "transpose", "T", "view", "flatten_view", "diagonal", "expand_dims",
              "broadcast_to", "atleast_2d", "atleast_1d", "asarray", "ascontiguousarray"}
SCALAR_FUNCS = {"nanmin", "nanmax", "min", "max", "sum", "nansum", "mean", "nanmean", "median", "nanmedian", "percentile",
                "nanpercentile", "quantile", "nanquantile", "std", "var", "prod", "any", "all", "dot"}
INT_FUNCS = {"argmin", "argmax", "nanargmin", "nanargmax", "count_nonzero", "searchsorted"}


class Top:
    """private value of unknown shape and content"""
    def __repr__(self):
        return "Top"


TOP = Top()


class TopShape:
    pass


def is_shared_view(v):
    if isinstance(v, SArr):
        return True
    if isinstance(v, tuple) and v and isinstance(v[0], str) and v[0] in ("sview", "smap"):
        return True
    if isinstance(v, LArr) and v.base is not None:
        return True
    return False


class FrameMixin:
    def frame_only(self):
        return bool(self.opt("frame_only", False))

    # fresh scalars standing for unmodelled values: anything computed from them is "top-derived"
    def top_int(self):
        v = fresh_int("top")
        self._top_syms = getattr(self, "_top_syms", {})
        self._top_syms[v.get_id()] = v
        return v

    def top_float(self):
        v = fresh_float("top")
        self._top_syms = getattr(self, "_top_syms", {})
        self._top_syms[v.v.get_id()] = v.v
        return v

    def top_derived(self, v):
        syms = getattr(self, "_top_syms", {})
        if not syms:
            return False
        if isinstance(v, Top):
            return True
        if isinstance(v, fl.SFloat):
            return self.top_derived(v.v) or (not v.fin and self.top_derived(v.k))
        if not z3.is_expr(v):
            return False
        seen, stack = set(), [v]
        while stack:
            x = stack.pop()
            if x.get_id() in seen:
                continue
            seen.add(x.get_id())
            if x.get_id() in syms:
                return True
            stack.extend(x.children())
        return False

    def norm_index(self, arr_name, i, n, st, node):
        if self.frame_only() and not self.spec and (self.top_derived(n) or self.top_derived(i)):
            # extent or index computed from unmodelled values (iteration-local scratch arrays): no obligation can be stated
            from .expr import to_int
            return to_int(i) if not isinstance(i, fl.SFloat) else self.top_int()
        return super().norm_index(arr_name, i, n, st, node)

    def obj_attr(self, base, a, st, n):
        if self.frame_only():
            return TOP  # configuration fields of the step object: unmodelled values
        return super().obj_attr(base, a, st, n)

    def div_check(self, x, y, node):
        if self.frame_only():
            return  # values are not modelled in frame mode (numpy scalar division yields inf/nan, it does not raise)
        return super().div_check(x, y, node)

    def require_finite(self, x, node):
        if self.frame_only():
            return
        return super().require_finite(x, node)

    # ------------------------------------------------------------ logging reads of whole views
    def log_view_read(self, v, st):
        if st.log is None:
            return
        if isinstance(v, SArr):
            if v.cell in self.local_iter_cells:
                return
            idx = list(v.fixed) + [fresh_int("any") for _ in v.view_shape()]
            st.log.append(("R", v.cell, tuple(idx), list(st.pc)))
        elif isinstance(v, tuple) and v and isinstance(v[0], str) and v[0] in ("sview", "smap"):
            b = v
            while b[0] == "smap":
                b = b[1]
            _, arr, axes = b
            if arr.cell in self.local_iter_cells:
                return
            idx = list(arr.fixed) + [ax[1] if ax[0] == "i" else fresh_int("any") for ax in axes]
            st.log.append(("R", arr.cell, tuple(idx), list(st.pc)))
        elif isinstance(v, LArr) and v.base is not None:
            arr, mp = v.base
            if arr.cell in self.local_iter_cells:
                return
            probe = [fresh_int("any") for _ in v.shape]
            st.log.append(("R", arr.cell, tuple(mp(probe)), list(st.pc)))

    def view_cell(self, v):
        if isinstance(v, SArr):
            return v.cell
        if isinstance(v, tuple) and v and isinstance(v[0], str) and v[0] in ("sview", "smap"):
            b = v
            while b[0] == "smap":
                b = b[1]
            return b[1].cell
        if isinstance(v, LArr) and v.base is not None:
            return v.base[0].cell
        return None

    def is_input_view(self, v):
        """a view of an array this function did not allocate itself (a parameter, or reachable from one)"""
        c = self.view_cell(v)
        return c is not None and c not in self.local_cells

    def absorb(self, vals, st):
        for v in vals:
            if is_shared_view(v):
                self.log_view_read(v, st)

    def input_write(self, v, st, node, what):
        """a write (or possible write) through a view: frame obligation when the array is not this function's own"""
        c = self.view_cell(v)
        if c is None:
            return
        arr = v if isinstance(v, SArr) else None
        if c not in self.local_cells and not (self.c is not None and self.c.assigns is None) and c not in self.assignable_cells:
            self.emit(st, "frame", "L%d" % getattr(node, "lineno", 0), False, node,
                      "%s writes an array the function did not allocate and that is not in assigns(...)" % what)
        if st.log is not None and c not in self.local_iter_cells:
            st.log.append(("W", c, tuple(fresh_int("any") for _ in range(8))[:0] or (fresh_int("any"),), list(st.pc)))
        if c in st.heap:
            from .vals import fresh_array_term
            h = st.heap[c]
            if isinstance(h, tuple):
                st.heap[c] = tuple(z3.Const(fresh_name("hv"), x.sort()) for x in h)
            else:
                st.heap[c] = z3.Const(fresh_name("hv"), h.sort())

    # ------------------------------------------------------------ expressions
    def e_Call(self, n, st):
        if not self.frame_only():
            return super().e_Call(n, st)
        fname = ast.unparse(n.func)
        short = fname.split(".")[-1]
        if fname in ("range", "prange", "len", "int", "float", "abs", "min", "max", "bool", "isnan", "np.isnan", "math.floor",
                     "math.ceil", "np.isfinite", "np.isinf") or fname in self.db.specs:
            args = [self.eval(a, st) for a in n.args if not isinstance(a, ast.Starred)]
            if any(isinstance(a, (Top, TopShape)) or is_shared_view(a) and not isinstance(a, SArr) for a in args) or \
                    (fname == "len" and args and isinstance(args[0], Top)):
                self.absorb(args, st)
                if short in ("isnan", "isfinite", "isinf", "bool"):
                    return fresh_bool("top")
                if short in ("len", "int", "floor", "ceil"):
                    return self.top_int()
                return self.top_float()
            call = ast.Call(func=n.func, args=[_Lit(a) for a in args], keywords=n.keywords, lineno=n.lineno, col_offset=0)
            return super().e_Call(call, st)
        if fname in ("np.zeros", "np.ones", "np.full", "np.copy", "np.empty") and not any(isinstance(k.value, ast.Starred) for k in n.keywords):
            try:
                return super().e_Call(n, st)
            except Unsupported:
                pass
        # receiver of a method call
        recv = None
        if isinstance(n.func, ast.Attribute) and not fname.startswith(("np.", "numpy.", "math.", "xr.", "copy.", "warnings.")):
            recv = self.eval(n.func.value, st)
            from .vals import SNs
            if isinstance(recv, SNs):
                recv = None
        args = []
        for a in n.args:
            args.append(self.eval(a.value if isinstance(a, ast.Starred) else a, st))
        for k in n.keywords:
            args.append(self.eval(k.value, st))
        allv = ([recv] if recv is not None else []) + args
        flat = []
        for a in allv:
            flat += list(a) if isinstance(a, tuple) and not (a and isinstance(a[0], str)) else [a]
        if (short in VIEW_FUNCS or short == "as_strided") and any(self.is_input_view(a) for a in flat) and st.log is not None:
            raise Unsupported("frame mode: %s may return a view of a shared array (line %d)" % (fname, n.lineno))
        if short == "nan_to_num" and any(k.arg == "copy" for k in n.keywords) and flat:
            self.input_write(flat[0], st, n, "np.nan_to_num(copy=False)")
            return TOP
        if short == "append" and isinstance(recv, SList):
            recv.items.append(args[0] if args else None)
            return None
        for k in n.keywords:
            if k.arg == "out":
                self.input_write(self.eval(k.value, st), st, n, "out= argument of %s" % fname)
        if isinstance(recv, (SArr,)) and short in ("fill", "sort", "put", "itemset", "resize"):
            raise Unsupported("frame mode: in-place method %s on a shared array (line %d)" % (short, n.lineno))
        callee = self.static_callee(n, st) if not isinstance(n.func, ast.Attribute) else None
        cc = self.db.callee_contract(callee) if callee else None
        if cc is not None and cc.assigns:
            # the callee's contract says which arguments it writes
            for pname in cc.assigns:
                if pname in cc.params and cc.params.index(pname) < len(args):
                    self.input_write(args[cc.params.index(pname)], st, n, "callee %s" % callee)
        self.absorb(flat, st)
        if short in SCALAR_FUNCS and not any(k.arg == "axis" for k in n.keywords) and len(n.args) <= 1 + (short in ("percentile", "nanpercentile", "quantile", "nanquantile", "dot")):
            return self.top_float()
        if short in INT_FUNCS and not any(k.arg == "axis" for k in n.keywords) and len(n.args) <= 1:
            return self.top_int()
        return TOP

    def e_BinOp(self, n, st):
        if self.frame_only():
            a = self.eval(n.left, st)
            b = self.eval(n.right, st)
            if isinstance(a, (Top,)) or isinstance(b, (Top,)) or (is_shared_view(a) and not _scalar(a)) or (is_shared_view(b) and not _scalar(b)):
                self.absorb([a, b], st)
                return TOP
            return super().e_BinOp(ast.BinOp(left=_Lit(a), op=n.op, right=_Lit(b), lineno=n.lineno, col_offset=0), st)
        return super().e_BinOp(n, st)

    def e_Compare(self, n, st):
        if self.frame_only():
            vals = [self.eval(n.left, st)] + [self.eval(c, st) for c in n.comparators]
            if any(isinstance(v, Top) or (is_shared_view(v) and not _scalar(v)) for v in vals):
                self.absorb(vals, st)
                return TOP
            return super().e_Compare(ast.Compare(left=_Lit(vals[0]), ops=n.ops, comparators=[_Lit(v) for v in vals[1:]],
                                                 lineno=n.lineno, col_offset=0), st)
        return super().e_Compare(n, st)

    def e_UnaryOp(self, n, st):
        if self.frame_only():
            v = self.eval(n.operand, st)
            if isinstance(v, Top) or (is_shared_view(v) and not _scalar(v)):
                self.absorb([v], st)
                return fresh_bool("top") if isinstance(n.op, ast.Not) else TOP
            return super().e_UnaryOp(ast.UnaryOp(op=n.op, operand=_Lit(v), lineno=n.lineno, col_offset=0), st)
        return super().e_UnaryOp(n, st)

    def e_Subscript(self, n, st):
        if self.frame_only():
            base = self.eval(n.value, st)
            if isinstance(base, Top):
                self.eval_index_any(n.slice, st)
                return TOP
            if isinstance(base, TopShape):
                r = self.top_int()
                st.assume(r >= 0)
                return r
            if isinstance(base, (SArr,)):
                idx = self.index_list(n.slice, st)
                if any(isinstance(i, Top) for i in idx):
                    self.log_view_read(base, st)  # boolean-mask / fancy read of a shared array: reads anything
                    return TOP
                if any(not isinstance(i, tuple) and self.top_derived(i) for i in idx):
                    # index computed from unmodelled values: it may designate any cell (no bounds obligation can be stated)
                    self.log_view_read(base, st)
                    self.unmodelled_index_reads = getattr(self, "unmodelled_index_reads", 0) + 1
                    return self.top_float() if base.dt in ("f", "r") else self.top_int()
                return super().e_Subscript(ast.Subscript(value=_Lit(base), slice=_Lit(idx[0]) if len(idx) == 1 and not isinstance(idx[0], tuple) else n.slice,
                                                         ctx=n.ctx, lineno=n.lineno, col_offset=0), st)
            return super().e_Subscript(ast.Subscript(value=_Lit(base), slice=n.slice, ctx=n.ctx, lineno=n.lineno, col_offset=0), st)
        return super().e_Subscript(n, st)

    def eval_index_any(self, sl, st):
        for e in (sl.elts if isinstance(sl, ast.Tuple) else [sl]):
            if isinstance(e, ast.Slice):
                for x in (e.lower, e.upper, e.step):
                    if x is not None:
                        self.eval(x, st)
            else:
                self.eval(e, st)

    def e_Attribute(self, n, st):
        if self.frame_only():
            base = self.eval(n.value, st)
            if isinstance(base, Top):
                if n.attr == "shape":
                    return TopShape()
                if n.attr in ("size", "ndim"):
                    r = self.top_int()
                    st.assume(r >= 0)
                    return r
                return SFunc(name="top." + n.attr, handler=("topmethod", base)) if n.attr not in ("T", "real", "flat", "data", "values", "attrs", "coords", "sizes", "dims") else TOP
            if isinstance(base, SArr) and n.attr in ("strides", "dtype", "flags", "itemsize", "nbytes"):
                return TOP
            return super().e_Attribute(ast.Attribute(value=_Lit(base), attr=n.attr, ctx=n.ctx, lineno=n.lineno, col_offset=0), st)
        return super().e_Attribute(n, st)

    def s_For(self, s, st):
        if self.frame_only():
            it = None
            try:
                it = self.eval(s.iter, st)
            except Unsupported:
                it = TOP
            if isinstance(it, Top) or (isinstance(it, tuple) and it and it[0] == "enumerate_top"):
                # a loop over an unmodelled sequence: ONE arbitrary iteration from a havocked state stands for all of them
                # (sound for the frame/race obligations: every iteration performs the same kinds of accesses)
                from .stmts import assigned_names
                names, stores, calls = assigned_names(s.body)
                hv = st.fork()
                for nm in sorted(names):
                    if nm in hv.vars:
                        hv.vars[nm] = self.havoc_value(nm, hv.vars[nm], hv)
                for nm in sorted(stores):
                    v = hv.vars.get(nm)
                    if isinstance(v, SArr):
                        from .state import havoc_cell
                        havoc_cell(hv, v, nm)
                for tt in ast.walk(s.target):
                    if isinstance(tt, ast.Name):
                        hv.vars[tt.id] = TOP
                if isinstance(it, tuple) and isinstance(s.target, ast.Tuple) and isinstance(s.target.elts[0], ast.Name):
                    hv.vars[s.target.elts[0].id] = self.top_int()
                out = []
                skip = hv.fork()
                for (s2, oc, pl) in self.exec_block(s.body, hv):
                    out.append((s2, "normal" if oc in ("normal", "continue", "break") else oc, pl))
                return out + [(skip, "normal", None)]
            k0 = self.loop_ordinals.get(id(s), 0)
            s = ast.For(target=s.target, iter=_Lit(it), body=s.body, orelse=s.orelse, lineno=s.lineno, col_offset=0)
            self.loop_ordinals[id(s)] = k0
            self._keep.append(s)
        return super().s_For(s, st)

    def b_enumerate(self, args, kw, st, n):
        if self.frame_only() and args and isinstance(args[0], Top):
            return ("enumerate_top",)
        return super().b_enumerate(args, kw, st, n)

    def e_BoolOp(self, n, st):
        if self.frame_only():
            vals = []
            for e in n.values:
                v = self.eval(e, st)
                vals.append(_Lit(fresh_bool("top") if isinstance(v, Top) else v))
            return super().e_BoolOp(ast.BoolOp(op=n.op, values=vals, lineno=n.lineno, col_offset=0), st)
        return super().e_BoolOp(n, st)

    def e_IfExp(self, n, st):
        if self.frame_only():
            c = self.eval(n.test, st)
            if isinstance(c, Top):
                c = fresh_bool("top")
            a = self.eval(n.body, st)
            b = self.eval(n.orelse, st)
            if isinstance(a, Top) or isinstance(b, Top):
                return TOP
            return super().e_IfExp(ast.IfExp(test=_Lit(c), body=_Lit(a), orelse=_Lit(b), lineno=n.lineno, col_offset=0), st)
        return super().e_IfExp(n, st)

    # ------------------------------------------------------------ statements
    def s_If(self, s, st):
        if self.frame_only():
            c = self.eval(s.test, st)
            if isinstance(c, Top):
                c = fresh_bool("top")
            s2 = ast.If(test=_Lit(c), body=s.body, orelse=s.orelse, lineno=s.lineno, col_offset=0)
            return super().s_If(s2, st)
        return super().s_If(s, st)

    def assign_target(self, t, v, st, s=None):
        if self.frame_only():
            if isinstance(t, ast.Subscript):
                base = self.eval(t.value, st)
                if isinstance(base, Top):
                    self.eval_index_any(t.slice, st)
                    return
                if isinstance(base, SArr):
                    idx = self.index_list(t.slice, st)
                    if any(isinstance(i, (Top,)) for i in idx) or any(not isinstance(i, tuple) and self.top_derived(i) for i in idx):
                        if base.cell in self.local_iter_cells:
                            return
                        if st.log is not None and base.cell not in self.local_cells:
                            raise Unsupported("frame mode: store into a shared array at an unmodelled index inside a parallel loop (line %d)" % t.lineno)
                        self.input_write(base, st, t, "masked / fancy store")
                        return
                    if any(isinstance(i, tuple) for i in idx) or len(idx) < base.ndim:
                        # a[i, j, :] = ... : a write of the whole slice (unconstrained positions on the sliced axes)
                        shape = base.view_shape()
                        idx = list(idx) + [("slice", None, None, None)] * (len(shape) - len(idx))
                        full = []
                        for i, s_ in zip(idx, shape):
                            full.append(fresh_int("any") if isinstance(i, tuple) else self.norm_index(base.name, i, s_, st, t))
                        if not self.frame_ok(base):
                            self.emit(st, "frame", "L%d" % t.lineno, False, t, "write to %s not in assigns" % base.name)
                        if st.log is not None and base.cell not in self.local_iter_cells:
                            st.log.append(("W", base.cell, tuple(list(base.fixed) + full), list(st.pc)))
                        from .state import havoc_cell
                        havoc_cell(st, base, base.name or "hv")
                        return
                    if isinstance(v, Top):
                        v = self.top_float() if base.dt in ("f", "r") else self.top_int()
                    return super().assign_target(ast.Subscript(value=_Lit(base), slice=t.slice, ctx=t.ctx, lineno=t.lineno, col_offset=0), v, st, s)
            if isinstance(t, (ast.Tuple, ast.List)) and isinstance(v, Top):
                for tt in t.elts:
                    self.assign_target(tt, TOP, st, s)
                return
        return super().assign_target(t, v, st, s)

    def s_AugAssign(self, s, st):
        if self.frame_only():
            t = s.target
            if isinstance(t, ast.Name):
                cur = st.vars.get(t.id)
                rhs = self.eval(s.value, st)
                if isinstance(cur, Top) or isinstance(rhs, Top):
                    self.absorb([rhs], st)
                    st.vars[t.id] = TOP if isinstance(cur, (Top, LArr, SArr)) or cur is None else (
                        self.top_float() if isinstance(cur, (fl.SFloat, float)) else self.top_int())
                    return [(st, "normal", None)]
                s = ast.AugAssign(target=t, op=s.op, value=_Lit(rhs), lineno=s.lineno, col_offset=0)
            elif isinstance(t, ast.Subscript):
                base = self.eval(t.value, st)
                rhs = self.eval(s.value, st)
                if isinstance(base, Top):
                    return [(st, "normal", None)]
                if isinstance(base, SArr):
                    idx = self.index_list(t.slice, st)
                    if any(isinstance(i, tuple) for i in idx) or len(idx) < base.ndim:
                        # a[i, j, :] op= ... : read and write of the whole slice
                        self.absorb([rhs], st)
                        self.log_view_read(self.slice_view(base, idx, st, t), st)
                        self.assign_target(t, TOP, st, s)
                        return [(st, "normal", None)]
                if isinstance(rhs, Top) and isinstance(base, SArr):
                    rhs = self.top_float() if base.dt in ("f", "r") else self.top_int()
                s = ast.AugAssign(target=ast.Subscript(value=_Lit(base), slice=t.slice, ctx=t.ctx, lineno=t.lineno, col_offset=0),
                                  op=s.op, value=_Lit(rhs), lineno=s.lineno, col_offset=0)
        return super().s_AugAssign(s, st)

    def havoc_value(self, name, v, st):
        if isinstance(v, (Top, TopShape, LArr)):
            return v
        return super().havoc_value(name, v, st)

    def call_method(self, recv, meth, args, kwargs, st, n):
        if isinstance(recv, Top):
            return TOP
        return super().call_method(recv, meth, args, kwargs, st, n)


def _scalar(v):
    return False
